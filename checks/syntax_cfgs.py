#!/usr/bin/env python3
"""Writes spec/MC_SyntaxGrammar_<focus>_<tier>.cfg: the foci of checks/grammar_cfgs.py (PenneGrammar sub-languages), with
bounds small enough for the budget of the `syntax` work package, checked for `Accepted` (the recogniser of SyntaxRules.tla
accepts every derived module) and emitted with their single-token faults.

    python3 checks/syntax_cfgs.py        regenerates the files (they are committed)
"""
import os
import sys

sys.path.insert(0, os.path.dirname(os.path.dirname(os.path.abspath(__file__))))
from checks import grammar_cfgs as g  # noqa: E402

# focus -> (MaxNodes quick, MaxNodes thorough, replacement classes at every position in the thorough tier?)
FOCI = {
    "decls": (4, 7), "loose": (6, 6), "types": (6, 8), "flat": (5, 8), "nest": (6, 8), "exprs": (6, 8), "ops": (5, 6),
    "lists": (5, 7), "commas": (5, 6), "args": (6, 8), "conds": (6, 8), "atoms": (3, 5), "casts": (6, 8), "elseif": (11, 15),
    "steps": (5, 7), "long": (8, 10), "undoc": (5, 5),
}
# derives only modules the recogniser must call `unc` (|&x|): checked with its own invariant
UNC_FOCI = {"undoc"}


def config(focus, tier):
    cfg = g.config(focus, "quick" if tier == "quick" else "thorough")
    cfg["MaxNodes"] = min(cfg["MaxNodes"], FOCI[focus][0 if tier == "quick" else 1])
    return cfg


def main():
    n = 0
    for focus in FOCI:
        for tier in ("quick", "thorough"):
            inv = ["ClassesKnown", "EmitFaults"] + ([] if focus in UNC_FOCI else ["Accepted"])
            text = g.render(config(focus, tier), inv)
            text = text.replace("CONSTANTS\n", "CONSTANTS\n  RepAll = %s\n" % ("TRUE" if tier == "thorough" else "FALSE"), 1)
            open(os.path.join(g.SPEC, "MC_SyntaxGrammar_%s_%s.cfg" % (focus, tier)), "w").write(text)
            n += 1
    print("wrote %d configurations" % n)


if __name__ == "__main__":
    main()

#!/usr/bin/env python3
"""Writes spec/MC_SyntaxGrammar_<focus>_<tier>.cfg: the foci of checks/grammar_cfgs.py (PenneGrammar sub-languages), with
bounds small enough for the budget of the `syntax` work package, checked for `Accepted` (the recogniser of SyntaxRules.tla
accepts every derived module) and emitted with their single-token faults.

    python3 checks/syntax_cfgs.py        regenerates the files (they are committed)
"""
import os
import sys

sys.path.insert(0, os.path.dirname(os.path.dirname(os.path.abspath(__file__))))
from checks import grammar_cfgs as g  # noqa: E402

# focus -> (MaxNodes quick, MaxNodes thorough).  quick: two replacement classes per position (about 50 faults per module);
# thorough: every class of RepSeq at every position (about 330 faults per module), hence nearly the same bounds
FOCI = {
    "decls": (4, 4), "loose": (6, 6), "types": (6, 6), "flat": (5, 5), "nest": (6, 7), "exprs": (6, 6), "ops": (5, 6),
    "lists": (5, 5), "commas": (5, 5), "args": (6, 7), "conds": (6, 6), "atoms": (4, 4), "casts": (6, 7), "elseif": (11, 15),
    "steps": (5, 6), "long": (8, 9), "undoc": (5, 5),
}
# the literal spellings of the atoms focus are the subject of C09 / C14 / C16, not of the grammar
OVERRIDES = {"atoms": dict(IntLits="<- IntLits_two", CharLits="<- CharLits_one", StrLits="<- StrLits_one", PrimTypes=["u8", "bool"],
                                 Builtins=["print", "abort"], Addrs=g.nset([0, 2]), CmpOps=["==", "<="], Files="<- Files_one")}
# not run in the quick tier: operator spellings, long lists, cast and else-if chains add no token class and no grammar position
# (every kind of syntax node still occurs: vacuity guard NODE_TAGS of checks/syntax_part.py)
QUICK_SKIP = {"ops", "args", "casts", "elseif", "long"}
# derives only modules the recogniser must call `unc` (|&x|): checked with its own invariant
UNC_FOCI = {"undoc"}


def foci(tier):
    return [f for f in FOCI if not (tier == "quick" and f in QUICK_SKIP)]


def config(focus, tier):
    cfg = g.config(focus, "quick" if tier == "quick" else "thorough")
    cfg["MaxNodes"] = min(cfg["MaxNodes"], FOCI[focus][0 if tier == "quick" else 1])
    cfg.update(OVERRIDES.get(focus, {}))
    return cfg


def main():
    n = 0
    for focus in FOCI:
        for tier in ("quick", "thorough"):
            inv = ["ClassesKnown", "EmitFaults"] + ([] if focus in UNC_FOCI else ["Accepted"])
            text = g.render(config(focus, tier), inv)
            text = text.replace("CONSTANTS\n", "CONSTANTS\n  RepAll = %s\n" % ("TRUE" if tier == "thorough" else "FALSE"), 1)
            open(os.path.join(g.SPEC, "MC_SyntaxGrammar_%s_%s.cfg" % (focus, tier)), "w").write(text)
            n += 1
    print("wrote %d configurations" % n)


if __name__ == "__main__":
    main()

"""Shared machinery of /verif/bin/check: building the harness, running TLC
(model checking, case emission, trace validation), known findings, evidence."""
import hashlib
import json
import os
import re
import shutil
import subprocess
import sys
import time

VERIF = os.path.dirname(os.path.dirname(os.path.abspath(__file__)))
REPO = os.environ.get("PENNE_REPO", "/repo")
SPEC = os.path.join(VERIF, "spec")
WORK = os.path.join(VERIF, "work")
REPLAYS = os.path.join(VERIF, "replays")
# evidence under /verif/evidence is only ever written by runs against /repo itself; runs against another
# tree (PENNE_REPO=<scratch worktree>, used for seeded changes) write theirs under work/
EVIDENCE = os.path.join(VERIF, "evidence") if os.path.realpath(REPO) == "/repo" else os.path.join(VERIF, "work", "evidence-other-tree")
TOOLS_BIN = os.path.join(VERIF, "tools", "bin")


class ToolError(Exception):
    """The machinery (not penne) failed: exit status 2, never a VIOLATION."""


def log(msg):
    print(msg, flush=True)


def env_with_tools(extra=None):
    env = dict(os.environ)
    env["PATH"] = TOOLS_BIN + ":" + env.get("PATH", "")
    env["CARGO_NET_OFFLINE"] = "true"
    if extra:
        env.update(extra)
    return env


# ---------------------------------------------------------------------------
# harness
# ---------------------------------------------------------------------------
def harness_dir():
    """The harness has a path dependency on /repo.  For PENNE_REPO != /repo (self
    tests on scratch worktrees) a private copy with a rewritten path is used."""
    src = os.path.join(VERIF, "harness")
    if os.path.realpath(REPO) == "/repo":
        return src
    tag = hashlib.sha1(os.path.realpath(REPO).encode()).hexdigest()[:10]
    dst = os.path.join("/tmp", "pvh-" + tag)
    os.makedirs(dst, exist_ok=True)
    # (penne-target: the compiler binary pipeline_common.build_penne puts next to the copy -- must survive a re-sync)
    subprocess.run(["rsync", "-a", "--delete", "--exclude", "target", "--exclude", "penne-target", src + "/", dst + "/"], check=True)
    toml = open(os.path.join(dst, "Cargo.toml")).read()
    toml = toml.replace('path = "/repo"', 'path = "%s"' % os.path.realpath(REPO))
    open(os.path.join(dst, "Cargo.toml"), "w").write(toml)
    return dst


_built = {}


def build_harness(bin_name="pvh"):
    """Build one harness binary (so that a broken binary of another group cannot block this check)."""
    d = harness_dir()
    if (d, bin_name) in _built:
        return _built[(d, bin_name)]
    t0 = time.time()
    # the lock file of the repository is the one source of dependency versions
    lock_src = os.path.join(REPO, "Cargo.lock")
    lock_dst = os.path.join(d, "Cargo.lock")
    if not os.path.exists(lock_dst):
        shutil.copy(lock_src, lock_dst)
    p = subprocess.run(["cargo", "build", "--offline", "--quiet", "--bin", bin_name], cwd=d, env=env_with_tools(),
                       stdout=subprocess.PIPE, stderr=subprocess.STDOUT, text=True)
    if p.returncode != 0:
        sys.stdout.write(p.stdout[-6000:])
        raise ToolError("harness build failed (does /repo still compile with features alpha,llvm-sys,penne_verif?)")
    exe = os.path.join(d, "target", "debug", bin_name)
    log("[build] harness binary %s built in %.1fs" % (exe, time.time() - t0))
    _built[(d, bin_name)] = exe
    return exe


def pvh(args, timeout=3600, check=True, env=None, exe_name="pvh"):
    """Run a harness binary (harness/src/bin/<exe_name>.rs)."""
    exe = build_harness(exe_name)
    p = subprocess.run([exe] + [str(a) for a in args], stdout=subprocess.PIPE, stderr=subprocess.PIPE,
                       text=True, timeout=timeout, env=env_with_tools(env))
    if check and p.returncode != 0:
        sys.stdout.write(p.stdout[-3000:])
        sys.stdout.write(p.stderr[-3000:])
        raise ToolError("pvh %s exited with %d" % (" ".join(map(str, args[:2])), p.returncode))
    return p


# ---------------------------------------------------------------------------
# TLC
# ---------------------------------------------------------------------------
class TlcResult:
    def __init__(self):
        self.generated = 0
        self.distinct = 0
        self.ok = False
        self.violated = None      # name of a violated invariant
        self.cases = []           # decoded CASE payloads
        self.notes = []           # other PrintT tuples
        self.output = ""
        self.wall = 0.0
        self.coverage = {}
        self.returncode = None


_case_re = re.compile(r'^<<"([A-Z]+)", (.*)>>$')


def _decode_print(line):
    m = _case_re.match(line)
    if not m:
        return None
    tag, rest = m.group(1), m.group(2)
    try:
        payload = json.loads(rest)          # a TLA+ string literal is a JSON string literal
        if isinstance(payload, str):
            try:
                payload = json.loads(payload)
            except ValueError:
                pass
        return tag, payload
    except ValueError:
        return tag, rest


def tlc(module, cfg, workers=8, timeout=1800, env=None, heap="8g", coverage=False, tag=None, simulate=None,
        keep_output=True):
    """Run TLC on spec/<module>.tla with spec/<cfg>.  Returns a TlcResult."""
    os.makedirs(WORK, exist_ok=True)
    tag = tag or (cfg.replace(".cfg", "") + "-" + str(os.getpid()))
    metadir = os.path.join(WORK, "md-" + tag)
    shutil.rmtree(metadir, ignore_errors=True)
    out_path = os.path.join(WORK, tag + ".out")
    cmd = ["timeout", str(timeout), "java", "-Xss1g", "-Xmx" + heap, "-XX:+UseParallelGC",
           "-cp", "/opt/veriftools/tla/tla2tools.jar:/opt/veriftools/tla/CommunityModules-deps.jar",
           "tlc2.TLC", "-workers", str(workers), "-metadir", metadir, "-cleanup", "-noGenerateSpecTE",
           "-config", os.path.join(SPEC, cfg)]
    if coverage:
        cmd += ["-coverage", "1"]
    if simulate:
        cmd += ["-simulate", simulate]
    cmd += [os.path.join(SPEC, module + ".tla")]
    e = dict(os.environ)
    if env:
        e.update(env)
    t0 = time.time()
    with open(out_path, "w") as out:
        p = subprocess.run(cmd, stdout=out, stderr=subprocess.STDOUT, env=e, cwd=SPEC)
    r = TlcResult()
    r.wall = time.time() - t0
    r.returncode = p.returncode
    r.output = out_path
    text_tail = []
    with open(out_path, errors="replace") as f:
        for line in f:
            line = line.rstrip("\n")
            if line.startswith('<<"'):
                d = _decode_print(line)
                if d:
                    if d[0] == "CASE":
                        r.cases.append(d[1])
                    else:
                        r.notes.append(d)
                    continue
            m = re.match(r"^(\d+) states generated, (\d+) distinct states found", line)
            if m:
                r.generated, r.distinct = int(m.group(1)), int(m.group(2))
            m = re.match(r"^Error: Invariant (\S+) is violated", line)
            if m:
                r.violated = m.group(1)
            m = re.match(r"^Error: Action property (\S+) is violated", line)
            if m:
                r.violated = m.group(1)
            if "Model checking completed. No error has been found." in line:
                r.ok = True
            text_tail.append(line)
            if len(text_tail) > 60:
                text_tail.pop(0)
    shutil.rmtree(metadir, ignore_errors=True)
    r.tail = "\n".join(text_tail)
    if p.returncode == 124:
        raise ToolError("TLC timed out after %ss on %s/%s" % (timeout, module, cfg))
    if not r.ok and r.violated is None:
        sys.stdout.write(r.tail + "\n")
        raise ToolError("TLC failed on %s/%s (exit %s), see %s" % (module, cfg, p.returncode, out_path))
    if not keep_output and r.ok:
        os.remove(out_path)
    return r


_tlc_cp = None


def tlc_classpath():
    global _tlc_cp
    if _tlc_cp is None:
        # take the class path from the installed wrapper so CommunityModules are found
        wrapper = shutil.which("tlc")
        cp = None
        try:
            txt = open(wrapper).read()
            m = re.search(r"-cp\s+(\S+)", txt)
            if m:
                cp = m.group(1).strip('"')
        except Exception:
            pass
        _tlc_cp = cp
    return _tlc_cp


def tlc_traces(module, cfg, trace_files, timeout=1800, parallel=12, extra_env=None):
    """Validate recorded traces: one single-worker TLC per file, `parallel` at a time.
    The trace spec ends with a POSTCONDITION printing <<"TRACE", [accepted, matched, total]>>.
    Returns a list of dicts {file, accepted, matched, total, wall, states}."""
    os.makedirs(WORK, exist_ok=True)
    pending = list(trace_files)
    running = []
    results = []

    def start(path):
        tag = "tr-" + os.path.basename(path).replace(".ndjson", "") + "-" + str(os.getpid())
        metadir = os.path.join(WORK, "md-" + tag)
        shutil.rmtree(metadir, ignore_errors=True)
        out_path = os.path.join(WORK, tag + ".out")
        e = dict(os.environ)
        e["TRACE"] = path
        if extra_env:
            e.update(extra_env)
        cmd = ["timeout", str(timeout), "java", "-Xss1g", "-Xmx3g", "-XX:+UseSerialGC",
               "-Dtlc2.tool.queue.IStateQueue=StateDeque",
               "-cp", tlc_java_cp(), "tlc2.TLC", "-workers", "1", "-metadir", metadir, "-cleanup",
               "-noGenerateSpecTE", "-config", os.path.join(SPEC, cfg), os.path.join(SPEC, module + ".tla")]
        out = open(out_path, "w")
        p = subprocess.Popen(cmd, stdout=out, stderr=subprocess.STDOUT, env=e, cwd=SPEC)
        return (p, path, out_path, out, metadir, time.time())

    while pending or running:
        while pending and len(running) < parallel:
            running.append(start(pending.pop(0)))
        time.sleep(0.05)
        still = []
        for item in running:
            p, path, out_path, out, metadir, t0 = item
            if p.poll() is None:
                still.append(item)
                continue
            out.close()
            shutil.rmtree(metadir, ignore_errors=True)
            res = {"file": path, "accepted": False, "matched": 0, "total": 0, "wall": time.time() - t0,
                   "states": 0, "output": out_path}
            got = False
            for line in open(out_path, errors="replace"):
                line = line.rstrip("\n")
                if line.startswith('<<"TRACE"'):
                    d = _decode_print(line)
                    if d and isinstance(d[1], dict):
                        res.update({"accepted": bool(d[1].get("accepted")), "matched": int(d[1].get("matched", 0)),
                                    "total": int(d[1].get("total", 0))})
                        got = True
                m = re.match(r"^(\d+) states generated, (\d+) distinct states found", line)
                if m:
                    res["states"] = int(m.group(2))
                    res["generated"] = int(m.group(1))
            if p.returncode == 124:
                raise ToolError("TLC trace validation timed out on %s" % path)
            if not got:
                tail = "".join(open(out_path, errors="replace").readlines()[-40:])
                sys.stdout.write(tail)
                raise ToolError("TLC trace validation failed to run on %s (exit %s)" % (path, p.returncode))
            results.append(res)
        running = still
    return results


def tlc_java_cp():
    return "/opt/veriftools/tla/tla2tools.jar:" + community_jar()


_cm = None


def community_jar():
    global _cm
    if _cm is None:
        cands = []
        for root in ["/opt/veriftools/tla", "/opt/veriftools"]:
            for dp, dn, fn in os.walk(root):
                for f in fn:
                    if f.startswith("CommunityModules") and f.endswith(".jar"):
                        cands.append(os.path.join(dp, f))
        # prefer the -deps jar (contains gson etc.)
        cands.sort(key=lambda x: ("deps" not in x, x))
        _cm = ":".join(cands) if cands else ""
    return _cm


# ---------------------------------------------------------------------------
# known findings, violations, evidence
# ---------------------------------------------------------------------------
def load_known():
    path = os.path.join(VERIF, "known_findings.json")
    if not os.path.exists(path):
        return []
    return json.load(open(path))["findings"]


class Report:
    def __init__(self, prop, tier, seed):
        self.prop = prop
        self.tier = tier
        self.seed = seed
        self.t0 = time.time()
        self.violations = []
        self.known_hits = {}
        self.drift = 0
        self.known = [k for k in load_known() if k["property"] == prop and k.get("status") == "open"]
        os.makedirs(REPLAYS, exist_ok=True)
        os.makedirs(EVIDENCE, exist_ok=True)

    def match_known(self, kind, key):
        """kind/key identify a failing input; a finding matches by exact key or by regex on it."""
        for k in self.known:
            m = k.get("match", {})
            if m.get("kind") != kind:
                continue
            if "key" in m and m["key"] == key:
                return k
            if "regex" in m and re.search(m["regex"], key):
                return k
        return None

    def violation(self, kind, key, detail):
        """Report a discrepancy between penne and the rule.  `key` is a canonical string of the input."""
        k = self.match_known(kind, key)
        if k is not None:
            self.known_hits.setdefault(k["id"], []).append(key)
            return False
        h = hashlib.sha1((kind + "|" + key).encode()).hexdigest()[:12]
        path = os.path.join(REPLAYS, "%s-%s.json" % (self.prop, h))
        if len(self.violations) < 50:
            json.dump({"property": self.prop, "kind": kind, "key": key, "detail": detail}, open(path, "w"), indent=1)
            print("VIOLATION property=%s replay=%s" % (self.prop, path), flush=True)
        self.violations.append(path)
        return True

    def note_drift(self, msg):
        self.drift += 1
        if self.drift <= 5:
            log("MODEL-DRIFT %s %s" % (self.prop, msg))

    def finish(self, level, coverage, assumptions):
        for k in self.known:
            if k["id"] in self.known_hits:
                print("KNOWN-FINDING: property=%s %s (%s; %d input(s) this run)" %
                      (self.prop, k["id"], k["what"], len(self.known_hits[k["id"]])), flush=True)
        coverage = dict(coverage)
        coverage["model_drift_notes"] = self.drift
        coverage["known_findings_hit"] = {k: len(v) for k, v in self.known_hits.items()}
        ev = {
            "property_id": self.prop,
            "tier": self.tier,
            "seed": self.seed,
            "level": level,
            "coverage": coverage,
            "assumptions": assumptions,
            "wall_s": round(time.time() - self.t0, 2),
            "violations": len(self.violations),
        }
        path = os.path.join(EVIDENCE, self.prop + ".json")
        json.dump(ev, open(path, "w"), indent=1)
        log("[evidence] %s (%d violations, %.1fs)" % (path, len(self.violations), ev["wall_s"]))
        return 1 if self.violations else 0


def write_ndjson(path, objs):
    with open(path, "w") as f:
        for o in objs:
            f.write(json.dumps(o, separators=(",", ":")))
            f.write("\n")


def read_ndjson(path):
    out = []
    with open(path) as f:
        for line in f:
            line = line.strip()
            if line:
                out.append(json.loads(line))
    return out

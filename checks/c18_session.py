"""C18, sessions (spec/CliSession.tla): several invocations of `penne emit|build --out-dir outd` that share one output directory.

TLC enumerates every behaviour of CliSession.tla up to MaxSteps steps that ends with an emission (Emit with the subcommand, the
file list and the target; a build also feeds the recording fake backend, whose standard input is compared the same way; Edit of ONE source text, Plant of a foreign file at the path of an IR file, Remove) together with the abstract
content R prescribes for every IR file after every emission.  Each behaviour is replayed in a directory of its own against the
real binary; after every emission the content of outd/<m>.pn.ll is compared with the content the same binary writes for the
same sources and target into an EMPTY directory (the table `fresh`), files R says are foreign / absent must still be so.
"""
import json
import os
import shutil
import subprocess
from concurrent.futures import ThreadPoolExecutor

from . import common
from . import pipeline_common as pc
from .common import log

SRC = {
    ("a", 1): 'import "b.pn";\n\nfn main() -> u8\n{\n\tvar r: u8 = LIMIT;\n\treturn: r\n}\n',
    ("a", 2): 'import "b.pn";\n\nfn main() -> u8\n{\n\tvar r: u8 = LIMIT + 1;\n\treturn: r\n}\n',
    ("b", 1): "pub const LIMIT: u8 = 17;\n\npub fn b_id(x: u8) -> u8\n{\n\treturn: x + LIMIT\n}\n",
    ("b", 2): "pub const LIMIT: u8 = 42;\n\npub fn b_id(x: u8) -> u8\n{\n\treturn: x + LIMIT\n}\n",
}
FOREIGN = "; not written by penne\n"
MODS = ("a", "b")
# (tier -> configurations: emissions only to the deeper bound, emissions and builds to the smaller one)
CFGS = {"quick": ["MC_CliSession_quick.cfg", "MC_CliSession_quick_build.cfg"],
        "thorough": ["MC_CliSession_thorough.cfg", "MC_CliSession_thorough_build.cfg"]}


def emit(penne, d, listed, wasm, sub="emit", bindir=None):
    """one invocation; returns (status, tail of the output, what the backend was fed with (build only))"""
    args = [penne, sub, "--silent"] + (["--wasm"] if wasm else []) + ["--out-dir", "outd"] + ["%s.pn" % m for m in sorted(listed)]
    env = {k: v for k, v in os.environ.items() if k not in ("RUST_BACKTRACE", "NO_COLOR", "PENNE_BACKEND", "PENNE_LLI")}
    env["RUST_BACKTRACE"] = "0"
    log_path = os.path.join(d, "backend.log")
    if sub == "build":
        # the default backend of `build` is `clang`: the recording fake one of checks/c18.py, first on PATH
        env["PATH"] = bindir + ":" + env.get("PATH", "")
        env["FAKE_LOG"] = log_path
        for p_ in (log_path, log_path + ".stdin"):
            if os.path.exists(p_):
                os.remove(p_)
    try:
        p = subprocess.run(args, cwd=d, env=env, stdout=subprocess.PIPE, stderr=subprocess.PIPE, timeout=120)
    except subprocess.TimeoutExpired:
        return "timeout", "", None
    fed = None
    if sub == "build" and os.path.exists(log_path + ".stdin"):
        fed = open(log_path + ".stdin", errors="replace").read()
    return p.returncode, (p.stdout + p.stderr).decode("utf-8", "replace")[-600:], fed


def read_ir(d, m):
    path = os.path.join(d, "outd", "%s.pn.ll" % m)
    return open(path, errors="replace").read() if os.path.exists(path) else None


def write_sources(d, ver):
    for m in MODS:
        open(os.path.join(d, "%s.pn" % m), "w").write(SRC[(m, ver[m])])


def fresh_table(penne, root, bindir):
    """(m, va, vb, wasm) -> the IR the binary writes into an empty directory;
    ("linked", va or 0, vb, wasm) -> what the backend of a build in an empty directory is fed with"""
    table = {}
    n = 0
    for va in (1, 2):
        for vb in (1, 2):
            for wasm in (False, True):
                for listed in (MODS, ("b",)):
                    if listed == ("b",) and va == 2:
                        continue
                    d = os.path.join(root, "freshb%d" % n)
                    n += 1
                    os.makedirs(d)
                    write_sources(d, {"a": va, "b": vb})
                    rc, tail, fed = emit(penne, d, listed, wasm, "build", bindir)
                    if rc != 0 or not fed:
                        raise common.ToolError("CliSession: the reference build of valid sources fails or feeds nothing (status %s): %s" % (rc, tail))
                    table[("linked", va if "a" in listed else 0, vb, wasm)] = fed
                    shutil.rmtree(d, ignore_errors=True)
                d = os.path.join(root, "fresh%d" % n)
                n += 1
                os.makedirs(d)
                write_sources(d, {"a": va, "b": vb})
                rc, tail, _ = emit(penne, d, MODS, wasm)
                if rc != 0:
                    raise common.ToolError("CliSession: the reference emission of valid sources fails (status %s): %s" % (rc, tail))
                for m in MODS:
                    ir = read_ir(d, m)
                    if ir is None:
                        raise common.ToolError("CliSession: the reference emission leaves no outd/%s.pn.ll" % m)
                    table[(m, va if m == "a" else 0, vb, wasm)] = ir
                shutil.rmtree(d, ignore_errors=True)
    # the abstraction must be faithful: different abstract contents are different texts (else a stale file cannot be told)
    for m in MODS + ("linked",):
        texts = {}
        for k, v in table.items():
            if k[0] == m:
                if v in texts:
                    raise common.ToolError("CliSession: IR of %s identical for %s and %s (the sources do not separate the versions)" % (m, texts[v], k))
                texts[v] = k
    return table


def step_name(s):
    if s["op"] in ("emit", "build"):
        return "%s(%s%s)" % (s["op"], "".join(sorted(s["listed"])), ",wasm" if s["wasm"] else "")
    return "%s(%s)" % (s["op"], s["m"])


def describe(table, m, text):
    if text is None:
        return "absent"
    if text == FOREIGN:
        return "the foreign file"
    for k, v in table.items():
        if k[0] == m and v == text:
            return "the IR of a=%s b=%s%s" % (k[1] or "-", k[2], " wasm" if k[3] else "")
    return "an unknown text"


def classify(table, m, text):
    """the abstract content of CliSession.tla for a text found in the directory / fed to the backend"""
    if text is None:
        return {"kind": "none"}
    if text == FOREIGN:
        return {"kind": "foreign"}
    for k, v in table.items():
        if k[0] == m and v == text:
            if m == "linked":
                return {"kind": "linked", "a": k[1], "b": k[2], "wasm": k[3]}
            return {"kind": "ir", "m": m, "a": k[1], "b": k[2], "wasm": k[3]}
    return {"kind": "unknown"}


def record_sessions(penne, root, table, bindir, n_sessions, n_steps, seed, path, corrupt=False):
    """impl -> spec: random sessions on the real binary, one recorded line per step (validated by Trace_CliSession.tla)"""
    import random
    rnd = random.Random(seed)
    lines = []
    for k in range(n_sessions):
        d = os.path.join(root, "r%d" % k)
        shutil.rmtree(d, ignore_errors=True)
        os.makedirs(d)
        ver = {"a": 1, "b": 1}
        write_sources(d, ver)
        lines.append({"op": "reset", "session": k})
        for _ in range(n_steps):
            present = [m for m in MODS if read_ir(d, m) is not None]
            op = rnd.choice(["emit", "emit", "build", "edit", "edit", "plant", "remove"])
            if op == "remove" and not present:
                op = "emit"
            rec = {"op": op}
            if op in ("emit", "build"):
                listed = rnd.choice([["a", "b"], ["a", "b"], ["b"]])
                wasm = rnd.random() < 0.3
                rc, _, fed = emit(penne, d, listed, wasm, op, bindir)
                rec.update(listed=listed, wasm=wasm, status=rc if isinstance(rc, int) else -1)
                if op == "build":
                    rec["fed"] = classify(table, "linked", fed)
            elif op == "edit":
                m = rnd.choice(MODS)
                ver[m] = 3 - ver[m]
                open(os.path.join(d, "%s.pn" % m), "w").write(SRC[(m, ver[m])])
                rec.update(m=m, v=ver[m])
            elif op == "plant":
                m = rnd.choice(MODS)
                os.makedirs(os.path.join(d, "outd"), exist_ok=True)
                open(os.path.join(d, "outd", "%s.pn.ll" % m), "w").write(FOREIGN)
                rec["m"] = m
            else:
                m = rnd.choice(present)
                os.remove(os.path.join(d, "outd", "%s.pn.ll" % m))
                rec["m"] = m
            rec["fs"] = {m: classify(table, m, read_ir(d, m)) for m in MODS}
            lines.append(rec)
        shutil.rmtree(d, ignore_errors=True)
    if corrupt:
        # self-test: one recorded file content of one emission is replaced by the content of the OTHER version of b
        i = next(j for j in range(len(lines) - 1, 0, -1) if lines[j]["op"] in ("emit", "build") and lines[j]["fs"]["b"]["kind"] == "ir")
        lines[i] = json.loads(json.dumps(lines[i]))
        lines[i]["fs"]["b"]["b"] = 3 - lines[i]["fs"]["b"]["b"]
    common.write_ndjson(path, lines)
    return lines


def replay_case(penne, root, idx, case, table, bindir):
    d = os.path.join(root, "s%d" % idx)
    shutil.rmtree(d, ignore_errors=True)
    os.makedirs(d)
    ver = {"a": 1, "b": 1}
    write_sources(d, ver)
    problems = []
    done = []
    for s in case["steps"]:
        done.append(step_name(s))
        if s["op"] == "edit":
            ver[s["m"]] = s["v"]
            open(os.path.join(d, "%s.pn" % s["m"]), "w").write(SRC[(s["m"], s["v"])])
        elif s["op"] == "plant":
            os.makedirs(os.path.join(d, "outd"), exist_ok=True)
            open(os.path.join(d, "outd", "%s.pn.ll" % s["m"]), "w").write(FOREIGN)
        elif s["op"] == "remove":
            os.remove(os.path.join(d, "outd", "%s.pn.ll" % s["m"]))
        else:
            rc, tail, fed = emit(penne, d, s["listed"], s["wasm"], s["op"], bindir)
            if rc != 0:
                problems.append(("exit-status", " ".join(done), "%s of valid sources ends with status %s: %s" % (s["op"], rc, tail)))
                break
            bad = False
            if s["op"] == "build":
                want = s["fed"]
                exp = table[("linked", want["a"], want["b"], want["wasm"])]
                if fed != exp:
                    bad = True
                    problems.append(("backend-input", "%s :: backend" % " ".join(done),
                                     "the backend should be fed with %s and is fed with %s" % (describe(table, "linked", exp), describe(table, "linked", fed))))
            for m in MODS:
                want = s["fs"][m]
                got = read_ir(d, m)
                if want["kind"] == "none":
                    exp = None
                elif want["kind"] == "foreign":
                    exp = FOREIGN
                else:
                    exp = table[(m, want["a"], want["b"], want["wasm"])]
                if got != exp:
                    bad = True
                    problems.append(("out-dir-content", "%s :: %s.pn.ll" % (" ".join(done), m),
                                     "outd/%s.pn.ll should be %s and is %s" % (m, describe(table, m, exp), describe(table, m, got))))
            if bad:
                break
    shutil.rmtree(d, ignore_errors=True)
    return problems


def run_part(penne, root, tier, findings, selftest, seed=1):
    cases, seen, states, generated, wall = [], set(), 0, 0, 0.0
    for cfg in CFGS[tier]:
        r = common.tlc("CliSession", cfg, workers=4, timeout=900, heap="4g", tag="cli-session-%s-%d" % (cfg.replace(".cfg", ""), os.getpid()),
                       keep_output=False)
        if not r.ok:
            raise common.ToolError("CliSession.tla/%s: invariant %s violated (the rule does not make an emission a function of sources and target)" % (cfg, r.violated))
        states += r.distinct
        generated += r.generated
        wall += r.wall
        for c in r.cases:
            k = json.dumps(c, sort_keys=True)
            if k not in seen:
                seen.add(k)
                cases.append(c)
    cases.sort(key=lambda c: json.dumps(c, sort_keys=True))
    if len(cases) < 100:
        raise common.ToolError("CliSession emitted %d behaviours (vacuous)" % len(cases))
    sroot = os.path.join(root, "sessions")
    os.makedirs(sroot, exist_ok=True)
    bindir = os.path.join(root, "bin")
    if not os.path.exists(os.path.join(bindir, "clang")):
        raise common.ToolError("CliSession: the fake backends of checks/c18.py are missing (%s)" % bindir)
    table = fresh_table(penne, sroot, bindir)
    with ThreadPoolExecutor(max_workers=int(pc.THREADS)) as ex:
        results = list(ex.map(lambda ic: replay_case(penne, sroot, ic[0], ic[1], table, bindir), enumerate(cases)))
    agree = 0
    emissions = sum(1 for c in cases for s in c["steps"] if s["op"] in ("emit", "build"))
    builds = sum(1 for c in cases for s in c["steps"] if s["op"] == "build")
    reuse = sum(1 for c in cases if sum(1 for s in c["steps"] if s["op"] in ("emit", "build")) >= 2 or any(s["op"] == "plant" for s in c["steps"]))
    for case, problems in zip(cases, results):
        if not problems:
            agree += 1
        for clause, key, msg in problems:
            findings.add(("session", clause), "cli-session", "%s | %s" % (clause, key),
                         {"case": case, "message": msg, "sources": {"%s.pn v%d" % k: v for k, v in SRC.items()},
                          "how": "the steps in order, in one directory: edit = rewrite that source only, plant = write a foreign outd/<m>.pn.ll, "
                                 "emit / build = penne emit|build --silent [--wasm] --out-dir outd <listed>.pn (build with the recording fake `clang` first on PATH); "
                                 "compare every IR file, and what the backend reads from its standard input, with the same invocation in an empty directory"})
    # impl -> spec: random sessions of 25 steps, recorded and validated by TLC against the same specification
    n_sessions = 40 if tier == "quick" else 400
    tpath = os.path.join(common.WORK, "cli-session-trace-%d.ndjson" % os.getpid())
    lines = record_sessions(penne, sroot, table, bindir, n_sessions, 25, seed, tpath)
    tres = common.tlc_traces("Trace_CliSession", "Trace_CliSession.cfg", [tpath])[0]
    if tres["total"] != len(lines):
        raise common.ToolError("Trace_CliSession: TLC read %s lines of %d (%s)" % (tres["total"], len(lines), tres.get("output")))
    if not tres["accepted"]:
        j = tres["matched"]          # index of the first line that is no step of the specification
        start = max(i for i in range(j + 1) if lines[i]["op"] == "reset")
        steps = [step_name(x) for x in lines[start + 1:j + 1]]
        findings.add(("session", "trace"), "cli-session", "trace | %s" % " ".join(steps),
                     {"rejected_line": lines[j], "session": lines[start:j + 1],
                      "message": "the recorded step is no step of CliSession.tla: after it the directory (or the input of the backend) does not hold "
                                 "what the rule prescribes; the lines after it were not examined"})
    os.remove(tpath)
    log("[trace] %d random sessions of 25 steps recorded from the real binary (%d lines): %s by TLC against CliSession.tla (%d lines matched)" %
        (n_sessions, len(lines), "accepted" if tres["accepted"] else "REJECTED", tres["matched"]))
    st = {}
    if selftest:
        cpath = os.path.join(common.WORK, "cli-session-trace-corrupt-%d.ndjson" % os.getpid())
        record_sessions(penne, sroot, table, bindir, 3, 12, seed, cpath, corrupt=True)
        st["corrupted_recording_rejected"] = not common.tlc_traces("Trace_CliSession", "Trace_CliSession.cfg", [cpath])[0]["accepted"]
        os.remove(cpath)
        # a stale expectation must be noticed: swap the expected version of `a` after the last emission of a behaviour that edited b
        probe = next(c for c in cases if any(s["op"] == "edit" and s["m"] == "b" for s in c["steps"])
                     and c["steps"][-1]["fs"]["a"]["kind"] == "ir")
        bad = json.loads(json.dumps(probe))
        bad["steps"][-1]["fs"]["a"]["b"] = 3 - bad["steps"][-1]["fs"]["a"]["b"]
        st["stale_expectation_detected"] = any(cl == "out-dir-content" for cl, _, _ in replay_case(penne, sroot, 999999, bad, table, bindir))
        # ... and so must a stale backend input: the version of `b` inside what the last build should feed
        probe2 = next(c for c in cases if c["steps"][-1]["op"] == "build" and any(s["op"] == "edit" for s in c["steps"]))
        bad2 = json.loads(json.dumps(probe2))
        bad2["steps"][-1]["fed"]["b"] = 3 - bad2["steps"][-1]["fed"]["b"]
        st["stale_backend_input_detected"] = any(cl == "backend-input" for cl, _, _ in replay_case(penne, sroot, 999998, bad2, table, bindir))
    shutil.rmtree(sroot, ignore_errors=True)
    log("[tlc] CliSession (%s): %d states, %d behaviours ending with an emission (%d emissions, %d of them builds, %d behaviours reuse a "
        "directory that already holds files), %.1fs; [replay] %d agree with the rule" % (", ".join(CFGS[tier]), states, len(cases), emissions, builds, reuse, wall, agree))
    return {"states": states, "transitions": generated, "behaviours": len(cases), "emissions": emissions, "builds": builds,
            "behaviours_reusing_a_directory": reuse, "agree": agree, "selftests": st,
            "recorded_sessions": n_sessions, "recorded_steps": len(lines), "recorded_steps_matched": tres["matched"], "trace_accepted": tres["accepted"]}

"""C18, sessions (spec/CliSession.tla): several invocations of `penne emit --out-dir outd` that share one output directory.

TLC enumerates every behaviour of CliSession.tla up to MaxSteps steps that ends with an emission (Emit with the file list and
the target, Edit of ONE source text, Plant of a foreign file at the path of an IR file, Remove) together with the abstract
content R prescribes for every IR file after every emission.  Each behaviour is replayed in a directory of its own against the
real binary; after every emission the content of outd/<m>.pn.ll is compared with the content the same binary writes for the
same sources and target into an EMPTY directory (the table `fresh`), files R says are foreign / absent must still be so.
"""
import json
import os
import shutil
import subprocess
from concurrent.futures import ThreadPoolExecutor

from . import common
from . import pipeline_common as pc
from .common import log

SRC = {
    ("a", 1): 'import "b.pn";\n\nfn main() -> u8\n{\n\tvar r: u8 = LIMIT;\n\treturn: r\n}\n',
    ("a", 2): 'import "b.pn";\n\nfn main() -> u8\n{\n\tvar r: u8 = LIMIT + 1;\n\treturn: r\n}\n',
    ("b", 1): "pub const LIMIT: u8 = 17;\n\npub fn b_id(x: u8) -> u8\n{\n\treturn: x\n}\n",
    ("b", 2): "pub const LIMIT: u8 = 42;\n\npub fn b_id(x: u8) -> u8\n{\n\treturn: x\n}\n",
}
FOREIGN = "; not written by penne\n"
MODS = ("a", "b")


def emit(penne, d, listed, wasm):
    args = [penne, "emit", "--silent"] + (["--wasm"] if wasm else []) + ["--out-dir", "outd"] + ["%s.pn" % m for m in sorted(listed)]
    env = {k: v for k, v in os.environ.items() if k not in ("RUST_BACKTRACE", "NO_COLOR")}
    env["RUST_BACKTRACE"] = "0"
    try:
        p = subprocess.run(args, cwd=d, env=env, stdout=subprocess.PIPE, stderr=subprocess.PIPE, timeout=120)
        return p.returncode, (p.stdout + p.stderr).decode("utf-8", "replace")[-600:]
    except subprocess.TimeoutExpired:
        return "timeout", ""


def read_ir(d, m):
    path = os.path.join(d, "outd", "%s.pn.ll" % m)
    return open(path, errors="replace").read() if os.path.exists(path) else None


def write_sources(d, ver):
    for m in MODS:
        open(os.path.join(d, "%s.pn" % m), "w").write(SRC[(m, ver[m])])


def fresh_table(penne, root):
    """(m, va, vb, wasm) -> the IR the binary writes into an empty directory"""
    table = {}
    n = 0
    for va in (1, 2):
        for vb in (1, 2):
            for wasm in (False, True):
                d = os.path.join(root, "fresh%d" % n)
                n += 1
                os.makedirs(d)
                write_sources(d, {"a": va, "b": vb})
                rc, tail = emit(penne, d, MODS, wasm)
                if rc != 0:
                    raise common.ToolError("CliSession: the reference emission of valid sources fails (status %s): %s" % (rc, tail))
                for m in MODS:
                    ir = read_ir(d, m)
                    if ir is None:
                        raise common.ToolError("CliSession: the reference emission leaves no outd/%s.pn.ll" % m)
                    table[(m, va if m == "a" else 0, vb, wasm)] = ir
                shutil.rmtree(d, ignore_errors=True)
    # the abstraction must be faithful: different abstract contents are different texts (else a stale file cannot be told)
    for m in MODS:
        texts = {}
        for k, v in table.items():
            if k[0] == m:
                if v in texts:
                    raise common.ToolError("CliSession: IR of %s identical for %s and %s (the sources do not separate the versions)" % (m, texts[v], k))
                texts[v] = k
    return table


def step_name(s):
    if s["op"] == "emit":
        return "emit(%s%s)" % ("".join(sorted(s["listed"])), ",wasm" if s["wasm"] else "")
    return "%s(%s)" % (s["op"], s["m"])


def describe(table, m, text):
    if text is None:
        return "absent"
    if text == FOREIGN:
        return "the foreign file"
    for k, v in table.items():
        if k[0] == m and v == text:
            return "the IR of a=%s b=%s%s" % (k[1] or "-", k[2], " wasm" if k[3] else "")
    return "an unknown text"


def replay_case(penne, root, idx, case, table):
    d = os.path.join(root, "s%d" % idx)
    shutil.rmtree(d, ignore_errors=True)
    os.makedirs(d)
    ver = {"a": 1, "b": 1}
    write_sources(d, ver)
    problems = []
    done = []
    for s in case["steps"]:
        done.append(step_name(s))
        if s["op"] == "edit":
            ver[s["m"]] = s["v"]
            open(os.path.join(d, "%s.pn" % s["m"]), "w").write(SRC[(s["m"], s["v"])])
        elif s["op"] == "plant":
            os.makedirs(os.path.join(d, "outd"), exist_ok=True)
            open(os.path.join(d, "outd", "%s.pn.ll" % s["m"]), "w").write(FOREIGN)
        elif s["op"] == "remove":
            os.remove(os.path.join(d, "outd", "%s.pn.ll" % s["m"]))
        else:
            rc, tail = emit(penne, d, s["listed"], s["wasm"])
            if rc != 0:
                problems.append(("exit-status", " ".join(done), "emit of valid sources ends with status %s: %s" % (rc, tail)))
                break
            bad = False
            for m in MODS:
                want = s["fs"][m]
                got = read_ir(d, m)
                if want["kind"] == "none":
                    exp = None
                elif want["kind"] == "foreign":
                    exp = FOREIGN
                else:
                    exp = table[(m, want["a"], want["b"], want["wasm"])]
                if got != exp:
                    bad = True
                    problems.append(("out-dir-content", "%s :: %s.pn.ll" % (" ".join(done), m),
                                     "outd/%s.pn.ll should be %s and is %s" % (m, describe(table, m, exp), describe(table, m, got))))
            if bad:
                break
    shutil.rmtree(d, ignore_errors=True)
    return problems


def run_part(penne, root, tier, findings, selftest):
    r = common.tlc("CliSession", "MC_CliSession_%s.cfg" % tier, workers=4, timeout=900, heap="4g",
                   tag="cli-session-%d" % os.getpid(), keep_output=False)
    if not r.ok:
        raise common.ToolError("CliSession.tla: invariant %s violated (the rule does not make an emission a function of sources and target)" % r.violated)
    cases = sorted(r.cases, key=lambda c: json.dumps(c, sort_keys=True))
    if len(cases) < 100:
        raise common.ToolError("CliSession emitted %d behaviours (vacuous)" % len(cases))
    sroot = os.path.join(root, "sessions")
    os.makedirs(sroot, exist_ok=True)
    table = fresh_table(penne, sroot)
    with ThreadPoolExecutor(max_workers=int(pc.THREADS)) as ex:
        results = list(ex.map(lambda ic: replay_case(penne, sroot, ic[0], ic[1], table), enumerate(cases)))
    agree = 0
    emissions = sum(1 for c in cases for s in c["steps"] if s["op"] == "emit")
    reuse = sum(1 for c in cases if sum(1 for s in c["steps"] if s["op"] == "emit") >= 2 or any(s["op"] == "plant" for s in c["steps"]))
    for case, problems in zip(cases, results):
        if not problems:
            agree += 1
        for clause, key, msg in problems:
            findings.add(("session", clause), "cli-session", "%s | %s" % (clause, key),
                         {"case": case, "message": msg, "sources": {"%s.pn v%d" % k: v for k, v in SRC.items()},
                          "how": "the steps in order, in one directory: edit = rewrite that source only, plant = write a foreign outd/<m>.pn.ll, "
                                 "emit = penne emit --silent [--wasm] --out-dir outd <listed>.pn; compare with an emission into an empty directory"})
    st = {}
    if selftest:
        # a stale expectation must be noticed: swap the expected version of `a` after the last emission of a behaviour that edited b
        probe = next(c for c in cases if any(s["op"] == "edit" and s["m"] == "b" for s in c["steps"])
                     and c["steps"][-1]["fs"]["a"]["kind"] == "ir")
        bad = json.loads(json.dumps(probe))
        bad["steps"][-1]["fs"]["a"]["b"] = 3 - bad["steps"][-1]["fs"]["a"]["b"]
        st["stale_expectation_detected"] = any(cl == "out-dir-content" for cl, _, _ in replay_case(penne, sroot, 999999, bad, table))
    shutil.rmtree(sroot, ignore_errors=True)
    log("[tlc] CliSession/MC_CliSession_%s.cfg: %d states, %d behaviours ending with an emission (%d emissions, %d behaviours reuse a "
        "directory that already holds files), %.1fs; [replay] %d agree with the rule" % (tier, r.distinct, len(cases), emissions, reuse, r.wall, agree))
    return {"states": r.distinct, "transitions": r.generated, "behaviours": len(cases), "emissions": emissions,
            "behaviours_reusing_a_directory": reuse, "agree": agree, "selftests": st}

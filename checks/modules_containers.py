"""C11 part (a): containment graphs of constants and structures (spec/Containers.tla)."""
import json
import os
import random

from . import common
from . import modules_util as mu
from .common import log

FAM = (413, 415, 416)

MC = {
    # emission configurations (every case is replayed)
    # q3w: words among the kinds (n <= 3); q6chain: the chain 1 -> ... -> 6 plus at most one more reference
    # (chains beyond the exhaustive bound, diamonds, one back edge) in 6 file orders
    "quick": ["MC_Containers_q4.cfg", "MC_Containers_q3.cfg", "MC_Containers_q3p.cfg", "MC_Containers_q3cp.cfg",
              "MC_Containers_q3w.cfg", "MC_Containers_q3wc.cfg", "MC_Containers_q6chain.cfg"],
    "thorough": ["MC_Containers_t4.cfg", "MC_Containers_t3.cfg", "MC_Containers_t3cp.cfg", "MC_Containers_q4.cfg",
                 "MC_Containers_q3.cfg", "MC_Containers_t3w.cfg", "MC_Containers_q6chain.cfg", "MC_Containers_t5wchain.cfg"],
}
# configurations on which the algorithm model is known to violate an invariant: each one documents a
# finding at design level and doubles as a vacuity guard (the invariant CAN fail)
# (cfg, invariant, what, fix that makes the invariant hold)
GUARDS = [
    ("MC_Containers_f1codes.cfg", "CodesOK", "E416 reported for a structure-only cycle that merely contains a constant",
     "PENNE_FIXED_E416"),
    ("MC_Containers_f2constptr.cfg", "Agree", "|:&S| in an initialiser is registered as containment of S",
     "PENNE_FIXED_SIZEOF_PTR"),
    ("MC_Containers_f3ptrlen.cfg", "Agree", "a structure with a member &[C]T may be typed before the constant C", None),
]
RECORD = {"quick": (1500, 8), "thorough": (30000, 8)}


def canon(case):
    return "k=%s v=%s p=%s o=%s" % (
        "".join(case["kind"]),
        ",".join("%d>%d" % (a, b) for a, b in case["val"]),
        ",".join("%d>%d" % (a, b) for a, b in case.get("ptr", [])),
        "".join(str(x) for x in case["perm"]))


def compare(case, obs):
    """Property-level discrepancies between the rule's verdict (evaluated by TLC) and the observation."""
    if obs.get("panic"):
        return [("crash", "the compiler panicked: %s" % obs["panic"])]
    out = []
    fam = [(c, nd) for c, nd in obs["diags"] if c in FAM]
    if case["acc"]:
        if not obs["ok"]:
            out.append(("rejected-acyclic", "no declaration contains itself, but the module is rejected: %s" % obs["diags"]))
    else:
        if obs["ok"]:
            out.append(("accepted-cyclic", "a declaration contains itself, but the module is accepted"))
        elif not fam:
            out.append(("no-cycle-code", "rejected, but with none of E413/E415/E416: %s" % obs["diags"]))
        for c, nd in fam:
            if nd not in case["ok%d" % c]:
                out.append(("wrong-code-%d" % c,
                            "E%d is located on declaration %d, of which it is not true (true of %s)" % (c, nd, case["ok%d" % c])))
    return out


def explained_by(case, obs, problem):
    """The shape tag (computed by TLC) that explains the observation, if the observation is exactly what
    the algorithm model predicts for that shape; None otherwise."""
    tags = case.get("tags", [])
    if problem == "crash":
        # a constant that mentions a constant whose typing failed reaches the generator (unreachable!())
        if "ptrlen-before-const" in tags and case.get("mcrash") and "unreachable" in obs.get("panic", ""):
            return "ptrlen-before-const"
        # a well-founded structure with a pointer member to a structure that is on or above a cycle
        if not case["acc"] and "ptr-to-unfounded-struct" in tags and "unreachable" in obs.get("panic", ""):
            return "ptr-to-unfounded-struct"
        return None
    diags = obs["diags"]
    fam = sorted((c, nd) for c, nd in diags if c in FAM)
    if "merrs" in case and fam != sorted((c, nd) for nd, c in case["merrs"]):
        return None
    # |:&[2]S| in the value of a constant is registered as containment of S (open finding; the model follows the code,
    # and the cycle diagnostics are exactly the model's -- checked above)
    if "constptr-array" in tags and fam and "merrs" in case and problem in ("rejected-acyclic", "wrong-code-413", "wrong-code-416"):
        return "constptr-array"
    if "constptr" in tags and fam and problem in ("rejected-acyclic", "wrong-code-413", "wrong-code-416"):
        return "constptr"
    if case["acc"]:
        # E433 on the structure that is typed before the constant of its pointer member, and on later
        # users of that constant (the typer poisons the constant's symbol): nothing but E433 on structures
        if "ptrlen-before-const" in tags and not fam and problem == "rejected-acyclic" and diags and \
                all(c == 433 and case["kind"][nd - 1] in "sw" for c, nd in diags) and \
                set(case.get("m433", [])) <= set(nd for c, nd in diags):
            return "ptrlen-before-const"
        return None
    if "const-below-struct-cycle" in tags and problem == "wrong-code-416" and \
            all(c != 416 or nd in case["ok415"] or nd in case["ok416"] for c, nd in fam):
        return "const-below-struct-cycle"
    return None


def key_of(case, obs, problem):
    tag = explained_by(case, obs, problem)
    return ("[%s] " % tag if tag else "") + canon(case)


def drift(case, obs):
    if obs.get("panic"):
        return []
    fam = sorted((c, nd) for c, nd in obs["diags"] if c in FAM)
    out = []
    if fam != sorted((c, nd) for nd, c in case["merrs"]):
        out.append("cycle diagnostics %s, model %s" % (fam, case["merrs"]))
    if case["acc"] and not case["merrs"]:
        # the model predicts the structures that are typed before a constant they need; the typer then
        # poisons that constant, which may add E433 on later users: superset
        e433 = set(nd for c, nd in obs["diags"] if c == 433)
        if not set(case.get("m433", [])) <= e433 or (e433 and not case.get("m433")):
            out.append("E433 on %s, model %s" % (sorted(e433), case.get("m433", [])))
    return out


def run(rep, tier, seed, selftest, st):
    """st: dict collecting coverage numbers of the whole check."""
    os.makedirs(common.WORK, exist_ok=True)
    # ---- 1. model checking + emission ------------------------------------------------------
    res = mu.tlc_many("C11", "MC_Containers", MC[tier], workers=4 if tier == "quick" else 8,
                      timeout=900 if tier == "quick" else 3400, heap="6g" if tier == "quick" else "12g",
                      parallel=3 if tier == "quick" else 1)
    cases = []
    model_ok = True
    for cfg in MC[tier]:
        r = res[cfg]
        st["states"] += r.distinct
        st["transitions"] += r.generated
        if not r.ok:
            model_ok = False
            log("[tlc] counterexample tail:\n" + r.tail[-2500:])
        for c in r.cases:
            c["cfg"] = cfg
        cases += r.cases
    if not cases:
        raise common.ToolError("TLC emitted no containment cases")
    guards = {}
    for cfg, inv, what, fix in GUARDS:
        violated, r = mu.expect_violation("C11", "MC_Containers", cfg, inv)
        if fix and mu.fixed(fix):
            # the tree contains the fix: the model follows it and the invariant must hold now
            ok = r.ok
            guards["%s satisfies %s (fixed)" % (cfg, inv)] = ok
            log("[tlc] %s: invariant %s %s (the tree contains the fix for: %s)" % (cfg, inv, "holds" if ok else "VIOLATED", what))
        else:
            ok = violated
            guards["%s violates %s" % (cfg, inv)] = ok
            log("[tlc] %s: invariant %s %s (%s)" % (cfg, inv, "violated as expected" if ok else "NOT violated", what))
    # ---- 2. replay every case --------------------------------------------------------------
    cases_path = os.path.join(common.WORK, "C11-graph-cases.ndjson")
    obs_path = os.path.join(common.WORK, "C11-graph-obs.ndjson")
    common.write_ndjson(cases_path, cases)
    mu.pvh(["replay-graphs", cases_path, obs_path])
    observations = common.read_ndjson(obs_path)
    if len(observations) != len(cases):
        raise common.ToolError("replay returned %d observations for %d cases" % (len(observations), len(cases)))
    agree = 0
    nontrivial = set()
    before = len(rep.violations)
    real_rep, rep = rep, mu.Pending(rep)
    for case, obs in zip(cases, observations):
        if case["val"] or case.get("ptr"):
            nontrivial.add(canon(case))
        for problem, msg in compare(case, obs):
            rep.violation("containers/" + problem, key_of(case, obs, problem),
                          {"part": "containers", "case": case, "observed": obs, "problem": problem, "message": msg,
                           "how": "bin/check C11 --replay <this file>"})
        d = drift(case, obs)
        if d:
            real_rep.note_drift("containers %s: %s" % (canon(case), "; ".join(d)))
        else:
            agree += 1
    rep.flush()
    rep = real_rep
    log("[replay] containers: %d cases replayed on the real compiler, %d violations, model agreement %d/%d" %
        (len(cases), len(rep.violations) - before, agree, len(cases)))
    if not model_ok and len(rep.violations) == before and not rep.known_hits:
        rep.note_drift("TLC reports an invariant of Containers violated but no replayed case shows it on the real code")
    selftests = {}
    if selftest:
        i = next(i for i, c in enumerate(cases) if not c["acc"] and not c["tags"])
        flipped = dict(cases[i])
        flipped["acc"] = True
        selftests["containers_flipped_verdict_detected"] = bool(compare(flipped, observations[i]))
        moved = dict(cases[i])
        moved["ok413"] = moved["ok415"] = moved["ok416"] = []
        selftests["containers_misplaced_code_detected"] = bool(compare(moved, observations[i]))
    # ---- 3. trace validation of random larger graphs ---------------------------------------
    count, chunks = RECORD[tier]
    prefix = os.path.join(common.WORK, "C11-gtrace")
    mu.pvh(["record-graphs", count, seed, prefix, chunks, 8])
    files = [f for f in ("%s.%d.ndjson" % (prefix, c) for c in range(chunks)) if os.path.exists(f)]
    for f in files:
        for line in open(f):
            if '"ev":"toolerror"' in line:
                raise common.ToolError("recorder: " + line[:400])

    def graph_of(lines):
        return json.loads(lines[0])

    def on_stuck(lines, unmatched):
        g = graph_of(lines)
        rep.violation("containers-trace/stuck", canon(g),
                      {"part": "containers-trace", "input": g, "unmatched_event": unmatched and json.loads(unmatched),
                       "recording": [json.loads(x) for x in lines],
                       "message": "the recorded behaviour of the real scoper is not one the rule allows "
                                  "(containment registered for a pointer, wrong depth, missing depth or crash)"})

    before = len(rep.violations)
    ok_runs, events, outputs = mu.validate_traces("Trace_Containers", "Trace_Containers_rule.cfg", files, on_stuck)
    bad = [b for o in outputs for b in mu.printed(o, "BAD")]
    real_rep, rep = rep, mu.Pending(rep)
    for b in bad:
        case = {"kind": b["kind"], "val": b["val"], "ptr": b["ptr"], "perm": b["perm"], "tags": b["tags"],
                "acc": b["acc"], "m433": b.get("m433", []), "mcrash": b.get("mcrash", False),
                "ok415": b.get("ok415", []), "ok416": b.get("ok416", [])}
        obs = {"ok": b["ok"], "diags": [[d["code"], d["node"]] for d in b["diags"]]}
        if "msg" in b:
            obs["panic"] = b["msg"]
        # (the model's cycle reports are not part of a rule-level BAD line; the tag is restricted to the
        #  observation it explains: only E433 on the predicted structures / E416 on a structure cycle)
        for problem in b["problems"]:
            # same kind and key as a replayed case: one known-finding entry covers both directions
            rep.violation("containers/" + problem, key_of(case, obs, problem),
                          {"part": "containers-trace", "case": case, "observed": obs, "problem": problem,
                           "message": "TLC (Trace_Containers, rule level) rejects the outcome of this recorded run"})
    rep.flush()
    rep = real_rep
    ok_runs -= len(bad)
    strict = common.tlc_traces("Trace_Containers", "Trace_Containers_strict.cfg", files, parallel=8, extra_env=mu.probe_fixes())
    strict_ok = sum(1 for s in strict if s["accepted"])
    for s in strict:
        if not s["accepted"]:
            rep.note_drift("strict trace validation of containers stops at line %d of %s" % (s["matched"] + 1, s["file"]))
    log("[trace] containers: %d recorded runs (%d events) validated against the rule: %d accepted, %d with a wrong outcome, "
        "%d violations; strict (algorithm) mode: %d/%d files" %
        (count, events, ok_runs, len(bad), len(rep.violations) - before, strict_ok, len(files)))
    if selftest and files:
        selftests.update(trace_selftest(files[0]))
    rnd = random.Random(seed)
    idx = sorted(rnd.sample(range(len(cases)), min(4, len(cases))))
    st["cases"] += len(cases)
    st["traces_ok"] += ok_runs
    st["recorded"] += count
    st["nontrivial"] += len(nontrivial)
    st["samples"] += [{"part": "containers", "case": cases[i], "observed": observations[i]} for i in idx]
    if files:
        with open(files[0]) as f:
            st["samples"].append({"part": "containers-trace", "trace_head": [json.loads(next(f)) for _ in range(3)]})
    st["detail"]["containers"] = {
        "tlc_configs": MC[tier], "cases_replayed": len(cases), "model_invariants_hold": model_ok,
        "model_agreement": "%d/%d" % (agree, len(cases)), "design_level_guards": guards,
        "random_graphs_recorded": count, "random_graphs_accepted_rule_level": ok_runs,
        "trace_events_matched": events, "strict_trace_files_accepted": "%d/%d" % (strict_ok, len(files)),
    }
    st["selftests"].update(selftests)
    for name, ok in guards.items():
        if not ok:
            rep.note_drift("design-level guard no longer fails: %s (the model or the finding changed)" % name)
    return


def trace_selftest(path):
    """Corrupt a copy of a recording in two ways: a depth off by one must stop the validation, a flipped
    verdict must be reported as BAD."""
    lines = open(path).read().splitlines()
    out = {}
    didx = next((i for i, l in enumerate(lines) if '"ev":"depth"' in l and '"d":-1' not in l), None)
    tests = []
    if didx is not None:
        o = json.loads(lines[didx])
        o["d"] += 1
        tests.append(("containers_corrupted_depth_rejected", lines[:didx] + [json.dumps(o, separators=(",", ":"))] + lines[didx + 1:]))
    oidx = next((i for i, l in enumerate(lines) if '"ev":"outcome"' in l), None)
    if oidx is not None:
        o = json.loads(lines[oidx])
        o["ok"] = not o["ok"]
        tests.append(("containers_flipped_outcome_reported", lines[:oidx] + [json.dumps(o, separators=(",", ":"))] + lines[oidx + 1:]))
    files = []
    for name, ls in tests:
        p = os.path.join(common.WORK, "selftest-C11-%s.ndjson" % name)
        open(p, "w").write("\n".join(ls) + "\n")
        files.append((name, p))
    res = common.tlc_traces("Trace_Containers", "Trace_Containers_rule.cfg", [p for _, p in files], extra_env=mu.probe_fixes())
    by = {r["file"]: r for r in res}
    for name, p in files:
        if "rejected" in name:
            out[name] = not by[p]["accepted"]
        else:
            out[name] = any(b["run"] == 1 for b in mu.printed(by[p]["output"], "BAD"))
    return out


def replay(detail):
    case = detail.get("case") or detail.get("input")
    print("case:", json.dumps(case))
    p = mu.pvh(["show-graph", json.dumps(case)])
    print(p.stdout)
    if "case" in detail:
        print("rule (TLC):", json.dumps({k: case.get(k) for k in ("acc", "ok413", "ok415", "ok416", "minimal", "tags")}))
        print("model (TLC):", json.dumps({k: case.get(k) for k in ("merrs", "m433", "mdepth")}))
    print("problem:", detail.get("problem"), "-", detail.get("message"))
    return 0

"""C08 -- Only vars and explicitly passed pointers can be mutated (spec/Mutability.tla, Autoderef.tla,
CallEffects.tla).

 1. TLC enumerates every (base kind x declared shape x path x address depth x context) cell
    (spec/MC_Mutability.tla), checks the model of the typer's step insertion + the mutability scan
    against the declarative rule (invariant Agree: A = R) and emits one CASE per cell;
 2. every cell is rendered as a minimal program and compiled by the real front end; accept / reject
    and the code on the line of the construct are compared with R (VIOLATION) and with A (MODEL-DRIFT);
 3. non-interference: TLC enumerates the caller/callee family of spec/CallEffects.tla and computes, per
    program, the verdict and the lines the caller must print before and after the call; accepted
    programs are compiled, executed with lli and their output is validated by TLC
    (spec/Trace_CallEffects.tla): a caller variable that changes without `&` on the argument is rejected.
"""
import collections
import json
import os
import random

from . import common
from .common import log

PROP = "C08"
FAMILY = {500, 504, 506, 507, 512, 513, 530, 531, 532, 533, 538}


def tag(name):
    return "%s-%s-%d" % (PROP, name, os.getpid())


def compare_cell(case, obs):
    """A cell may stand next to a SECOND unit (field `pre`: an illegal statement / function before or after it).  TLC
    judges that neighbour on its own (`pok`, `pcodes`); the construct keeps its own verdict (independent constructs
    are diagnosed independently; a legal construct gets no diagnostic on its line whatever stands next to it)."""
    if obs.get("panic"):
        return ("panic", "the compiler panicked (%s): the verdict of the rule (%s) cannot be observed" %
                (obs["panic"], "accept" if case["ok"] else "reject with %s" % case["codes"]))
    if obs.get("silent"):
        return ("silent", "compilation failed without any diagnostic")
    at_line = sorted(set(c for c, l in obs["diags"] if l == obs["line"]))
    bad_neighbour = not case.get("pok", True)
    if bad_neighbour:
        at_pre = sorted(set(c for c, l in obs["diags"] if l == obs.get("pre_line")))
        if not set(at_pre) & set(case["pcodes"]):
            return ("neighbour-not-diagnosed", "the illegal unit next to the construct (line %s) must be rejected with one of %s; "
                    "diagnostics: %s" % (obs.get("pre_line"), case["pcodes"], obs["diags"]))
    if case["unc"]:
        return None
    if case["ok"]:
        if bad_neighbour:
            if at_line:
                return ("rejected-legal", "a legal reference next to an illegal unit is reported: %s" % obs["diags"])
            return None
        if not obs["ok"]:
            return ("rejected-legal", "a legal reference is rejected: %s" % obs["diags"])
        return None
    if obs["ok"] or (bad_neighbour and not at_line):
        return ("accepted-illegal", "an illegal reference is accepted%s; the rule demands one of %s" %
                (" (no diagnostic on its line; only its illegal neighbour is reported: %s)" % obs["diags"] if bad_neighbour else "",
                 case["codes"]))
    if not set(at_line) & set(case["codes"]):
        return ("wrong-code", "rejected, but with %s on the line of the construct (all: %s); the rule names %s" %
                (at_line, obs["diags"], case["codes"]))
    return None


def drift_against(case, obs, out_key, codes_key):
    if obs.get("panic"):
        return None if case[out_key].startswith("panic") else "the compiler panics (%s), the model says %s" % (obs["panic"], case[out_key])
    if case[out_key].startswith("panic"):
        return "the model panics (%s), the compiler does not" % case[out_key]
    at_line = sorted(set(c for c, l in obs["diags"] if l == obs["line"] and c in FAMILY))
    if at_line != sorted(case[codes_key]):
        return "codes on the construct %s, model %s (steps %s)" % (at_line, case[codes_key], case["taken"])
    return None


def drift_cell(case, obs):
    """Two models of the algorithm are emitted: the typer as it is meant (iout/icodes) and the typer with
    the three unification quirks of the pinned tree (mout/mcodes, findings F5-F7).  A cell agrees with the
    model if it agrees with either; which one the code follows is reported in the evidence."""
    ideal = drift_against(case, obs, "iout", "icodes")
    if ideal is None:
        return None
    pinned = drift_against(case, obs, "mout", "mcodes")
    if pinned is None:
        return None
    return ideal


def follows(case, obs):
    i = drift_against(case, obs, "iout", "icodes") is None
    p = drift_against(case, obs, "mout", "mcodes") is None
    return "both" if i and p else ("ideal" if i else ("pinned-quirks" if p else "neither"))


def shape_tag(case):
    """Structural tags of a cell, part of its key (so that a finding can be registered by input shape)."""
    c = case["c"]
    path = c["path"]
    has_i = "i" in path
    has_m = any(s != "i" for s in path)
    if has_i and has_m:
        return " [index+member]"
    n = 0
    f = case["f"]
    while n < len(f) and f[n] == "ptr":
        n += 1
    takes = c["k"] + (1 if c["ctx"] == "argmiss" else 0) == n + 1
    if c["ctx"] != "assign" and takes and path and path[-1] == "i":
        return " [addr-of-element]"
    return ""


def nontrivial(case):
    c = case["c"]
    return bool(c["path"]) or c["k"] > 0 or not case["ok"] or c["d"][0] in ("ptr", "sptr", "slice", "view")


def replay_cells(rep, tier, selftest):
    cfg = "MC_Mutability_%s.cfg" % tier
    r = common.tlc("MC_Mutability", cfg, workers=4, timeout={"quick": 600, "thorough": 1700}[tier], heap="4g",
                   tag=tag("mc"), keep_output=False)
    log("[tlc] MC_Mutability/%s: %d states generated, %d distinct, %d cells, %.1fs, %s" %
        (cfg, r.generated, r.distinct, len(r.cases), r.wall,
         "A = R on every cell" if r.ok else "INVARIANT %s VIOLATED" % r.violated))
    if not r.ok:
        log("[tlc] counterexample tail:\n" + r.tail[-2500:])
    cases = r.cases
    if not cases:
        raise common.ToolError("TLC emitted no cells")
    cases_path = os.path.join(common.WORK, tag("cases") + ".ndjson")
    obs_path = os.path.join(common.WORK, tag("obs") + ".ndjson")
    common.write_ndjson(cases_path, cases)
    common.pvh(["replay-c08", cases_path, obs_path], exe_name="pvh_types", env={"PVH_THREADS": os.environ.get("PVH_THREADS", "8")})
    observations = common.read_ndjson(obs_path)
    if len(observations) != len(cases):
        raise common.ToolError("replay returned %d observations for %d cells" % (len(observations), len(cases)))
    agree = 0
    which_model = collections.Counter()
    nontriv = set()
    per_ctx = collections.Counter()
    verdicts = collections.Counter()
    for case, obs in zip(cases, observations):
        per_ctx[case["c"]["ctx"]] += 1
        verdicts["unconstrained" if case["unc"] else ("accept" if case["ok"] else "reject")] += 1
        if nontrivial(case):
            nontriv.add(obs["key"])
        problem = compare_cell(case, obs)
        if problem:
            kind, msg = problem
            key = obs["key"] + shape_tag(case) + " :: " + (("panic=" + obs["panic"]) if kind == "panic" else kind)
            rep.violation("cell", key, {"case": case, "observed": obs, "problem": kind, "message": msg,
                                        "how": "bin/check C08 --replay <this file>"})
        which_model[follows(case, obs)] += 1
        d = drift_cell(case, obs)
        if d:
            rep.note_drift("%s: %s" % (obs["key"], d))
        else:
            agree += 1
    log("[replay] %d cells replayed on the real compiler (%s), %d violations so far, model agreement %d/%d %s" %
        (len(cases), dict(verdicts), len(rep.violations), agree, len(cases), dict(which_model)))
    # The same cells as the SECOND module of a compilation (`penne pre.pn case.pn`): the first module leaves behind whatever
    # the analyzers keep per module (resolution ids 1..40 of MUTABLE variables, pointer parameters, members).  The rule knows
    # nothing of other modules: the verdict on the cell is the same.
    obs2_path = os.path.join(common.WORK, tag("obs2") + ".ndjson")
    common.pvh(["replay-c08", cases_path, obs2_path], exe_name="pvh_types",
               env={"PVH_THREADS": os.environ.get("PVH_THREADS", "8"), "PVH_PREMODULE": "1"})
    second = common.read_ndjson(obs2_path)
    if len(second) != len(cases):
        raise common.ToolError("replay (second module) returned %d observations for %d cells" % (len(second), len(cases)))
    n2 = 0
    for case, obs, obs2 in zip(cases, observations, second):
        problem = compare_cell(case, obs2)
        if problem and not compare_cell(case, obs):
            kind, msg = problem
            n2 += 1
            key = obs2["key"] + shape_tag(case) + " :: " + (("panic=" + obs2["panic"]) if kind == "panic" else kind) + " ^second-module"
            rep.violation("cell", key, {"case": case, "observed": obs2, "observed_alone": obs, "problem": kind,
                                        "message": msg + " (as the second module of a compilation; alone the cell behaves as the rule says)",
                                        "how": "bin/check C08 --replay <this file>"})
    log("[replay] the same %d cells as the second module of a compilation: %d differ from the rule only there" % (len(cases), n2))
    os.remove(obs2_path)
    if not r.ok and not rep.violations and not rep.known_hits:
        rep.note_drift("TLC reports %s violated but no replayed cell shows it on the real code" % r.violated)
    selftests = {}
    if selftest:
        ia = next(i for i, c in enumerate(cases) if c["ok"] and not c["unc"])
        ir = next(i for i, c in enumerate(cases) if not c["ok"])
        selftests["flipped_accept_detected"] = compare_cell(dict(cases[ia], ok=False, codes=[530]), observations[ia]) is not None
        selftests["flipped_reject_detected"] = compare_cell(dict(cases[ir], ok=True, codes=[]), observations[ir]) is not None
        selftests["wrong_code_detected"] = compare_cell(dict(cases[ir], codes=[599]), observations[ir]) is not None
        # vacuity guard: with the typer's unification quirks modelled (faithful = TRUE) TLC must find A # R
        rv = common.tlc("MC_Mutability", "MC_Mutability_defect.cfg", workers=2, timeout=300, heap="2g", tag=tag("defect"))
        selftests["faithful_model_violates_AgreeFaithful"] = (rv.violated == "AgreeFaithful")
    if not rep.violations:
        for f in (cases_path, obs_path):
            if os.path.exists(f):
                os.remove(f)
    return {"tlc": r, "cases": cases, "observations": observations, "agree": agree, "nontrivial": nontriv,
            "per_ctx": dict(per_ctx), "verdicts": dict(verdicts), "selftests": selftests, "cfg": cfg,
            "which_model": dict(which_model)}


def bad_lines(result):
    """[(line, why)] from the <<"BAD", line, why>> tuples TLC printed."""
    import re
    out = []
    for line in open(result["output"], errors="replace"):
        m = re.match(r'^<<"BAD", (\d+)(?:, "([^"]*)")?>>', line)
        if m:
            out.append((int(m.group(1)), m.group(2) or ""))
    return out


RANDOM_CE = {"quick": 150, "thorough": 1500}


def call_effects(rep, tier, seed, selftest):
    """Non-interference: the family of spec/CallEffects.tla, executed and validated by TLC."""
    r = common.tlc("MC_CallEffects", "MC_CallEffects.cfg", workers=2, timeout=600, heap="2g", tag=tag("ce-mc"), keep_output=False)
    log("[tlc] MC_CallEffects: %d programs, %d distinct states, invariant Safe (no change without `&`) %s, %.1fs" %
        (len(r.cases), r.distinct, "holds" if r.ok else "VIOLATED (%s)" % r.violated, r.wall))
    if not r.ok:
        raise common.ToolError("the machine of CallEffects.tla violates its own invariant %s" % r.violated)
    cases = r.cases
    cases_path = os.path.join(common.WORK, tag("ce-cases") + ".ndjson")
    obs_path = os.path.join(common.WORK, tag("ce-obs") + ".ndjson")
    rand_path = os.path.join(common.WORK, tag("ce-rand") + ".ndjson")
    # beyond the exhaustive bound: seeded random programs with 3..4 parameters; their expected behaviour is
    # computed by TLC during trace validation only (the spec machine runs on the recorded program)
    common.pvh(["gen-ce", RANDOM_CE[tier], seed, rand_path], exe_name="pvh_types")
    random_cases = common.read_ndjson(rand_path)
    os.remove(rand_path)
    exhaustive = len(cases)
    cases = cases + random_cases
    common.write_ndjson(cases_path, cases)
    common.pvh(["run-ce", cases_path, obs_path], exe_name="pvh_types", env={"PVH_THREADS": os.environ.get("PVH_THREADS", "8")})
    recs = common.read_ndjson(obs_path)
    if len(recs) != len(cases):
        raise common.ToolError("run-ce returned %d records for %d programs" % (len(recs), len(cases)))
    res = common.tlc_traces("Trace_CallEffects", "Trace_CallEffects.cfg", [obs_path], timeout=600, parallel=1)[0]
    if res["matched"] != res["total"]:
        raise common.ToolError("trace validation stopped at line %d of %s" % (res["matched"] + 1, obs_path))
    bad = bad_lines(res)
    for b, why in bad:
        case, rec = cases[b - 1], recs[b - 1]
        # TLC says why the record is not a behaviour of the specification
        what = ("panic=" + rec["panic"]) if rec.get("panic") else why
        rep.violation("calleffects", "%s :: %s" % (rec["key"], what),
                      {"case": case, "observed": rec, "expected": {"ok": case.get("ok"), "codes": case.get("codes"),
                                                                  "lines": [case.get("before"), case.get("after")]},
                       "message": "the recorded compilation / execution is not a behaviour of CallEffects.tla: %s" % what,
                       "how": "bin/check C08 --replay <this file>"})
    executed = sum(1 for x in recs if x["ok"])
    changed = sum(1 for x in recs if x["ok"] and len(x["lines"]) == 2 and x["lines"][0] != x["lines"][1])
    bad_set = set(b for b, _ in bad)
    log("[calleffects] %d programs (%d exhaustive + %d random with 3-4 parameters) compiled, %d accepted and executed with lli (%d change a caller cell), "
        "%d records accepted by TLC, %d rejected" % (len(recs), exhaustive, len(recs) - exhaustive, executed, changed,
                                                       len(recs) - len(bad), len(bad)))
    selftests = {}
    if selftest:
        lines = open(obs_path).read().splitlines()
        tests = []
        # (a) a caller cell changes although no argument carries `&`
        ia = next((i for i, x in enumerate(recs) if x["ok"] and len(x["lines"]) == 2 and all(p["amp"] == 0 for p in x["prog"])
                   and (i + 1) not in bad_set), None)
        if ia is not None:
            o = json.loads(lines[ia])
            o["lines"][1][0] = 99
            tests.append(("change_without_address_rejected", json.dumps(o, separators=(",", ":"))))
        # (b) a write through a pointer that does not arrive
        ib = next((i for i, x in enumerate(recs) if x["ok"] and len(x["lines"]) == 2 and x["lines"][0] != x["lines"][1]
                   and (i + 1) not in bad_set), None)
        if ib is not None:
            o = json.loads(lines[ib])
            o["lines"][1] = o["lines"][0]
            tests.append(("lost_write_rejected", json.dumps(o, separators=(",", ":"))))
        # (c) an illegal program that is accepted
        ic = next((i for i, x in enumerate(recs) if not x["ok"] and (i + 1) not in bad_set and i < exhaustive), None)
        if ic is not None:
            o = json.loads(lines[ic])
            o["ok"] = True
            o["codes"] = []
            o["lines"] = [cases[ic]["before"], cases[ic]["before"]]
            tests.append(("accepted_illegal_rejected", json.dumps(o, separators=(",", ":"))))
        for name, text in tests:
            p = os.path.join(common.WORK, tag("ce-selftest-" + name) + ".ndjson")
            open(p, "w").write(text + "\n")
            rr = common.tlc_traces("Trace_CallEffects", "Trace_CallEffects.cfg", [p], timeout=300, parallel=1)[0]
            selftests[name] = [b for b, _ in bad_lines(rr)] == [1]
            os.remove(p)
    sample = [{"program": recs[i]["key"], "observed": recs[i], "expected_after": cases[i].get("after")}
              for i in range(len(recs)) if recs[i]["ok"] and recs[i]["lines"] and recs[i]["lines"][0] != recs[i]["lines"][1]][:2]
    if not rep.violations:
        for f in (cases_path, obs_path):
            if os.path.exists(f):
                os.remove(f)
    return {"tlc": r, "programs": len(recs), "executed": executed, "changed": changed, "accepted_records": len(recs) - len(bad),
            "selftests": selftests, "samples": sample,
            "distinct": set(x["key"] for x in recs)}


def run(rep, tier, seed, selftest):
    common.build_harness("pvh_types")
    os.makedirs(common.WORK, exist_ok=True)
    selftest = selftest or tier == "thorough"
    cells = replay_cells(rep, tier, selftest)
    r = cells["tlc"]
    cases, observations = cells["cases"], cells["observations"]
    selftests = dict(cells["selftests"])
    ce = call_effects(rep, tier, seed, selftest)
    selftests.update(ce["selftests"])
    for name, ok in selftests.items():
        if not ok:
            raise common.ToolError("self-test %s failed: the binding does not detect a corrupted verdict / recording" % name)
    if selftests:
        log("[selftest] %s" % json.dumps(selftests))
    rnd = random.Random(seed)
    idx = sorted(rnd.sample(range(len(cases)), min(5, len(cases))))
    coverage = {
        "states": r.distinct + ce["tlc"].distinct,
        "transitions": r.generated + ce["tlc"].generated,
        "traces_validated_against_impl": len(cases) + ce["accepted_records"],
        "samples": [{"case": cases[i], "observed": observations[i]} for i in idx] + ce["samples"],
        "evaluations": len(cases) + ce["programs"],
        "distinct_nontrivial": len(cells["nontrivial"]) + len(ce["distinct"]),
        "rule": "TLC enumerates every reference cell (base kind x declared shape x well-typed path of <= 3 steps x address "
                "depth x context assign/read/arg/argmiss; MC_Mutability.tla), checks the model of the typer's step insertion "
                "and the mutability scan against the declarative rule (A = R) and emits each cell; every cell is rendered "
                "as a minimal program and compiled by the real front end; accept/reject and the code on the construct are "
                "compared with R. Second dimension: cells with paths of <= 2 steps are crossed with every statement context "
                "(block, loop block, then, else, else-if arm, final else after else-if, second else-if arm, after a label) and "
                "address-of arguments of pointer type with every expression context (parenthesised, element of an array literal "
                "argument, member of a struct literal argument, argument of a nested call, return value, condition); the callees "
                "of the CallEffects family place their statement in every statement context; rule and machine ignore the context. "
                "Dimension audit: further expression contexts (element / member of a literal in an initialiser, the value re-seating "
                "a pointer, operand of a bit cast, the call as operand of a unary operator / as assigned value, second of two and "
                "middle of three arguments, the callee called twice in one statement), a second unit next to the construct (legal "
                "call statement, illegal statement before / after, function with an illegal statement before / after, function that "
                "mutates a var of the same name; TLC judges the neighbour too), `pub` / `extern` on the enclosing function; "
                "CallEffects: three parameters with only the middle argument wrong, the address of an element / a member as argument, "
                "the caller before the callee, the call made twice. "
                "Non-trivial = distinct cells with a path, an address marker, a pointer/view shape or a rejection. "
                "Non-interference: TLC enumerates the caller/callee family of CallEffects.tla (7 parameter kinds x 5 ways the "
                "callee treats the parameter x 0..2 address markers, plus all pairs of parameters), computes verdict and the "
                "caller's cells before/after the call; every program is compiled, the accepted ones executed with lli, and the "
                "printed cells are validated by TLC (Trace_CallEffects.tla); every program of the family counts as distinct.",
        "exhaustive": True,
        "model_invariants_hold": r.ok,
        "violated_invariant": r.violated,
        "cells_replayed": len(cases),
        "cells_per_context": cells["per_ctx"],
        "verdicts": cells["verdicts"],
        "model_agreement": "%d/%d" % (cells["agree"], len(cases)),
        "cells_following_model": cells["which_model"],
        "tlc_config": cells["cfg"],
        "calleffects_programs": ce["programs"],
        "calleffects_executed": ce["executed"],
        "calleffects_programs_changing_a_caller_cell": ce["changed"],
        "calleffects_records_accepted_by_tlc": ce["accepted_records"],
        "selftests": selftests,
    }
    assumptions = [
        "TLC's evaluation of the rule R (spec/Mutability.tla) is the oracle; Autoderef.tla / the mutability scan only yield MODEL-DRIFT notes",
        "declared shapes are representatives over i32 (value, array, struct, word, array view, view of struct, slice pointer, pointer, pointer to pointer, array of pointers, struct with pointer member, pointer to struct / array)",
        "paths are well typed (ill-typed paths are E501/E505 matters), at most three steps",
        "cells the documentation leaves open are unconstrained (spec/UNCONSTRAINED-types.md)",
    ]
    return rep.finish("model_checking", coverage, assumptions)


def replay(path):
    d = json.load(open(path))
    detail = d.get("detail", {})
    print("kind=%s key=%s" % (d.get("kind"), d.get("key")))
    print(detail.get("message", ""))
    case = detail.get("case")
    if case is not None and "c" in case and "path" in case["c"]:
        p = common.pvh(["show-c08", json.dumps(case)], exe_name="pvh_types")
        print(p.stdout)
        print("rule:", json.dumps({k: case[k] for k in case if k != "c"}))
    elif d.get("kind") == "calleffects" and case is not None:
        p = common.pvh(["show-ce", json.dumps(case)], exe_name="pvh_types")
        print(p.stdout)
        print("expected (CallEffects.tla):", json.dumps(detail.get("expected")))
        print("recorded:", json.dumps(detail.get("observed")))
    else:
        print(json.dumps(detail, indent=1))
    return 0

"""C13 -- diagnostics are well-located, documented and deterministic
(spec/Diagnostics.tla, Trace_Diagnostics.tla, Trace_Determinism.tla).

Three parts, all decided by TLC:
  1. catalogue: the codes `Error::code` can return (read off src/alpha/error.rs and cross-checked with
     every code observed in the worker run) against the `## Error code` headings of docs/errors.md;
  2. locations and rendering: every diagnostic of every failing or linted run of the shared worker run
     (TLC token sequences, mutated corpus, faulted programs, soup, CRLF, multi-byte, end of file,
     errors in imported modules) with all Location fields and the result of build_report + write in
     the four colour/charset configurations;
  3. determinism: the same input compiled k times in fresh processes must give the same verdict, the
     same diagnostics and the same IR text."""
import json
import os
import random
import re

from . import common
from . import pipeline_common as pc
from .common import log


def documented_codes():
    path = os.path.join(common.REPO, "docs", "errors.md")
    out = set()
    for line in open(path, encoding="utf-8"):
        m = re.match(r"^##\s+(?:Error|Lint|Warning)\s+code\s+([EL])(\d+)\s*$", line)
        if m:
            out.add(int(m.group(2)))
    if len(out) < 20:
        raise common.ToolError("could not read the catalogue headings of %s" % path)
    return out


def producible_codes():
    """(codes some stage can put on a diagnostic, codes of variants nothing constructs).
    The table is the match in Error::code; a variant counts as producible when it is constructed
    somewhere outside error.rs (Error::X / Lint::X; lexical errors: Error::X in lexer.rs)."""
    base = os.path.join(common.REPO, "src", "alpha")
    text = open(os.path.join(base, "error.rs"), encoding="utf-8").read()
    m = re.search(r"pub fn code\(&self\) -> u16\s*\{(.*?)\n\t\}\n", text, re.S)
    if not m:
        raise common.ToolError("cannot find Error::code in src/alpha/error.rs")
    body = m.group(1)
    table = {}
    for name, code in re.findall(r"lexer::Error::(\w+)\s*=>\s*(\d+),", body):
        table[("lexer", name)] = int(code)
    for name, code in re.findall(r"(?<!lexer::)Error::(\w+)\s*\{[^}]*\}\s*=>\s*(\d+),", body):
        if name != "Lexical":
            table[("error", name)] = int(code)
    if len(table) < 50 or len(set(table.values())) != len(re.findall(r"=>\s*(\d+),", body)):
        raise common.ToolError("Error::code: %d variants for %d codes, the scan is stale" %
                               (len(table), len(re.findall(r"=>\s*(\d+),", body))))
    others = ""
    lexer_text = ""
    for dp, dn, fn in os.walk(base):
        for f in fn:
            if f.endswith(".rs") and f != "error.rs":
                t = open(os.path.join(dp, f), encoding="utf-8").read()
                others += t
                if f == "lexer.rs":
                    lexer_text = t
    live, dead = set(), set()
    for (kind, name), code in table.items():
        if kind == "lexer":
            used = re.search(r"\bError::%s\b" % name, lexer_text)
        else:
            used = re.search(r"\b(?:Error|Lint)::%s\b" % name, others)
        (live if used else dead).add(code)
    return live, dead


def letter(code):
    return ("L" if code >= 1000 else "E") + str(code)


def write_cfg(path, documented, producible, invariants=None):
    with open(path, "w") as f:
        f.write("SPECIFICATION TSpec\nCONSTANTS\n")
        f.write("  Documented = {%s}\n" % ", ".join(str(c) for c in sorted(documented)))
        f.write("  Producible = {%s}\n" % ", ".join(str(c) for c in sorted(producible)))
        if invariants:
            f.write("INVARIANTS %s\n" % " ".join(invariants))
        f.write("CHECK_DEADLOCK FALSE\n")


def variant_faults(inp, base):
    """Where the diagnostics of the base input are expected in a layout variant of it (harness: location_variants).
    base = (end, diagnostics, number of characters of the base text without its trailing blanks)"""
    v = inp.get("variant")
    if not v or base is None:
        return None
    end, diags, trimmed = base
    if end != "failure" or not diags or trimmed == 0:      # (an empty file: the offending "text" is the emptiness itself)
        return None
    t = v["t"]
    name = inp["mods"][v["mod"] - 1]["name"]
    codes = [d["code"] for d in diags]
    out = []
    if t == "oneline":
        # an unterminated literal swallows the rest of its line: lexical faults do not survive the joining of lines
        if any(100 <= c < 200 for c in codes):
            return None
        for d in diags:
            out.append({"code": d["code"], "file": name, "line": 1})
    elif t == "toklines":
        # every token on its own line: the same diagnostics, wherever they land (Diagnostics.tla decides whether each starts on
        # the line of the first character it covers); unterminated literals are ended by the line break in both layouts
        if any(100 <= c < 200 for c in codes):
            return None
        for d in diags:
            out.append({"code": d["code"], "file": name})
    elif t == "nonl":
        for d in diags:
            if d["end"] >= trimmed:       # located in (or behind) the removed tail: only the code is expected
                out.append({"code": d["code"], "file": name})
            else:
                out.append({"code": d["code"], "file": name, "line": d["line"], "start": d["start"], "end": d["end"]})
    elif t in ("pad", "mod2", "mod3"):
        for d in diags:
            out.append({"code": d["code"], "file": name, "line": d["line"] + v["dline"], "start": d["start"] + v["dchar"], "end": d["end"] + v["dchar"]})
    elif t == "twice":
        # after a lexical / syntax error at top level the parser does not find the next declaration again, and "unexpected end of
        # file" is no longer one when more text follows: two instances are expected of what is found AFTER parsing
        if any(c < 400 for c in codes):
            return None
        for d in diags:
            out.append({"code": d["code"], "file": name, "line": d["line"], "start": d["start"], "end": d["end"]})
            out.append({"code": d["code"], "file": name, "line": d["line"] + v["dline"]})
    return out or None


def diag_trace(inp, evs, bases=None):
    """diags-input / diag* / diags-end for a run with diagnostics or lints (or a layout variant that should have some)"""
    end, last = pc.end_of(evs)
    if end not in ("success", "failure"):
        return None
    ds = list(last.get("diags", [])) + list(last.get("lints", []))
    faults = variant_faults(inp, bases.get(inp["variant"]["of"])) if (bases is not None and "variant" in inp) else None
    if not ds and not faults:
        return None
    head = {"ev": "diags-input", "id": inp["id"], "kind": inp["kind"],
            "mods": [{"name": m["name"], "nchars": m["nchars"], "lines": m["lines"]} for m in inp["mods"]]}
    if "fault" in inp:
        head["fault"] = inp["fault"]
    if faults:
        head["faults"] = faults
    out = []
    for d in ds:
        e = dict(d)
        e["ev"] = "diag"
        out.append(e)
    out.append({"ev": "diags-end"})
    return head, out


def run(rep, tier, seed, selftest):
    selftest = selftest or tier == "thorough"
    state0 = pc.repo_state()
    common.build_harness(pc.EXE)
    meta = pc.ensure_run(tier, seed)
    p = pc.paths(meta)
    cases = pc.load_cases(p["cases"])
    pid = os.getpid()
    # ---------------------------------------------------------------- 1. catalogue
    documented = documented_codes()
    producible, dead = producible_codes()
    observed = set()
    bases = {}          # corpus case -> (end, diagnostics, characters without the trailing blanks): the references of the layout variants
    for inp, evs, _ in pc.grouped_events(p["events"]):
        end, last = pc.end_of(evs)
        if end in ("success", "failure"):
            for d in last.get("diags", []) + last.get("lints", []):
                observed.add(d["code"])
            if inp["kind"] == "corpus" and end == "failure" and inp["n"] == 1:
                bases[inp["id"]] = (end, last.get("diags", []), len(cases[inp["id"]]["mods"][0]["src"].rstrip()))
    if not observed <= producible:
        raise common.ToolError("codes %s were observed but are not in the table scanned from Error::code (stale scan)" %
                               sorted(observed - producible))
    cfg_cat = os.path.join(common.WORK, "pipeline-c13-catalogue-%d.cfg" % pid)
    cfg_tr = os.path.join(common.WORK, "pipeline-c13-trace-%d.cfg" % pid)
    write_cfg(cfg_cat, documented, producible, ["CatalogueReport", "CatalogueHolds"])
    write_cfg(cfg_tr, documented, producible)
    empty = os.path.join(common.WORK, "pipeline-c13-empty-%d.ndjson" % pid)
    open(empty, "w").close()
    r = common.tlc("Trace_Diagnostics", cfg_cat, workers=1, timeout=300, heap="2g", env={"TRACE": empty},
                   tag="pipeline-c13-cat-%d" % pid, keep_output=False)
    if not r.cases:
        raise common.ToolError("the catalogue check printed nothing")
    undocumented = sorted(r.cases[0]["undocumented"])
    if (r.violated == "CatalogueHolds") != bool(undocumented):
        raise common.ToolError("catalogue check inconsistent: %s / %s" % (r.violated, undocumented))
    findings = pc.Findings()
    for code in undocumented:
        findings.add(("catalogue", letter(code)), "catalogue", "undocumented code %s" % letter(code),
                      {"message": "Error::code can return %d but docs/errors.md has no section '## Error code %s'%s" %
                       (code, letter(code), " (observed in this run)" if code in observed else ""),
                       "observed_in_this_run": code in observed})
    log("[catalogue] %d codes producible (src/alpha/error.rs), %d documented (docs/errors.md), %d observed in the run; TLC: undocumented = %s" %
        (len(producible), len(documented), len(observed), [letter(c) for c in undocumented]))
    stale = sorted(documented - producible - dead)
    if stale:
        rep.note_drift("codes documented but not in Error::code: %s" % [letter(c) for c in stale])
    if dead:
        rep.note_drift("codes of variants no stage constructs (not required in the catalogue): %s%s" %
                       ([letter(c) for c in sorted(dead)],
                        "; undocumented among them: %s" % [letter(c) for c in sorted(dead - documented)] if dead - documented else ""))
    # ---------------------------------------------------------------- 2. locations and rendering
    prefix = os.path.join(common.WORK, "pipeline-c13-%d" % pid)
    files, nruns = pc.split_events(p["events"], prefix + "-loc", parts=max(12, meta["events"] // 80000),
                                   transform=lambda i_, e_: diag_trace(i_, e_, bases))
    results = pc.validate_traces("Trace_Diagnostics", cfg_tr, files, parallel=6)
    rejected = {}
    notes = {"col": 0, "render-not-clean": 0}
    ndiags = 0
    for res in results:
        for rej in res["rejects"]:
            rejected.setdefault(rej["id"], rej)
        for n in res["notes"]:
            notes[n["what"]] = notes.get(n["what"], 0) + 1
    sigs = {}
    nontrivial = set()
    samples = []
    nvariants = {}
    span_shapes = {"empty": 0, "multi-line": 0, "at-end-of-file": 0, "line-1": 0, "column>=300": 0}
    for inp, evs, _ in pc.grouped_events(p["events"]):
        t = diag_trace(inp, evs, bases)
        if t is None:
            continue
        cid = inp["id"]
        ndiags += len(t[1]) - 1
        if "faults" in t[0]:
            nvariants[inp["kind"]] = nvariants.get(inp["kind"], 0) + 1
        for d in t[1][:-1]:
            f = next((m for m in inp["mods"] if m["name"] == d["file"]), None)
            if f is None:
                continue
            span_shapes["empty"] += d["start"] == d["end"]
            span_shapes["at-end-of-file"] += d["end"] >= f["nchars"]
            span_shapes["line-1"] += d["line"] == 1
            span_shapes["column>=300"] += d.get("col", 0) >= 300
            nxt = [x for x in f["lines"] if x > d["start"]]
            span_shapes["multi-line"] += bool(nxt) and d["end"] > nxt[0]
        for d in t[1][:-1]:
            nontrivial.add((d["code"], d["line"], d["col"], inp["kind"].split(":")[0]))
        if len(samples) < 3 and inp["kind"].split(":")[0] in ("mut", "fault", "multi") and not any(s["kind"] == inp["kind"] for s in samples):
            samples.append({"id": cid, "kind": inp["kind"], "diagnostics": [{k: v for k, v in d.items() if k != "render"} for d in t[1][:2]]})
        if cid not in rejected:
            continue
        rej = rejected[cid]
        case = cases[cid]
        crlf = any("\r\n" in m["src"] for m in case["mods"])
        nonascii = any(any(ord(c) > 127 for c in m["src"]) for m in case["mods"])
        d = t[1][rej["after"][1]] if rej["after"][1] < len(t[1]) else {}
        why = rej.get("why", "?")
        if why == "variant-not-covered":
            want = t[0]["faults"]
            got = [(x["code"], x["line"], x["start"], x["end"], x["file"]) for x in t[1][:-1]]
            missing = [f_ for f_ in want if not any(x["code"] == f_["code"] and x["file"] == f_["file"] and ("line" not in f_ or x["line"] == f_["line"])
                                                    and ("start" not in f_ or (x["start"], x["end"]) == (f_["start"], f_["end"])) for x in t[1][:-1])]
            d = {"code": missing[0]["code"] if missing else 0}
            msg = "layout variant %s of %s: expected %s, diagnostics of the variant: %s" % (inp["variant"]["t"], inp["variant"]["of"], missing[:3], got[:6])
            key = "variant-not-covered %s %s | %s" % (inp["variant"]["t"], letter(d["code"]), pc.ident(case))
        elif why == "fault-not-covered":
            f = inp["fault"]
            got = [(x["code"], x["start"], x["end"]) for x in t[1][:-1] if x.get("code") == f["code"]]
            msg = "no E%d diagnostic intersects the faulty text at characters %d..%d (line %d); E%d spans: %s" % (
                f["code"], f["start"], f["end"], f["line"], f["code"], got[:4])
            key = "fault-not-covered E%d crlf=%s nonascii=%s | %s" % (f["code"], crlf, nonascii, pc.ident(case))
        else:
            msg = "%s: %s at line %s col %s span %s..%s of %s" % (why, letter(d.get("code", 0)), d.get("line"), d.get("col"),
                                                                d.get("start"), d.get("end"), d.get("file"))
            key = "%s %s crlf=%s nonascii=%s | %s" % (why, letter(d.get("code", 0)), crlf, nonascii, pc.ident(case))
        sig = (why, "crlf=%s" % crlf)
        sigs[sig] = sigs.get(sig, 0) + 1
        findings.add(("location",) + sig, "location", key, {"case": case, "diagnostic": {k: v for k, v in d.items() if k != "render"},
                                        "render": d.get("render"), "rejected_at": rej, "message": msg,
                                        "how": "bin/check C13 --replay <this file>"})
    log("[trace] %d diagnostics of %d runs validated by TLC against Diagnostics.tla: %d runs rejected %s; notes: %s" %
        (ndiags, nruns, len(rejected), {"%s %s" % k: v for k, v in sigs.items()}, notes))
    if sum(nvariants.values()) < 500 or len(nvariants) < 6:
        raise common.ToolError("only %s layout variants of invalid samples got expected places: the variant family is stale" % nvariants)
    if notes.get("col"):
        rep.note_drift("%d diagnostics whose line_offset is not the offset of the span start in its line (string/char literal errors)" % notes["col"])
    if notes.get("render-not-clean"):
        rep.note_drift("%d diagnostics rendered with ESC bytes without colour or non-ASCII frames with charset ascii" % notes["render-not-clean"])
    # ---------------------------------------------------------------- 3. determinism
    rnd = random.Random(seed)
    k = 3 if tier == "quick" else 8
    budget = 6000 if tier == "quick" else 20000
    first, multi, single = [], [], []
    for inp, evs, _ in pc.grouped_events(p["events"]):
        end, _last = pc.end_of(evs)
        if end not in ("success", "failure"):
            continue
        kind = inp["kind"].split(":")[0]
        if kind in ("corpus", "corpus-set", "corpus-wasm", "loc", "amb", "dup") or (kind == "wset" and re.search(r"max-imports=([3-9]|\d\d)", inp.get("origin", ""))) \
                or (kind == "shape" and inp["n"] >= 3):
            first.append(inp["id"])
        elif inp["n"] > 1:
            multi.append(inp["id"])
        elif kind != "tok" or rnd.random() < 0.05:
            single.append(inp["id"])
    rnd.shuffle(multi)
    rnd.shuffle(single)
    # all corpus inputs and specials, then multi-module inputs (2/3 of what is left), then single modules
    room = max(0, budget - len(first))
    chosen = first + multi[:(2 * room) // 3]
    chosen = chosen + single[:max(0, budget - len(chosen))]
    chosen = chosen + [c["id"] for c in three_import_sets()]
    det_cases = os.path.join(common.WORK, "pipeline-c13-det-cases-%d.ndjson" % pid)
    extra = {c["id"]: c for c in three_import_sets()}
    with open(det_cases, "w") as f:
        for cid in chosen:
            f.write(json.dumps(extra.get(cid) or cases[cid], separators=(",", ":")) + "\n")
    runs_path = prefix + "-runs.ndjson"
    pc.pvh(["fresh", det_cases, runs_path, k], timeout=7200)
    lines = open(runs_path).read().splitlines()
    if len(lines) != k * len(chosen):
        raise common.ToolError("fresh: %d run lines for %d inputs x %d" % (len(lines), len(chosen), k))
    parts = 6
    per = -(-len(chosen) // parts) * k
    det_files = []
    for i in range(parts):
        chunk = lines[i * per:(i + 1) * per]
        if chunk:
            path = "%s-det.%d.ndjson" % (prefix, i)
            open(path, "w").write("\n".join(chunk) + "\n")
            det_files.append(path)
    results = pc.validate_traces("Trace_Determinism", "Trace_Determinism.cfg", det_files, parallel=6)
    nondet = {}
    for res in results:
        for rej in res["rejects"]:
            nondet.setdefault(rej["id"], rej)
    by_id = {}
    for ln in lines:
        o = json.loads(ln)
        by_id.setdefault(o["id"], []).append(o)
    for cid, rej in sorted(nondet.items()):
        case = extra.get(cid) or cases[cid]
        runs = by_id[cid]
        nimp = max(len(re.findall(r'^\s*import\s+"', m["src"], re.M)) for m in case["mods"])
        distinct = len({json.dumps([r_["end"], r_["irh"], [(d["code"], d["start"]) for d in r_["diags"]]]) for r_ in runs})
        findings.add(("nondeterminism", rej["why"], "mods=%d" % len(case["mods"]), "imports=%d" % nimp), "nondeterminism",
                     "%s differs between runs | mods=%d,max-imports=%d | %s" % (rej["why"], len(case["mods"]), nimp, pc.ident(case)),
                      {"case": case, "rejected_at": rej, "runs": [{k_: v for k_, v in r_.items() if k_ not in ("ev",)} for r_ in runs[:4]],
                       "message": "%d runs of the same input in fresh processes: %s differs (%d distinct observations)" %
                                  (k, rej["why"], distinct)})
    pc.assert_same_tree(state0)
    findings.flush(rep)
    for sg, n_ in sorted(findings.counts().items(), key=lambda x: -x[1]):
        log("[findings] %5d x %s" % (n_, sg))
    log("[determinism] %d inputs x %d fresh processes validated by TLC (Trace_Determinism): %d inputs with differing runs" %
        (len(chosen), k, len(nondet)))
    # ---------------------------------------------------------------- self-tests
    self_results = {}
    if selftest:
        self_results = selftests(files, cfg_tr, det_files, documented, producible, pid)
        log("[selftest] %s" % json.dumps(self_results))
        for name, ok in self_results.items():
            if not ok:
                raise common.ToolError("self-test %s failed: the binding does not detect it" % name)
    for f in files + det_files + [cfg_cat, cfg_tr, empty, det_cases, runs_path]:
        if os.path.exists(f):
            os.remove(f)
    coverage = {
        "evaluations": ndiags + k * len(chosen),
        "distinct_nontrivial": len(nontrivial),
        "rule": "every diagnostic and lint of every failing/linted run of the shared worker run (inputs: see C02; plus CRLF, multi-byte, "
                "end-of-file specials and faults in imported modules) checked by TLC against Diagnostics.tla; %d inputs (all multi-module, "
                "corpus and special ones plus a seeded sample, plus three-import sets) compiled %d times in fresh processes and compared by "
                "TLC. Non-trivial = distinct (code, line, column, input kind) combinations." % (len(chosen), k),
        "samples": samples + [{"undocumented": [letter(c) for c in undocumented]}],
        "diagnostics_checked": ndiags,
        "runs_with_diagnostics": nruns,
        "runs_rejected": len(rejected),
        "rejection_signatures": {"%s %s" % k_: v for k_, v in sigs.items()},
        "notes": notes,
        "layout_variants_with_expected_places": nvariants,
        "span_shapes": span_shapes,
        "codes_producible": len(producible),
        "codes_of_dead_variants": [letter(c) for c in sorted(dead)],
        "codes_documented": len(documented),
        "codes_observed": len(observed),
        "undocumented": [letter(c) for c in undocumented],
        "determinism_inputs": len(chosen),
        "determinism_runs_each": k,
        "determinism_inputs_differing": len(nondet),
        "traces_validated_against_impl": nruns - len(rejected) + len(chosen) - len(nondet),
        "selftests": self_results,
    }
    assumptions = [
        "the set of producible codes is read off the match in Error::code (src/alpha/error.rs), restricted to variants that some file "
        "of src/alpha other than error.rs constructs, and must contain every observed code",
        "line starts and character counts of the inputs are computed by the harness (lines end in \\n), not by the lexer under test",
        "`covers the offending text` is decided only for injected faults with a known place (lexical faults, E402 specials); "
        "elsewhere well-formedness of the location is checked",
        "fresh processes give fresh RandomState keys; k = 3 (quick) / 8 (thorough) runs per input",
    ]
    # the recogniser of the documented grammar (spec/SyntaxRules.tla, docs/notes-syntax.md): this check receives the kinds of
    # discrepancy that belong to its property (syntax_part.PROPERTY_KINDS); one computation is shared by C02, C13, C15, C16
    from . import syntax_part
    syn = syntax_part.run_part(rep, tier, seed, selftest)
    coverage["syntax_part"] = syn
    coverage["states"] = coverage.get("states", 0) + syn["states"]
    coverage["transitions"] = coverage.get("transitions", 0) + syn["transitions"]
    coverage["traces_validated_against_impl"] = coverage.get("traces_validated_against_impl", 0) + syn["cases_replayed"] + syn["traces_accepted"]
    coverage["evaluations"] = coverage.get("evaluations", 0) + syn["evaluations"]
    return rep.finish("exploration", coverage, assumptions)


def three_import_sets():
    """a module with three imports (the shape in which the import splice order was seen to vary)"""
    out = []
    for variant in range(2):
        mods = [{"name": "a.pn", "src": 'import "b.pn";\nimport "c.pn";\nimport "d.pn";\n\nfn main() -> i32\n{\n\treturn: b_f(1) + c_f(2) + d_f(3)\n}\n'}]
        for n in "bcd":
            body = "pub fn %s_f(x: i32) -> i32\n{\n\treturn: x + 1\n}\npub fn %s_g(x: i32) -> i32\n{\n\treturn: x\n}\n" % (n, n)
            if variant == 1 and n == "d":
                body += "pub fn d_bad() -> i32\n{\n\treturn: nothing\n}\n"
            mods.append({"name": "%s.pn" % n, "src": body})
        out.append({"id": "imports3-%d" % variant, "kind": "imports3", "wasm": False, "mods": mods, "origin": "three imports, variant %d" % variant})
    return out


def selftests(loc_files, cfg_tr, det_files, documented, producible, pid):
    out = {}
    tests = []
    # (a) locations: move a span off its line / out of the file / make a rendering fail / use an undocumented code
    src = None
    for f in loc_files:
        lines = open(f).read().splitlines()
        idx = next((i for i, ln in enumerate(lines) if '"ev":"diag"' in ln and '"line":3' in ln), None)
        if idx is not None:
            src = (f, lines, idx)
            break
    if src is not None:
        f, lines, idx = src
        start = max(i for i in range(idx + 1) if '"ev":"diags-input"' in lines[i])
        end = next(i for i in range(idx, len(lines)) if '"ev":"diags-end"' in lines[i]) + 1
        run_ = lines[start:end]
        rel = idx - start
        cid = json.loads(run_[0])["id"]

        def variant(name, fn):
            e = json.loads(run_[rel])
            fn(e)
            path = f.replace(".ndjson", "-self-%s.ndjson" % name)
            open(path, "w").write("\n".join(run_[:rel] + [json.dumps(e)] + run_[rel + 1:]) + "\n")
            tests.append((name, path, cid))

        variant("wrong_line", lambda e: e.update(line=e["line"] + 1))
        variant("span_outside_file", lambda e: e.update(end=10 ** 7))
        def break_render(e):
            e.pop("r4", None)
            e["render"] = [{"status": "err", "has_code": True, "color": False, "ascii": True, "esc": False, "foreign": ""}]
        variant("render_failure", break_render)
        variant("unknown_file", lambda e: e.update(file="other.pn"))
    # a layout variant whose diagnostic is expected one line further down than it is
    for f in loc_files:
        lines = open(f).read().splitlines()
        idx = next((i for i, ln in enumerate(lines) if '"ev":"diags-input"' in ln and '"faults"' in ln and '"kind":"locv:pad"' in ln), None)
        if idx is None:
            continue
        end = next(i for i in range(idx, len(lines)) if '"ev":"diags-end"' in lines[i]) + 1
        head = json.loads(lines[idx])
        head["faults"][0]["line"] += 1
        head["faults"][0].pop("start", None)
        head["faults"][0].pop("end", None)
        path = f.replace(".ndjson", "-self-variant.ndjson")
        open(path, "w").write("\n".join([json.dumps(head)] + lines[idx + 1:end]) + "\n")
        tests.append(("variant_on_the_wrong_line", path, head["id"]))
        break
    else:
        out["layout_variant_present"] = False
    res = pc.validate_traces("Trace_Diagnostics", cfg_tr, [p for _, p, _ in tests], parallel=4) if tests else []
    by = {r["file"]: r for r in res}
    for name, path, cid in tests:
        out[name + "_rejected"] = any(r["id"] == cid for r in by[path]["rejects"])
        os.remove(path)
    # undocumented code: validate the first file against a catalogue without its first code
    if src is not None:
        f, lines, idx = src
        code = json.loads(lines[idx])["code"]
        cfg2 = os.path.join(common.WORK, "pipeline-c13-self-%d.cfg" % pid)
        write_cfg(cfg2, documented, producible - {code})
        path = f.replace(".ndjson", "-self-undoc.ndjson")
        start = max(i for i in range(idx + 1) if '"ev":"diags-input"' in lines[i])
        end = next(i for i in range(idx, len(lines)) if '"ev":"diags-end"' in lines[i]) + 1
        open(path, "w").write("\n".join(lines[start:end]) + "\n")
        res = pc.validate_traces("Trace_Diagnostics", cfg2, [path], parallel=1)
        out["undocumented_code_rejected"] = bool(res[0]["rejects"])
        os.remove(path)
        os.remove(cfg2)
    # (b) determinism: change the IR hash / a diagnostic of a second run
    for f in det_files:
        lines = open(f).read().splitlines()
        idx = next((i for i, ln in enumerate(lines) if '"r":2' in ln), None)
        if idx is None:
            continue
        o = json.loads(lines[idx])
        o["irh"] = list(o["irh"]) + ["deadbeef-1"]
        p1 = f.replace(".ndjson", "-self-ir.ndjson")
        open(p1, "w").write("\n".join(lines[idx - 1:idx] + [json.dumps(o)] + lines[idx + 1:idx + 2]) + "\n")
        o2 = json.loads(lines[idx])
        o2["end"] = {"t": "success" if o2["end"]["t"] != "success" else "failure"}
        p2 = f.replace(".ndjson", "-self-verdict.ndjson")
        open(p2, "w").write("\n".join(lines[idx - 1:idx] + [json.dumps(o2)] + lines[idx + 1:idx + 2]) + "\n")
        res = pc.validate_traces("Trace_Determinism", "Trace_Determinism.cfg", [p1, p2], parallel=2)
        by = {r["file"]: r for r in res}
        out["different_ir_text_rejected"] = any(r.get("why") == "ir-text" for r in by[p1]["rejects"])
        out["different_verdict_rejected"] = any(r.get("why") == "verdict" for r in by[p2]["rejects"])
        os.remove(p1)
        os.remove(p2)
        break
    return out


def replay(path):
    if json.load(open(path)).get("detail", {}).get("part") == "syntax":
        from . import syntax_part
        return syntax_part.replay(path)
    d = json.load(open(path))
    print("kind:", d["kind"])
    print("key: ", d["key"])
    print("message:", d["detail"].get("message"))
    if "diagnostic" in d["detail"]:
        print("diagnostic:", json.dumps(d["detail"]["diagnostic"]))
    if "runs" in d["detail"]:
        for r in d["detail"]["runs"]:
            print("run:", json.dumps(r)[:400])
    case = d["detail"].get("case")
    if case is None:
        return 0
    tmp = os.path.join(common.WORK, "pipeline-replay-%d.json" % os.getpid())
    json.dump(case, open(tmp, "w"))
    p = pc.pvh(["show", tmp], check=False)
    print(p.stdout)
    os.remove(tmp)
    return 0

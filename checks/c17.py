"""C17 -- the extracted header is exactly the public interface (spec/Header.tla).

1. TLC model-checks A (node buffer, private zones, build_header_nodes, convert_for_head) against R
   (header = pub declarations, in order, flag cleared, bodies removed) on every module up to the bound
   and emits one CASE per module: the module, R's header, and A's predictions for the hook events.
2. spec -> impl: every module is rendered, run through the real front end in isolated workers;
   `build_header().as_xml()` is projected onto the abstract declaration list and compared with R's header;
   the dump is also compared textually with `as_xml()` of R's header rendered as a module of its own.
3. impl -> spec: random larger modules are recorded with the H5 hook events and validated by TLC
   (Trace_Header.tla), at rule level (decides VIOLATION) and strictly against A (MODEL-DRIFT only).
"""
import json
import os
import random

from . import common, delta_util
from .common import log

MC = {
    "quick": [("MC_Header_wide_quick.cfg", 8), ("MC_Header_rich_quick.cfg", 4)],
    "thorough": [("MC_Header_wide_thorough.cfg", 8), ("MC_Header_narrow_thorough.cfg", 8), ("MC_Header_rich_thorough.cfg", 4),
                 ("MC_Header_mid_thorough.cfg", 8)],
}
DEFECTS = [("MC_Header_defect_SkipOffByOne.cfg", None), ("MC_Header_defect_KeepListFirst.cfg", None),
           ("MC_Header_defect_KeepPublicFlag.cfg", None), ("MC_Header_defect_NoBodyZone.cfg", None)]
RECORD = {"quick": 400, "thorough": 6000}
# xmod (dimension audit, harness/src/delta/module.rs: extended_module): class = index % 10, variant = index // 10.
XCLASSES = ["tiny", "thousand", "alternating", "zones", "hugeprivate", "hugepublic", "rich", "flags", "refstmts", "bigheader"]
# variants per class: modules of a thousand declarations cost TLC ~3000 events each, huge bodies ~1 s of front end each
XVARIANTS = {"quick": {"tiny": 13, "thousand": 2, "alternating": 2, "zones": 16, "hugeprivate": 4, "hugepublic": 4, "rich": 16,
                       "flags": 12, "refstmts": 12, "bigheader": 1},
             "thorough": {"tiny": 60, "thousand": 20, "alternating": 20, "zones": 200, "hugeprivate": 40, "hugepublic": 40, "rich": 300,
                          "flags": 200, "refstmts": 200, "bigheader": 6}}
# classes inside the vocabulary of the algorithm model (strict validation); the others are validated at rule level only
XSTRICT = {"tiny", "zones", "flags"}
EVFILTER = ["zstart", "zone", "decl", "nodelen", "hskip", "hstep", "hlen"]

RULE = ("TLC enumerates every module of <= N top-level declarations over the shapes of MC_Header.tla ('wide': 9 shapes "
        "= {fn with body, fn head, const, struct} x {pub, private} + import, N = 5 (6 thorough): every pub/private "
        "interleaving incl. private first/last, all-public, all-private; 'rich': 61 shapes varying parameters, composite "
        "types, values with references, extern, opaque, words, bodies of 0-2 statements, N = 2 (3 thorough)), checks the "
        "buffer model against the rule (header = pub declarations, in order, flag cleared, bodies removed; reference "
        "integrity) and emits each module; every module is rendered and run through the real front end and the "
        "projection of build_header().as_xml() is compared with the rule's header, and textually with as_xml() of the "
        "rule's header rendered as its own module. Random modules (<= 40 declarations, bodies <= 120 statements) are "
        "recorded with hook events and validated by TLC against the same rule; so are the modules of the `xmod` generator: "
        "0 / 1 / 1000 declarations, pub / private alternating 500 times, one private zone at the very start / very end / "
        "covering everything / none, private and public functions of 4000-5000 statements before public declarations "
        "(more than 2^16 nodes skipped, token numbers above 2^16), 7000 public constants (a header of more than 2^16 "
        "nodes), values / types / names / list lengths outside the "
        "model-checked vocabulary (strings and characters that need escaping in a dump, arrays, casts, structure "
        "literals, 255-257 parameters / members, names of 255-1000 bytes), every combination of pub / extern / opaque on "
        "every kind, statements with node references (blocks, ifs) in bodies. Non-trivial = distinct modules with at "
        "least one pub and one private declaration, or a pub function with a body.")

ASSUMPTIONS = [
    "TLC's evaluation of RHeader (spec/Header.tla) is the oracle; the buffer model A only yields MODEL-DRIFT notes",
    "the renderer (harness/src/delta/module.rs) and the XML projection (harness/src/delta/xml.rs) are trusted; their "
    "composition is checked on every case: the projection of the full dump must equal the generated module",
    "imports are never pub (docs/features.md: 'Imports are themselves not public')",
    "body statements are drawn from {loop; goto end; var v: i32 = 1; f(1);}: the header must not depend on them",
    "modules are syntactically well-formed; build_header is only defined for trees without parse errors "
    "(ParseTree::build_header asserts it; the documented driver delta::test_suite::compile skips it then)",
    "build_header applied to a header (idempotence) is observed for MODEL-DRIFT notes only: the property speaks of the "
    "header of a parsed module",
]


def tname(t):
    return "".join(t) if t else "void"


def dkey(d):
    flags = ("P" if d["pub"] else "p") + ("E" if d["ext"] else "") + ("O" if d["opq"] else "")
    k = d["k"]
    if k in ("fn", "head"):
        s = "%s(%s)->%s" % (k, ",".join("%s:%s" % (p[0], tname(p[1])) for p in d["params"]), tname(d["ret"]))
        if k == "fn":
            s += "{%s%s}" % (",".join(d["body"]), (";=" + " ".join(d["res"])) if d["res"] else "")
    elif k == "const":
        s = "const:%s=%s" % (tname(d["ty"]), " ".join(d["val"]))
    elif k in ("struct", "word"):
        s = "%s%s{%s}" % (k, d["size"] or "", ",".join("%s:%s" % (p[0], tname(p[1])) for p in d["mem"]))
    else:
        s = k
    return flags + ":" + s


def modkey(m):
    return " | ".join(dkey(d) for d in m)


def nontrivial(m):
    pubs = [d["pub"] for d in m]
    return (any(pubs) and not all(pubs)) or any(d["pub"] and d["k"] == "fn" for d in m)


def norm(decls):
    """Canonical form for comparison (field order / missing defaults do not matter)."""
    return [{k: d.get(k) for k in ("k", "pub", "ext", "opq", "name", "params", "ret", "ty", "val", "mem", "size", "body", "res")}
            for d in decls]


def compare(case, obs):
    """Property-level discrepancies between the real front end and the rule."""
    out = []
    o = obs.get("o")
    if o in ("crash", "timeout"):
        return [("delta-crash", "the front end died on a well-formed module: %s" % obs.get("how"))]
    if o == "panic":
        return [("delta-panic", "the front end panicked on a well-formed module: %s" % obs.get("panic"))]
    if o != "accepted":
        return [("rejected-valid", "a well-formed module is rejected with %s" % obs.get("codes"))]
    if "hdr" not in obs:
        return [("header-unreadable", "the header dump cannot be read: %s" % obs.get("hdr_err"))]
    if norm(obs["hdr"]) != norm(case["h"]):
        out.append(("header", "build_header().as_xml() denotes %s, the rule demands %s" %
                    (modkey(obs["hdr"]) or "<nothing>", modkey(case["h"]) or "<nothing>")))
    if "meta" in obs and not obs["meta"]:
        out.append(("header-meta", "the header dump differs from the dump of the module restricted to its public "
                                   "interface: %s" % json.dumps(obs.get("meta_diff"))[:300]))
    if "meta_nnode" in obs and obs.get("meta"):
        # "statements of public function bodies never appear in it": the header's node buffer holds exactly the nodes
        # the public interface needs -- as many as the real parser pushes for the restricted module on its own
        # (which, being all-private, carries one private-zone marker if it is not empty)
        want = obs["meta_nnode"] - (1 if case["h"] else 0)
        if obs.get("hnode") != want:
            out.append(("header-extra-nodes", "the header buffer has %s nodes, the public interface alone parses to %s" %
                        (obs.get("hnode"), want)))
    if obs.get("malformed"):
        out.append(("header-malformed", "%d MALFORMED nodes in the dumps" % obs["malformed"]))
    return out


def drift(case, obs):
    out = []
    ev = obs.get("ev") or []
    if obs.get("o") != "accepted":
        return out
    nl = [e for e in ev if e["ev"] == "nodelen"]
    hl = [e for e in ev if e["ev"] == "hlen"]
    zones = [[e["start"] + 1, e["end"] + 1] for e in ev if e["ev"] == "zone"]
    if not nl or nl[0]["n"] != case["nn"]:
        out.append("parser pushed %s nodes, model %s" % (nl[0]["n"] if nl else None, case["nn"]))
    if not hl or hl[0]["n"] != case["hn"]:
        out.append("header has %s nodes, model %s" % (hl[0]["n"] if hl else None, case["hn"]))
    if zones != [list(z) for z in case["zones"]]:
        out.append("zones %s, model %s" % (zones, case["zones"]))
    return out


def report(rep, kind, key, detail):
    """Panics and crashes are keyed by their failure signature (shared with C15), everything else by the module."""
    if kind in ("delta-panic", "delta-crash"):
        obs = detail.get("observed", {})
        sig = obs.get("panic") or obs.get("how") or "?"
        return rep.violation(kind, sig, detail)
    return rep.violation(kind, key, detail)


def xmod_indices(tier):
    out = []
    for c, k in enumerate(XCLASSES):
        out += [v * len(XCLASSES) + c for v in range(XVARIANTS[tier][k])]
    return sorted(out)


def hh_drift(rep, key, o):
    """Header of the header: the same buffer again (no property demands it: a note only)."""
    if o.get("o") == "accepted" and "hh" in o and o["hh"] != [o.get("hnode"), o.get("hdecl")]:
        rep.note_drift("%s: build_header of the header gives %s, the header has [nodes, declarations] = %s" %
                       (key, o["hh"], [o.get("hnode"), o.get("hdecl")]))
        return 1
    return 0


def trace_of(obs):
    """input / hook events / outcome lines of one recorded run; a crash or panic truncates it."""
    if "full" not in obs:
        if obs.get("o") == "accepted":
            raise common.ToolError("the dump of a generated module is outside the projection's vocabulary: %s" % obs.get("full_err"))
        run = [{"ev": "input", "m": obs.get("gen", []), "note": "front end failed: %s" % obs.get("o"), "xkey": obs.get("xkey", "")}]
        return run + (obs.get("ev") or [])
    run = [{"ev": "input", "m": obs["full"], "xkey": obs.get("xkey", "")}]
    run += obs.get("ev") or []
    if obs.get("o") == "accepted" and "hdr" in obs:
        run.append({"ev": "outcome", "ok": True, "hdr": obs["hdr"]})
    return run


def run(rep, tier, seed, selftest):
    selftest = selftest or tier == "thorough"
    common.build_harness()
    rnd = random.Random(seed)
    # ---- 1. model checking + case emission ---------------------------------------------------
    cases = []
    states = trans = 0
    model_ok = True
    violated = None
    for cfg, workers in MC[tier]:
        r = common.tlc("MC_Header", cfg, workers=workers, timeout=3000, heap="8g", tag="C17-mc-" + cfg.replace(".cfg", ""))
        log("[tlc] MC_Header/%s: %d states generated, %d distinct, %d cases, %.1fs, %s" %
            (cfg, r.generated, r.distinct, len(r.cases), r.wall,
             "no invariant violated" if r.ok else "INVARIANT %s VIOLATED" % r.violated))
        if not r.ok:
            model_ok = False
            violated = r.violated
            log("[tlc] counterexample tail:\n" + r.tail[-2500:])
        states += r.distinct
        trans += r.generated
        cases += r.cases
    if not cases:
        raise common.ToolError("TLC emitted no cases")
    # ---- 2. replay --------------------------------------------------------------------------
    descs = [{"g": "mod", "m": c["m"], "h": c["h"], "layout": (seed * 1000003 + i) % 5 if i % 3 else 0} for i, c in enumerate(cases)]
    obs = delta_util.run_cases("C17", "replay", descs, events=True, evfilter=["zone", "nodelen", "hlen"])
    nontriv = set()
    agree = 0
    infidel = 0
    for c, o in zip(cases, obs):
        key = modkey(c["m"])
        if nontrivial(c["m"]):
            nontriv.add(key)
        if o.get("o") == "accepted" and not o.get("full_ok"):
            infidel += 1
            if infidel <= 3:
                log("[replay] renderer/projection infidelity on %s: %s" % (key, json.dumps(o.get("full", o.get("full_err")))[:300]))
            continue
        for kind, msg in compare(c, o):
            report(rep, kind, key, {"case": {"g": "mod", "m": c["m"], "h": c["h"]}, "observed": {k: v for k, v in o.items() if k != "ev"},
                                    "problem": kind, "message": msg, "how": "bin/check C17 --replay <this file>"})
        hh_drift(rep, key, o)
        d = drift(c, o)
        if d:
            rep.note_drift("%s: %s" % (key, "; ".join(d)))
        else:
            agree += 1
    if infidel:
        raise common.ToolError("%d modules were not parsed back as generated (renderer / projection bug, or a C16 defect)" % infidel)
    log("[replay] %d modules replayed on the real front end, %d violations, model agreement %d/%d" %
        (len(cases), len(rep.violations), agree, len(cases)))
    if not model_ok and not rep.violations and not rep.known_hits:
        rep.note_drift("TLC reports %s violated but no replayed module shows it on the real code" % violated)
    selftests = {}
    if selftest:
        i = next(k for k, c in enumerate(cases) if c["h"])
        flipped = dict(cases[i])
        flipped["h"] = cases[i]["h"][1:]
        selftests["dropped_header_declaration_detected"] = bool(compare(flipped, obs[i]))
        flipped = json.loads(json.dumps(cases[i]))
        flipped["h"][0]["pub"] = True
        selftests["kept_public_flag_detected"] = bool(compare(flipped, obs[i]))
        for cfg, _ in DEFECTS:
            rv = common.tlc("MC_Header", cfg, workers=4, timeout=600, heap="4g", tag="C17-vac-" + cfg.replace(".cfg", ""))
            selftests["defective_model_" + cfg.replace("MC_Header_defect_", "").replace(".cfg", "") + "_violates"] = rv.violated is not None
    # ---- 3. trace validation ----------------------------------------------------------------
    count = RECORD[tier]
    rdesc = [{"g": "rmod", "seed": seed, "i": i} for i in range(count)]
    robs = delta_util.run_cases("C17", "record", rdesc, events=True, evfilter=EVFILTER)
    runs = [trace_of(o) for o in robs]
    # the dimensions the first generator does not vary (0 / 1 / 1000 declarations, 500 zones, huge bodies, rich values,
    # flags x kinds, statements with references): recorded the same way
    xdesc = [{"g": "xmod", "seed": seed, "i": i} for i in xmod_indices(tier)]
    xobs = delta_util.run_cases("C17", "xrecord", xdesc, events=True, evfilter=EVFILTER, timeout_s=120)
    xstats = {}
    for d, o in zip(xdesc, xobs):
        st = xstats.setdefault(o.get("class", "?"), {"modules": 0, "max_declarations": 0, "max_tokens": 0, "max_nodes_skipped": 0})
        st["modules"] += 1
        st["max_declarations"] = max(st["max_declarations"], o.get("gen_n", 0))
        st["max_tokens"] = max(st["max_tokens"], o.get("ntok", 0))
        st["max_nodes_skipped"] = max([st["max_nodes_skipped"]] + [e["skipped"] for e in o.get("ev") or [] if e.get("ev") == "hlen"])
        if o.get("o") == "accepted":
            full = o.get("full")
            if full is None or len(full) != o.get("gen_n") or [x["name"] for x in full] != o.get("gen_names"):
                raise common.ToolError("xmod %s/%s was not parsed back as generated (renderer / projection bug, or a C16 defect): %s" %
                                       (seed, d["i"], o.get("full_err") or "declarations differ"))
        o["xkey"] = "xmod/%s/%s (%s)" % (seed, d["i"], o.get("class"))
        hh_drift(rep, o["xkey"], o)
    for d, o in zip(rdesc, robs):
        hh_drift(rep, "rmod/%s/%s" % (seed, d["i"]), o)
    xruns = [trace_of(o) for o in xobs]
    log("[xmod] %d modules of the extended generator run on the real front end: %s" % (len(xdesc), json.dumps(xstats)))
    prefix = os.path.join(common.WORK, "C17-trace")
    files = delta_util.write_traces(prefix, runs, 12)
    xfiles = delta_util.write_traces(os.path.join(common.WORK, "C17-xtrace"), xruns, 12)
    xstrict_files = delta_util.write_traces(os.path.join(common.WORK, "C17-xstrict"),
                                            [r_ for r_, o in zip(xruns, xobs) if o.get("class") in XSTRICT], 4)
    robs = robs + xobs          # (the observations a rejected recording is looked up in)

    def rejected(bad, res):
        m = (bad["input"] or {}).get("m", [])
        xkey = (bad["input"] or {}).get("xkey", "")
        o = robs[0]
        case = {"g": "mod", "m": m}
        if xkey:
            # a module of the extended generator travels as its descriptor (it can be a megabyte of JSON)
            case = {"g": "xmod", "seed": int(xkey.split("/")[1]), "i": int(xkey.split("/")[2].split()[0])}
        ev = bad["event"]
        if ev and len(json.dumps(ev)) > 4000:
            ev = {"ev": ev.get("ev"), "note": "event of %d bytes not shown" % len(json.dumps(ev))}
        detail = {"trace_file": res["file"], "first_unmatched_line": res["matched"] + 1, "unmatched_event": ev,
                  "case": case, "message": "recorded behaviour of the real front end is not a behaviour the rule allows"}
        note = (bad["input"] or {}).get("note", "")
        if "panic" in note or "crash" in note or "timeout" in note:
            # find the observation to key it by its failure signature
            for ob in robs:
                if ((ob.get("xkey") == xkey) if xkey else (ob.get("gen") == m)) and ob.get("o") in ("panic", "crash", "timeout"):
                    o = ob
                    break
            detail["observed"] = {k: v for k, v in o.items() if k not in ("ev", "gen", "full")}
            report(rep, "delta-panic" if o.get("o") == "panic" else "delta-crash", xkey or modkey(m), detail)
        else:
            rep.violation("header-trace", xkey or modkey(m), detail)

    traces_ok, trace_events = delta_util.validate_traces("Trace_Header", "Trace_Header_rule.cfg", files + xfiles, rejected)
    strict = common.tlc_traces("Trace_Header", "Trace_Header_strict.cfg", files + xstrict_files)
    strict_ok = sum(1 for s in strict if s["accepted"])
    for s in strict:
        if not s["accepted"]:
            rep.note_drift("strict trace validation stops at line %d of %s" % (s["matched"] + 1, s["file"]))
    log("[trace] %d + %d recorded modules (%d events) validated against the rule: %d accepted; strict (algorithm) mode: %d/%d files" %
        (count, len(xdesc), trace_events, traces_ok, strict_ok, len(files) + len(xstrict_files)))
    if selftest and files:
        def drop_decl_from_outcome(lines):
            for k, ln in enumerate(lines):
                if '"ev":"outcome"' in ln:
                    o = json.loads(ln)
                    if o["hdr"]:
                        o["hdr"] = o["hdr"][:-1]
                        lines[k] = json.dumps(o, separators=(",", ":"))
                        return lines
            return None

        def keep_flag_in_outcome(lines):
            for k, ln in enumerate(lines):
                if '"ev":"outcome"' in ln:
                    o = json.loads(ln)
                    if o["hdr"]:
                        o["hdr"][0]["pub"] = True
                        lines[k] = json.dumps(o, separators=(",", ":"))
                        return lines
            return None

        def drop_decl_event(lines):
            for k, ln in enumerate(lines):
                if '"ev":"decl"' in ln:
                    return lines[:k] + lines[k + 1:]
            return None

        def body_in_header(lines):
            for k, ln in enumerate(lines):
                if '"ev":"outcome"' in ln:
                    o = json.loads(ln)
                    if o["hdr"] and any(d["k"] == "head" for d in o["hdr"]):
                        d = next(d for d in o["hdr"] if d["k"] == "head")
                        d["k"] = "fn"
                        d["body"] = ["loop"]
                        lines[k] = json.dumps(o, separators=(",", ":"))
                        return lines
            return None

        muts = delta_util.corrupted_copies(files[0], "C17", [("dropped_header_declaration_rejected", drop_decl_from_outcome),
                                                               ("kept_public_flag_rejected", keep_flag_in_outcome),
                                                               ("dropped_decl_event_rejected", drop_decl_event),
                                                               ("body_in_header_rejected", body_in_header)])
        # the same corruptions on a recording of the extended generator (validated at rule level only)
        muts += [("xmod_" + n_, p_) for n_, p_ in delta_util.corrupted_copies(xfiles[0], "C17x", [
            ("dropped_header_declaration_rejected", drop_decl_from_outcome), ("kept_public_flag_rejected", keep_flag_in_outcome),
            ("dropped_decl_event_rejected", drop_decl_event)])] if xfiles else []
        res = common.tlc_traces("Trace_Header", "Trace_Header_rule.cfg", [p for _, p in muts])
        by = {r["file"]: r for r in res}
        for name, p in muts:
            selftests[name] = not by[p]["accepted"]
    if selftest:
        log("[selftest] %s" % json.dumps(selftests))
        for name, ok in selftests.items():
            if not ok:
                raise common.ToolError("self-test %s failed: the binding does not detect a corrupted expectation / recording" % name)
    sample_idx = sorted(rnd.sample(range(len(cases)), min(4, len(cases))))
    samples = [{"module": modkey(cases[i]["m"]), "rule_header": modkey(cases[i]["h"]),
                "observed_header": modkey(obs[i].get("hdr", [])), "outcome": obs[i].get("o")} for i in sample_idx]
    samples.append({"trace_head": runs[0][:6] if runs else []})
    coverage = {
        "states": states,
        "transitions": trans,
        "traces_validated_against_impl": len(cases) + traces_ok,
        "samples": samples,
        "evaluations": len(cases) + count + len(xdesc),
        "distinct_nontrivial": len(nontriv),
        "rule": RULE,
        "exhaustive": True,
        "model_invariants_hold": model_ok,
        "violated_invariant": violated,
        "cases_replayed": len(cases),
        "model_agreement": "%d/%d" % (agree, len(cases)),
        "random_traces_recorded": count + len(xdesc),
        "extended_generator": xstats,
        "random_traces_accepted_rule_level": traces_ok,
        "trace_events_matched": trace_events,
        "strict_trace_files_accepted": "%d/%d" % (strict_ok, len(files) + len(xstrict_files)),
        "tlc_config": [c for c, _ in MC[tier]],
        "selftests": selftests,
    }
    return rep.finish("model_checking", coverage, ASSUMPTIONS)


def replay(path):
    d = json.load(open(path))
    case = d["detail"].get("case")
    print("kind:", d["kind"])
    print("key: ", d["key"])
    print("message:", d["detail"].get("message"))
    if case is None:
        print(json.dumps(d, indent=1)[:4000])
        return 0
    common.build_harness()
    p = common.pvh(["show", json.dumps(case)], exe_name="pvh_delta", check=False, env={"PENNE_REPO": common.REPO})
    print(p.stdout)
    if p.returncode != 0:
        print("(the process ended with status %s)\n%s" % (p.returncode, p.stderr[-600:]))
    if "h" in case:
        print("rule's header:", modkey(case["h"]) or "<nothing>")
    return 0

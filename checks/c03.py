"""C03 -- every successful compilation yields valid LLVM IR (spec/Symbols.tla, Trace_Pipeline.tla with
RequireIR = TRUE).

For every run of the shared worker run that ended in Success -- TLC-emitted token sequences and module
sets, the valid corpus and its import closures (also for the wasm target), mutants that still compile,
nesting shapes, generated 2-3-module sets -- the text of every module's generate_ir() and of the linked
program is given to `llvm-as` and `opt -passes=verify` as independent tools, the define/declare lines
are extracted, and an `ir` event is inserted after each generate / link event.  TLC then validates the
recording: the `ir` events must be there, both tools must accept, and the symbol table must satisfy
Symbols.tla (each function the source defines is defined; main and pub functions are external)."""
import json
import os
import re
import subprocess
from concurrent.futures import ThreadPoolExecutor

from . import common
from . import pipeline_common as pc
from .common import log

SYM = re.compile(r'^(define|declare)\s+(.*?)@(?:"((?:[^"\\]|\\.)*)"|([A-Za-z0-9_.$-]+))\(')
LINKAGES = ("private", "internal", "available_externally", "linkonce", "weak", "common", "appending", "extern_weak",
            "linkonce_odr", "weak_odr", "external")


def symbols_of(text):
    out = []
    for line in text.splitlines():
        m = SYM.match(line)
        if not m:
            continue
        kind, attrs, qname, name = m.group(1), m.group(2), m.group(3), m.group(4)
        name = qname if qname is not None else name
        words = attrs.split()
        linkage = next((w for w in words if w in LINKAGES), "external")
        # visibility style of the symbol (LangRef): `hidden` / `protected` symbols are not visible outside the linked object
        vis = next((w for w in words if w in ("hidden", "protected")), "default")
        # the generator emits a function that is neither pub, main, extern nor forward declared as `.fn.NAME`;
        # LLVM's linker renames clashing local symbols NAME.N
        base = re.sub(r"^\.fn\.", "", re.sub(r"\.\d+$", "", name))
        out.append({"name": name, "base": base, "kind": kind, "linkage": linkage, "vis": vis})
    return out


def run_tools(path):
    def tool(cmd):
        try:
            p = subprocess.run(cmd, stdout=subprocess.PIPE, stderr=subprocess.PIPE, timeout=120)
            return p.returncode == 0, p.stderr.decode("utf-8", "replace")[:600]
        except subprocess.TimeoutExpired:
            return None, "timeout"
    a_ok, a_err = tool(["llvm-as", "-o", "/dev/null", path])
    v_ok, v_err = tool(["opt", "-passes=verify", "-disable-output", path])
    return {"assembler_ok": a_ok, "verifier_ok": v_ok, "assembler_err": a_err, "verifier_err": v_err}


def run(rep, tier, seed, selftest):
    selftest = selftest or tier == "thorough"
    state0 = pc.repo_state()
    common.build_harness(pc.EXE)
    for t in ("llvm-as", "opt"):
        if subprocess.run(["which", t], stdout=subprocess.PIPE).returncode != 0:
            raise common.ToolError("%s not found on PATH" % t)
    meta = pc.ensure_run(tier, seed)
    p = pc.paths(meta)
    cases = pc.load_cases(p["cases"])
    # ---- collect the IR texts of all successful runs
    wanted = {}      # irh -> path
    succ = 0
    for inp, evs, _ in pc.grouped_events(p["events"]):
        if pc.end_of(evs)[0] != "success":
            continue
        succ += 1
        for e in evs:
            if e["ev"] in ("generate", "link"):
                irf = os.path.join(p["ir"], os.path.basename(e.get("irf") or "missing"))
                if not os.path.exists(irf):
                    raise common.ToolError("IR text of %s missing (%s)" % (inp["id"], irf))
                wanted.setdefault(e["irh"], irf)
    if succ == 0:
        raise common.ToolError("no successful compilation in the worker run")
    items = sorted(wanted.items())
    with ThreadPoolExecutor(max_workers=int(pc.THREADS)) as ex:
        tool_results = list(ex.map(lambda kv: run_tools(kv[1]), items))
    verdict = {}
    for (irh, path), res in zip(items, tool_results):
        if res["assembler_ok"] is None or res["verifier_ok"] is None:
            raise common.ToolError("llvm-as / opt timed out on %s" % path)
        res["symbols"] = symbols_of(open(path, errors="replace").read())
        verdict[irh] = res
    log("[tools] llvm-as and opt -passes=verify on %d distinct IR texts of %d successful runs: %d rejected by llvm-as, %d by the verifier" %
        (len(items), succ, sum(1 for r in verdict.values() if not r["assembler_ok"]),
         sum(1 for r in verdict.values() if not r["verifier_ok"])))

    # ---- recordings with `ir` events, validated by TLC
    def with_ir(inp, evs):
        if pc.end_of(evs)[0] != "success":
            return None
        out = []
        for e in evs:
            out.append(e)
            if e["ev"] in ("generate", "link"):
                v = verdict[e["irh"]]
                out.append({"ev": "ir", "module": e.get("m", 0), "assembler_ok": v["assembler_ok"],
                            "verifier_ok": v["verifier_ok"], "symbols": v["symbols"]})
        inp = dict(inp)
        for m in inp.get("mods", []):
            m.pop("lines", None)
        return inp, out

    prefix = os.path.join(common.WORK, "pipeline-c03-%d" % os.getpid())
    files, nruns = pc.split_events(p["events"], prefix, parts=6, transform=with_ir)
    results = pc.validate_traces("Trace_Pipeline", "Trace_Pipeline_ir.cfg", files, parallel=6)
    rejected = {}
    strict_notes = 0
    dropped_notes = 0
    for r in results:
        for rej in r["rejects"]:
            rejected.setdefault(rej["id"], rej)
        strict_notes += sum(1 for n in r["notes"] if n.get("what") == "strict-symbols")
        dropped_notes += sum(1 for n in r["notes"] if n.get("what") == "linker-dropped-local")
    # ---- classify
    by_kind = {}
    nontrivial = set()
    samples = []
    findings = pc.Findings()
    for inp, evs, _ in pc.grouped_events(p["events"]):
        if pc.end_of(evs)[0] != "success":
            continue
        cid = inp["id"]
        case = cases[cid]
        k = inp["kind"].split(":")[0]
        by_kind[k] = by_kind.get(k, 0) + 1
        irs = [e for e in evs if e["ev"] in ("generate", "link")]
        if any(s["kind"] == "define" for e in irs for s in verdict[e["irh"]]["symbols"]):
            nontrivial.add(tuple(e["irh"] for e in irs))
        if len(samples) < 4 and k in ("corpus", "multi", "mut", "set") and not any(s["kind"] == k for s in samples):
            samples.append({"id": cid, "kind": k, "modules": [m["name"] for m in case["mods"]], "wasm": case.get("wasm", False),
                            "symbols_linked": verdict[irs[-1]["irh"]]["symbols"][:8]})
        if cid not in rejected:
            continue
        rej = rejected[cid]
        bad = None
        for e in irs:
            v = verdict[e["irh"]]
            which = "module m%d" % e["m"] if e["ev"] == "generate" else "the linked program"
            if not v["assembler_ok"]:
                bad = ("ir-assembler", "llvm-as rejects %s: %s" % (which, v["assembler_err"].strip().splitlines()[0][:120] if v["assembler_err"].strip() else "?"), v["assembler_err"])
                break
            if not v["verifier_ok"]:
                bad = ("ir-verifier", "opt -passes=verify rejects %s: %s" % (which, v["verifier_err"].strip().splitlines()[0][:120] if v["verifier_err"].strip() else "?"), v["verifier_err"])
                break
        if bad is None:
            which = "module m%s" % rej["after"][1] if rej["after"][0] == "generate" else "the linked program"
            bad = ("symbols", "symbol table of %s does not define every function of the source with main/pub external" % which, "")
        key = "%s | %s | %s" % (re.sub(r"/\S*/ir/\S+\.ll", "<ir>", bad[1]), pc.tags_of(case), pc.ident(case))
        findings.add((bad[0], bad[1][:60]), bad[0], key, {"case": case, "rejected_at": rej, "tool_output": bad[2][:1000],
                                    "ir_files": [os.path.join(p["ir"], os.path.basename(e["irf"])) for e in irs],
                                    "symbols": [verdict[e["irh"]]["symbols"] for e in irs][-2:],
                                    "message": bad[1], "how": "bin/check C03 --replay <this file>"})
    pc.assert_same_tree(state0)
    findings.flush(rep)
    if strict_notes:
        rep.note_drift("%d module(s) whose symbol table differs from the stricter generator model (StrictOK)" % strict_notes)
    log("[trace] %d successful runs with ir events validated by TLC (Trace_Pipeline, RequireIR): %d accepted, %d rejected; by input kind %s" %
        (nruns, nruns - len(rejected), len(rejected), json.dumps(by_kind, sort_keys=True)))
    self_results = {}
    if selftest:
        self_results = selftests(files, verdict)
        log("[selftest] %s" % json.dumps(self_results))
        for name, ok in self_results.items():
            if not ok:
                raise common.ToolError("self-test %s failed: the binding does not detect it" % name)
    for f in files:
        if os.path.exists(f):
            os.remove(f)
    mc = meta["tlc"][pc.TIERS[tier]["mc"]]
    coverage = {
        "programs": nruns,
        "disagreements_checked": len(items),
        "samples": samples,
        "evaluations": nruns,
        "distinct_nontrivial": len(nontrivial),
        "rule": "every run of the shared worker run (see C02) that ends in Success; llvm-as and opt -passes=verify on every module's "
                "IR text and on the linked text (%d distinct texts); symbol tables checked by TLC against Symbols.tla. "
                "Non-trivial = distinct IR text tuples that define at least one function." % len(items),
        "states": mc["distinct"],
        "transitions": mc["generated"],
        "traces_validated_against_impl": nruns - len(rejected),
        "successful_runs_by_input_kind": by_kind,
        "rejected_by_llvm_as": sum(1 for r in verdict.values() if not r["assembler_ok"]),
        "rejected_by_verifier": sum(1 for r in verdict.values() if not r["verifier_ok"]),
        "strict_symbol_notes": strict_notes,
        "linked_programs_without_an_unreferenced_local_function": dropped_notes,
        "selftests": self_results,
    }
    assumptions = [
        "IR validity is decided by LLVM 14's own llvm-as and opt -passes=verify (the property's definition); the specification "
        "decides the definedness/linkage clause and that the observation is made after every generate and link",
        "the abstract module is the projection of what the real parser built (kind, name, pub) after import expansion",
        "programs are never executed here (no main, UB, non-termination and wasm targets included)",
    ]
    return rep.finish("translation_validation", coverage, assumptions)


def selftests(files, verdict):
    """corrupt one recording in three ways: tool verdict flipped, ir event dropped, pub function made private"""
    out = {}
    src = None
    for f in files:
        lines = open(f).read().splitlines()
        idx = next((i for i, l in enumerate(lines) if '"ev":"ir"' in l and '"kind":"define"' in l and '"linkage":"external"' in l), None)
        if idx is not None:
            src = (f, lines, idx)
            break
    if src is None:
        return {"no_recording_with_an_external_definition": False}
    f, lines, idx = src
    start = max(i for i in range(idx) if '"ev":"input"' in lines[i])
    end = next((i for i in range(idx, len(lines)) if '"ev":"outcome"' in lines[i])) + 1
    run_ = lines[start:end]
    rel = idx - start
    cid = json.loads(run_[0])["id"]
    tests = []

    def variant(name, new_lines):
        path = f.replace(".ndjson", "-self-%s.ndjson" % name)
        open(path, "w").write("\n".join(new_lines) + "\n")
        tests.append((name, path))

    e = json.loads(run_[rel])
    e2 = dict(e, verifier_ok=False)
    variant("verifier_rejects", run_[:rel] + [json.dumps(e2)] + run_[rel + 1:])
    variant("ir_event_missing", run_[:rel] + run_[rel + 1:])
    e3 = json.loads(run_[rel])
    for s in e3["symbols"]:
        if s["kind"] == "define" and s["linkage"] == "external":
            s["linkage"] = "private"
    variant("public_function_private", run_[:rel] + [json.dumps(e3)] + run_[rel + 1:])
    e4 = json.loads(run_[rel])
    e4["symbols"] = [s for s in e4["symbols"] if s["kind"] != "define"]
    variant("definition_missing", run_[:rel] + [json.dumps(e4)] + run_[rel + 1:])
    res = pc.validate_traces("Trace_Pipeline", "Trace_Pipeline_ir.cfg", [p for _, p in tests], parallel=4)
    by = {r["file"]: r for r in res}
    for name, path in tests:
        out[name + "_rejected"] = any(r["id"] == cid for r in by[path]["rejects"])
        os.remove(path)
    return out


def replay(path):
    d = json.load(open(path))
    print("kind:", d["kind"])
    print("key: ", d["key"])
    print("message:", d["detail"].get("message"))
    print("tool output:", d["detail"].get("tool_output"))
    case = d["detail"].get("case")
    if case is None:
        return 0
    tmp = os.path.join(common.WORK, "pipeline-replay-%d.json" % os.getpid())
    json.dump(case, open(tmp, "w"))
    p = pc.pvh(["show", tmp], check=False)
    print(p.stdout)
    os.remove(tmp)
    return 0

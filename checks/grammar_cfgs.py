#!/usr/bin/env python3
"""Writes spec/MC_PenneGrammar_<focus>_<tier>.cfg (and the trace configuration).

PenneGrammar.tla has one generator for the whole language; one TLC run cannot enumerate the whole
language to a useful depth (about 100 productions), so each *focus* enables a sub-language and explores
it exhaustively up to MaxNodes syntax nodes, with the remaining alphabets reduced to one representative.
The union of the foci must apply every production (checked from TLC's -coverage output by the checks).

    python3 checks/grammar_cfgs.py        regenerates the files (they are committed)
"""
import os

SPEC = os.path.join(os.path.dirname(os.path.dirname(os.path.abspath(__file__))), "spec")

D = ["Module", "Fn", "Head", "Const", "Struct", "Opaque", "Word", "Import", "Param", "Member"]
TYP = ["TyPrim", "TyNamed", "TyPtr", "TyView", "TyArray", "TyArrayC", "TySlice", "TyEndless", "TyArraylike"]
ST = ["Var", "Set", "Call", "BCall", "Loop", "Goto", "Label", "If", "Block"]
OPS = ["BinAdd", "BinMul", "BinBit", "BinShift", "Advance", "As", "Cast", "Un", "Paren"]
ATOMS = ["Len", "SizeOf", "Int", "Bool", "Char", "Str", "FCall", "BFCall", "Array", "Structural", "FieldFull",
         "FieldShort", "Deref", "Idx", "Mem"]
ALL = D + TYP + ST + OPS + ATOMS

ALL_PRIM = ["i8", "i16", "i32", "i64", "i128", "u8", "u16", "u32", "u64", "u128", "usize", "bool", "char8"]
ALL_BUILTINS = ["abort", "format", "print", "eprint", "file", "line", "dbg", "panic", "include_bytes"]


def sset(xs):
    return "{" + ", ".join('"%s"' % x for x in xs) + "}"


def nset(xs):
    return "{" + ", ".join(str(x) for x in xs) + "}"


BASE = {
    "Mode": '"mc"',
    "MaxNodes": 6,
    "Enabled": ALL,
    "FlagSets": "<- FlagSets_none",
    "VarForms": "<- VarForms_init",
    "FnNames": ["f"],
    "ParamNames": ["p"],
    "VarNames": ["x"],
    "LabelNames": ["l"],
    "GotoNames": ["l"],
    "MemberNames": ["m"],
    "TypeNames": ["S"],
    "ConstNames": ["N"],
    "Builtins": ["print"],
    "PrimTypes": ["u8"],
    "WordSizes": nset([8]),
    "Files": "<- Files_one",
    "IntLits": "<- IntLits_one",
    "CharLits": "<- CharLits_one",
    "StrLits": "<- StrLits_one",
    "ArrayLens": "<- ArrayLens_one",
    "AddOps": ["+"],
    "MulOps": ["*"],
    "BitOps": ["&"],
    "ShiftOps": ["<<"],
    "UnOps": ["-"],
    "CmpOps": ["=="],
    "MaxDecls": 1,
    "MaxParams": 0,
    "MaxMembers": 0,
    "MaxStmts": 0,
    "MaxBlock": 0,
    "MaxArgs": 0,
    "MaxElems": 0,
    "MaxFields": 0,
    "MaxSteps": 0,
    "Addrs": nset([0]),
    "SetAddrs": nset([0]),
    "LenAddrs": nset([0]),
    "TrailingCommas": "{FALSE}",
    "LooseMembers": "FALSE",
}

FOCI = {}


def focus(name, quick, thorough=None):
    FOCI[name] = {"quick": quick, "thorough": thorough or quick}


# --- declarations: every kind, every flag combination, parameter / member lists, two declarations in a row
DECL_EN = D + ["TyPrim", "Int", "Loop"]
focus("decls",
      dict(Enabled=DECL_EN, FlagSets="<- FlagSets_all", MaxDecls=2, MaxParams=2, MaxMembers=2, MaxStmts=1, MaxNodes=7,
           ParamNames=["p", "q"], MemberNames=["m", "n"], WordSizes=nset([1, 16]), Files="<- Files_all"),
      dict(Enabled=DECL_EN, FlagSets="<- FlagSets_all", MaxDecls=2, MaxParams=3, MaxMembers=3, MaxStmts=2, MaxNodes=9,
           ParamNames=["p", "q"], MemberNames=["m", "n"], WordSizes=nset([1, 16]), Files="<- Files_all"))
# --- word sizes; the struct member list without its last comma (tests/samples/valid/view_aliasing.pn is written that way)
focus("loose",
      dict(Enabled=["Module", "Struct", "Word", "Member", "TyPrim"], MaxMembers=2, MaxNodes=6, LooseMembers="TRUE",
           MemberNames=["m", "n"], WordSizes=nset([1, 2, 4, 8, 16])))
# --- types: every form in every context, nested
focus("types",
      dict(Enabled=["Module", "Head", "Param"] + TYP, MaxParams=1, MaxNodes=8),
      dict(Enabled=["Module", "Head", "Param"] + TYP, MaxParams=1, MaxNodes=9, PrimTypes=["u8", "bool"]))
# --- statements in sequence: all simple forms, expressions reduced to `x`
FLAT_EN = ["Module", "Fn", "Var", "Set", "Call", "BCall", "Loop", "Goto", "Label", "Deref", "TyPrim"]
focus("flat",
      dict(Enabled=FLAT_EN, MaxStmts=3, MaxArgs=1, MaxNodes=8, VarForms="<- VarForms_all", GotoNames=["l", "return"],
           SetAddrs=nset([0, 1])),
      dict(Enabled=FLAT_EN, MaxStmts=4, MaxArgs=2, MaxNodes=9, VarForms="<- VarForms_all", GotoNames=["l", "return"],
           SetAddrs=nset([0, 1, 2])))
# --- nesting of if / else / else-if / blocks
NEST_EN = ["Module", "Fn", "Goto", "Loop", "If", "Block", "Deref"]
focus("nest",
      dict(Enabled=NEST_EN, MaxStmts=3, MaxBlock=3, MaxNodes=8),
      dict(Enabled=NEST_EN, MaxStmts=3, MaxBlock=3, MaxNodes=10))
# --- expressions: operators, precedence and associativity patterns over the atoms `x` and `1`
EXPR_OPS = dict(AddOps=["+", "-"], MulOps=["*", "/", "%"], BitOps=["&", "|", "^"], ShiftOps=["<<", ">>"], UnOps=["-", "!"])
EXPR_EN = ["Module", "Fn"] + OPS + ["Deref", "Int", "TyPrim"]
focus("exprs",
      dict(Enabled=EXPR_EN, MaxNodes=8, Addrs=nset([0, 1]), AddOps=["+", "-"], MulOps=["*", "%"], BitOps=["&", "|"],
           ShiftOps=["<<"], UnOps=["-", "!"]),
      dict(Enabled=EXPR_EN, MaxNodes=9, Addrs=nset([0, 1]), AddOps=["+", "-"], MulOps=["*", "%"], BitOps=["&", "|"],
           ShiftOps=["<<"], UnOps=["-", "!"]))
# --- every operator spelling at small depth
focus("ops",
      dict(Enabled=["Module", "Fn"] + OPS + ["Deref", "TyPrim"], MaxNodes=6, Addrs=nset([0, 1]), **EXPR_OPS),
      dict(Enabled=["Module", "Fn"] + OPS + ["Deref", "TyPrim"], MaxNodes=7, Addrs=nset([0, 1]), **EXPR_OPS))
# --- calls, array and structure literals, reference chains: list shapes and nesting
LIST_EN = ["Module", "Fn", "FCall", "Array", "Structural", "FieldFull", "FieldShort", "Deref", "Idx", "Mem", "Len", "Int"]
focus("lists",
      dict(Enabled=LIST_EN, MaxArgs=2, MaxElems=2, MaxFields=2, MaxSteps=2, MaxNodes=7),
      dict(Enabled=LIST_EN, MaxArgs=3, MaxElems=3, MaxFields=2, MaxSteps=2, MaxNodes=8, MemberNames=["m", "n"]))
# --- optional trailing commas: [a, b,]  S { m: 1, }  f(a, b,)
focus("commas",
      dict(Enabled=LIST_EN, MaxArgs=2, MaxElems=2, MaxFields=2, MaxSteps=1, MaxNodes=6, TrailingCommas="{TRUE, FALSE}"),
      dict(Enabled=LIST_EN + ["Call"], MaxStmts=1, MaxArgs=2, MaxElems=2, MaxFields=1, MaxSteps=1, MaxNodes=7,
           TrailingCommas="{TRUE, FALSE}"))
# --- `f(x,x,x,x)`-like argument lists (long lists of small items)
focus("args",
      dict(Enabled=["Module", "Fn", "Call", "Deref", "Array"], MaxStmts=1, MaxArgs=6, MaxElems=6, MaxNodes=9),
      dict(Enabled=["Module", "Fn", "Call", "Deref", "Array"], MaxStmts=1, MaxArgs=7, MaxElems=7, MaxNodes=10))
# --- conditions: expressions inside a condition (no structure literal there), both comparison sides
COND_EN = ["Module", "Fn", "If", "Goto", "Block", "BinAdd", "BinBit", "Paren", "Deref", "Int", "FCall", "Un"]
focus("conds",
      dict(Enabled=COND_EN, MaxStmts=1, MaxArgs=1, MaxNodes=8, CmpOps=["==", "<"]),
      dict(Enabled=COND_EN + ["Len", "As", "TyPrim", "Idx"], MaxStmts=1, MaxArgs=1, MaxSteps=1, MaxNodes=9, CmpOps=["==", "<"]))
# --- atoms: every literal spelling, every primitive type, every builtin, address depths, comparison operators
ATOM_EN = ["Module", "Fn", "Const", "Int", "Bool", "Char", "Str", "Deref", "Len", "SizeOf", "As", "Un", "BFCall", "TyPrim",
           "TyNamed", "Import", "If", "Goto"]
focus("atoms",
      dict(Enabled=ATOM_EN, MaxArgs=1, MaxStmts=1, MaxNodes=5, IntLits="<- IntLits_all", CharLits="<- CharLits_all",
           StrLits="<- StrLits_all", PrimTypes=ALL_PRIM, Builtins=ALL_BUILTINS, Addrs=nset([0, 1, 2, 3]), UnOps=["-", "!"],
           Files="<- Files_all", CmpOps=["==", "!=", "<", ">", "<=", ">="]))
# --- repetitions (checked by checks/grammar_reps.py): chains of `as` casts, also after `cast`, with different types
focus("casts",
      dict(Enabled=["Module", "Fn", "As", "Cast", "Un", "Paren", "Deref", "TyPrim", "TyPtr"], MaxNodes=9,
           PrimTypes=["u8", "i32", "i64"], Addrs=nset([0, 1])))
# --- else-if chains (if .. else if .. else if .. [else ..])
focus("elseif",
      dict(Enabled=["Module", "Fn", "If", "Goto", "Block", "Deref"], MaxStmts=1, MaxBlock=0, MaxNodes=15))
# --- reference chains x.m[i].n, &&&x, &&x = ..
focus("steps",
      dict(Enabled=["Module", "Fn", "Set", "Deref", "Len", "Idx", "Mem", "Int"], MaxStmts=1, MaxSteps=3, MaxNodes=7,
           Addrs=nset([0, 3]), SetAddrs=nset([0, 1, 2]), MemberNames=["m", "n"]))
# --- lists of three and four: parameters, members, fields of a structure literal
focus("long",
      dict(Enabled=["Module", "Head", "Param", "Struct", "Word", "Member", "TyPrim", "Fn", "Structural", "FieldFull",
                    "FieldShort", "Int"],
           MaxParams=4, MaxMembers=4, MaxFields=4, MaxNodes=11, ParamNames=["p", "q"], MemberNames=["m", "n"]))
# --- string and character literals with bytes of every class (each control byte, 0x7f, >= 0x80, quote, backslash), written as
#     \xHH / simple escape / \u{..}, each followed by a hexadecimal digit character, by another character, and at the end
focus("strings",
      dict(Enabled=["Module", "Fn", "Str", "Char"], MaxNodes=3, StrLits="<- StrLits_bytes", CharLits="<- CharLits_bytes"))

# --- long string literals: an escape sequence (simple, \\xHH, \\u{..}, a raw multi-byte character) next to every column where a
#     writer of source text might wrap a line (64 .. 256), at the end of the literal and followed by more text
focus("longstr",
      dict(Enabled=["Module", "Fn", "Str"], MaxNodes=3, StrLits="<- StrLits_long"))

# --- a form the documents do not show but generation 1 accepts: the address operator inside |x|
focus("undoc",
      dict(Enabled=["Module", "Fn", "Len", "Idx", "Mem", "Int"], MaxNodes=5, MaxSteps=1, LenAddrs=nset([1, 2])))

# --- a member and a variable of the same name, references with an address (`m: &m`; seed C20d); no shorthand production
#     (this focus was first written by hand as spec/MC_PenneGrammar_fields_<tier>.cfg; the generator reproduces those files)
focus("fields",
      dict(Enabled=["Module", "Fn", "FCall", "Array", "Structural", "FieldFull", "Deref", "Idx", "Mem", "Len", "Int"],
           MaxArgs=2, MaxElems=2, MaxFields=2, MaxSteps=2, MaxNodes=7, VarNames=["m", "x"], Addrs=nset([1, 2])))

# --- the cell generator spec/MC_PenneGrammarCells.tla (dimension audit): sizes past 2^7, 2^8, 2^10 (2^16 for names and strings in
#     the thorough tier), nesting depths, the documented maxima, positions x atoms / types / statements, names, declaration order
CELLS = {
    "quick": dict(Families=["wide", "deep", "bound", "pos", "type", "stmt", "name", "order", "decl", "indent", "strlen"],
                  Sizes=nset([130, 270, 1100]), Depths=nset([130, 270]), IfDepths=nset([130]),
                  IndentDepths=nset([0, 1, 2, 3, 7, 8, 9, 15, 16, 17, 31, 32, 33, 64, 130]),
                  StrLens=nset([127, 128, 129, 255, 256, 257, 1023, 1024, 1025]), NameLogs=nset([7, 8, 10]),
                  OrderForms=nset(range(1, 29))),
    "thorough": dict(Families=["wide", "deep", "bound", "pos", "type", "stmt", "name", "order", "decl", "indent", "strlen"],
                     Sizes=nset([127, 128, 129, 130, 255, 256, 257, 270, 1023, 1024, 1025, 1100]), Depths=nset([127, 128, 129, 130, 255, 256, 257, 270, 1100]),
                     IfDepths=nset([127, 128, 129, 130, 270]),
                     IndentDepths=nset(list(range(0, 41)) + [63, 64, 65, 127, 128, 129, 130, 255, 256, 257]),
                     StrLens=nset([127, 128, 129, 255, 256, 257, 1023, 1024, 1025, 4095, 4096, 4097, 65535, 65536, 65537]),
                     NameLogs=nset([7, 8, 10, 12, 16]), OrderForms=nset(range(1, 29))),
}
CELL_ORDER = ["Families", "Sizes", "Depths", "IfDepths", "IndentDepths", "StrLens", "NameLogs", "OrderForms"]


def cells_config(tier):
    """configuration of MC_PenneGrammarCells.tla: the constants of PenneGrammar keep their base values (the cells do not use them)"""
    text = render(dict(BASE), ["CellsOK", "EmitCell"], spec="CSpec")
    lines = []
    for key in CELL_ORDER:
        v = CELLS[tier][key]
        lines.append("  %s = %s" % (key, sset(v) if isinstance(v, list) else v))
    return text.replace("CONSTANTS\n", "CONSTANTS\n" + "\n".join(lines) + "\n", 1)


ORDER = ["Mode", "MaxNodes", "Enabled", "FlagSets", "VarForms", "FnNames", "ParamNames", "VarNames", "LabelNames",
         "GotoNames", "MemberNames", "TypeNames", "ConstNames", "Builtins", "PrimTypes", "WordSizes", "Files", "IntLits",
         "CharLits", "StrLits", "ArrayLens", "AddOps", "MulOps", "BitOps", "ShiftOps", "UnOps", "CmpOps", "MaxDecls",
         "MaxParams", "MaxMembers", "MaxStmts", "MaxBlock", "MaxArgs", "MaxElems", "MaxFields", "MaxSteps", "Addrs",
         "SetAddrs", "LenAddrs", "TrailingCommas", "LooseMembers"]


def render(cfg, invariants, spec="Spec", extra=""):
    lines = ["SPECIFICATION " + spec, "CONSTANTS"]
    for key in ORDER:
        v = cfg[key]
        if isinstance(v, list):
            v = sset(v)
        if isinstance(v, str) and v.startswith("<-"):
            lines.append("  %s %s" % (key, v))
        else:
            lines.append("  %s = %s" % (key, v))
    if invariants:
        lines.append("INVARIANTS " + " ".join(invariants))
    lines.append("CHECK_DEADLOCK FALSE")
    if extra:
        lines.append(extra)
    return "\n".join(lines) + "\n"


def config(focus_name, tier):
    cfg = dict(BASE)
    cfg.update(FOCI[focus_name][tier])
    return cfg


def sim_config():
    """whole grammar, wide bounds, all alphabets: used with TLC's simulation mode for random larger modules"""
    cfg = dict(BASE)
    cfg.update(dict(Enabled=ALL, MaxNodes=60, MaxDecls=4, MaxParams=3, MaxMembers=3, MaxStmts=6, MaxBlock=4, MaxArgs=4,
                    MaxElems=4, MaxFields=3, MaxSteps=3, Addrs=nset([0, 1, 2]), SetAddrs=nset([0, 1]),
                    FlagSets="<- FlagSets_all", VarForms="<- VarForms_doc", FnNames=["f", "main"], ParamNames=["p", "q"],
                    VarNames=["x", "y"], MemberNames=["m", "n"], GotoNames=["l", "return"], IntLits="<- IntLits_all",
                    CharLits="<- CharLits_all", StrLits="<- StrLits_all", PrimTypes=ALL_PRIM, Builtins=ALL_BUILTINS,
                    WordSizes=nset([1, 2, 4, 8, 16]), Files="<- Files_all", ArrayLens="<- ArrayLens_all",
                    TrailingCommas="{TRUE, FALSE}", LooseMembers="TRUE", CmpOps=["==", "!=", "<", ">", "<=", ">="], **EXPR_OPS))
    return render(cfg, ["EmitCase"])


def main():
    for name in FOCI:
        for tier in ("quick", "thorough"):
            path = os.path.join(SPEC, "MC_PenneGrammar_%s_%s.cfg" % (name, tier))
            open(path, "w").write(render(config(name, tier), ["TreeOK", "ToksAgree", "EmitCase"]))
    # trace validation: closed alphabets complete, open alphabets and bounds unused
    tr = dict(BASE)
    tr.update(dict(Mode='"trace"', Enabled=ALL, MaxNodes=0, **EXPR_OPS))
    tr["CmpOps"] = ["==", "!=", "<", ">", "<=", ">="]
    tr["PrimTypes"] = ALL_PRIM
    tr["WordSizes"] = nset([1, 2, 4, 8, 16])
    for open_alphabet in ("FlagSets", "VarForms", "Files", "IntLits", "CharLits", "StrLits", "ArrayLens"):
        tr[open_alphabet] = "{}"      # taken from the recording in trace mode
    open(os.path.join(SPEC, "Trace_Grammar.cfg"), "w").write(render(tr, [], spec="TSpec", extra="POSTCONDITION Accepted"))
    open(os.path.join(SPEC, "MC_PenneGrammar_sim.cfg"), "w").write(sim_config())
    for tier in ("quick", "thorough"):
        open(os.path.join(SPEC, "MC_PenneGrammarCells_%s.cfg" % tier), "w").write(cells_config(tier))
    print("wrote %d configurations" % (2 * len(FOCI) + 4))


if __name__ == "__main__":
    main()

"""C11 -- top-level declarations are order-independent and must be well-formed.

Three parts, one evidence file:
  (a) containers  spec/Containers.tla  containment graphs x kinds x permutations, cycle codes, depths
  (b) positions   spec/Positions.tla   legality of every value type (nesting <= 3) in every declaration position
  (c) perms       spec/Containers.tla (functions as nodes) + Trace_Containers.tla: generated valid programs
                  under random permutations of their declarations: accepted alike, identical behaviour
"""
import json
import os

from . import common
from . import modules_containers, modules_positions, modules_perms
from .common import log

PARTS = [("containers", modules_containers), ("positions", modules_positions), ("perms", modules_perms)]

RULE = ("(a) TLC enumerates every digraph of by-value containment over constants, structures and words (<= 4 declarations; "
        "pointer references, self-references and words for <= 3; the chain of 6 plus one reference; 12 spellings of a reference) "
        "x kind assignment x permutation of the declarations, checks the "
        "model of found_container_1 / determine_container_depths / the depth sort against the rule 'accepted iff acyclic; "
        "E413/E415/E416 truthful of the declaration they are located on; depth = longest path; typed in topological order', "
        "and every case is compiled by the real front end. (b) TLC enumerates every value type up to nesting depth 3 in "
        "every declaration position (depth <= 2 also with pub / extern, depth <= 1 also as the second of two declarations), words, "
        "named lengths and duplicate names in every arrangement, and evaluates the documented legality rule; every cell is compiled "
        "as a minimal program. "
        "(c) generated valid programs are compiled and executed under random permutations of their declarations; TLC "
        "validates that all orders are accepted and behave identically. Random graphs (<= 8 declarations) are recorded with "
        "the contain/depth hook events and validated by TLC. Non-trivial = distinct inputs with at least one reference / "
        "compound type / permutation different from the identity.")

ASSUMPTIONS = [
    "one declaration per source line; line <-> declaration; recorded inputs are projected from the real parser's AST",
    "TLC's evaluation of the rules R (Containers.tla, Positions.tla) is the oracle; the algorithm model only yields MODEL-DRIFT notes",
    "which member of a cycle carries the diagnostic is not compared, only that the code is true of the declaration it is on",
    "cells of the legality table on which docs/errors.md and docs/features.md are silent are unconstrained (spec/UNCONSTRAINED-modules.md)",
    "codes outside the family under test (cascades such as E433 after a rejected constant) are ignored on rejected inputs",
]


def run(rep, tier, seed, selftest):
    selftest = selftest or tier == "thorough"
    common.build_harness()
    only = os.environ.get("C11_PARTS")
    st = {"states": 0, "transitions": 0, "cases": 0, "traces_ok": 0, "recorded": 0, "nontrivial": 0,
          "samples": [], "detail": {}, "selftests": {}}
    for name, mod in PARTS:
        if only and name not in only.split(","):
            continue
        mod.run(rep, tier, seed, selftest, st)
    if selftest:
        log("[selftest] %s" % json.dumps(st["selftests"]))
        for name, ok in st["selftests"].items():
            if not ok:
                raise common.ToolError("self-test %s failed: the binding does not detect a corrupted input" % name)
    coverage = {
        "states": st["states"],
        "transitions": st["transitions"],
        "traces_validated_against_impl": st["cases"] + st["traces_ok"],
        "samples": st["samples"],
        "evaluations": st["cases"] + st["recorded"],
        "distinct_nontrivial": st["nontrivial"],
        "rule": RULE,
        "exhaustive": True,
        "cases_replayed": st["cases"],
        "parts": st["detail"],
        "selftests": st["selftests"],
    }
    return rep.finish("model_checking", coverage, ASSUMPTIONS)


def replay(path):
    d = json.load(open(path))
    detail = d.get("detail", {})
    print("kind:", d.get("kind"), " key:", d.get("key"))
    part = detail.get("part", "")
    for name, mod in PARTS:
        if part.startswith(name):
            return mod.replay(detail)
    print(json.dumps(d, indent=1))
    return 0

"""C18 -- the command line tool reports outcomes faithfully (spec/Cli.tla).

TLC enumerates the full product of configurations with the observables the rule prescribes; every
selected configuration (quick: a pairwise cover plus a seeded sample; thorough: the full product) is
replayed against the real `penne` binary in a scratch directory under work/, with fake backends that
record their name, arguments and standard input and exit 0/1, and the real lli for `run`."""
import itertools
import json
import os
import random
import shutil
import glob
import re
import subprocess
from concurrent.futures import ThreadPoolExecutor

from . import common
from . import pipeline_common as pc
from . import pipeline_cliargs
from . import c18_session
from .common import log

FAKE = """#!/bin/sh
# fake backend: records its name and arguments, keeps what it is fed, exits as told
echo "$(basename "$0") $*" >> "$FAKE_LOG"
cat > "$FAKE_LOG.stdin"
case "$(basename "$0")" in fakelli-*) echo "fake-lli" ;; esac
[ "${FAKE_EXIT:-0}" = signal ] && kill -KILL $$
exit ${FAKE_EXIT:-0}
"""

# (the program prints two bytes that are no UTF-8 text, written with the documented \xHH escape: "passes its output through"
# is about bytes)
A_ONE = 'fn main() -> u8\n{\n\tprint!("hi \\xA3\\xFF\\n");\n\teprint!("ho\\n");\n\tvar r: u8 = 3;\n\treturn: r\n}\n'
A_TWO = 'import "b.pn";\n\nfn main() -> u8\n{\n\tprint!("hi \\xA3\\xFF\\n");\n\tvar r: u8 = b_three();\n\treturn: r\n}\n'
B_OK = "pub fn b_three() -> u8\n{\n\treturn: 3\n}\n"
BAD = {"lex": "\tvar q: u8 = 1 @;\n", "sem": "\tvar q: u8 = nothing;\n"}
PROG_OUT = b"hi \xa3\xff\n"
PARAMS = ["sub", "implicit", "verb", "color", "arrows", "wasm", "outdir", "flag", "env", "cfg", "bfail", "input", "nmods", "path", "high", "bsig"]


def canon(c):
    return " ".join("%s=%s" % (k, str(c[k]).lower() if isinstance(c[k], bool) else c[k]) for k in PARAMS)


def sources(c):
    """module name -> text; the fault (if any) is in the last module (the imported one when there are two)"""
    pre = "src/" if c["path"] == "nested" else ""
    if c["nmods"] == 1:
        a = A_ONE.replace("u8 = 3;", "u8 = 200;") if c.get("high") else A_ONE
        if c["input"] != "valid":
            a = a.replace("\tvar r: u8 = 3;\n", "\tvar r: u8 = 3;\n" + BAD[c["input"]])
        return [(pre + "a.pn", a)]
    b = B_OK
    if c["input"] != "valid":
        b = b.replace("{\n", "{\n" + BAD[c["input"]], 1)
    if c.get("high"):
        b = b.replace("return: 3", "return: 200")
    return [(pre + "a.pn", A_TWO), (pre + "b.pn", b)]


def arch():
    return os.uname().machine


def make_backends(root):
    """The fake backends are written ONCE, before any thread starts a process: a script that is still open for writing in
    a forked child of another thread cannot be executed (ETXTBSY), which made one configuration in ~2000 fail spuriously."""
    bindir = os.path.join(root, "bin")
    os.makedirs(bindir, exist_ok=True)
    for n in ["fake-flag", "fake-env", "fake-cfg", "clang", "fakelli-flag", "fakelli-env"]:
        path = os.path.join(bindir, n)
        with open(path, "w") as f:
            f.write(FAKE)
        os.chmod(path, 0o755)
    return bindir


def run_config(penne, root, idx, case):
    c = case["cfg"]
    d = os.path.join(root, "c%d" % idx)
    shutil.rmtree(d, ignore_errors=True)
    os.makedirs(d)
    mods = sources(c)
    for name, text in mods:
        path = os.path.join(d, name)
        os.makedirs(os.path.dirname(path), exist_ok=True)
        open(path, "w").write(text)
    args = [penne] + ([] if c["implicit"] else [c["sub"]])
    if c["verb"] == "silent":
        args.append("--silent")
    elif c["verb"] == "verbose":
        args.append("--verbose")
    if c["color"] != "default":
        args += ["--color", c["color"]]
    if c["arrows"] != "default":
        args += ["--arrows", c["arrows"]]
    if c["wasm"]:
        args.append("--wasm")
    if c["outdir"]:
        args += ["--out-dir", "outd"]
    env = {k: v for k, v in os.environ.items() if k not in ("PENNE_BACKEND", "PENNE_LLI", "RUST_BACKTRACE", "NO_COLOR")}
    env["PATH"] = os.path.join(root, "bin") + ":" + env.get("PATH", "")
    env["FAKE_LOG"] = os.path.join(d, "backend.log")
    env["RUST_BACKTRACE"] = "0"
    lli = c["sub"] == "run"
    if c["flag"]:
        args += ["--backend", "fakelli-flag" if lli else "fake-flag"]
    if c["env"]:
        env["PENNE_LLI" if lli else "PENNE_BACKEND"] = "fakelli-env" if lli else "fake-env"
    if c["cfg"]:
        open(os.path.join(d, "cfg.toml"), "w").write('backend = "fake-cfg"\n')
        args += ["--config", "cfg.toml"]
    if c["bfail"]:
        env["FAKE_EXIT"] = "signal" if c.get("bsig") else ("200" if c.get("high") else "7") if lli else "1"
    args += [name for name, _ in mods]
    try:
        p = subprocess.run(args, cwd=d, env=env, stdout=subprocess.PIPE, stderr=subprocess.PIPE, timeout=120)
        rc, out, err = p.returncode, p.stdout, p.stderr
    except subprocess.TimeoutExpired:
        rc, out, err = "timeout", b"", b""
    obs = {"rc": rc, "stdout": out.decode("utf-8", "replace"), "stderr": err.decode("utf-8", "replace"), "argv": args[1:],
           "stdout_hex": out.hex()}
    log_path = os.path.join(d, "backend.log")
    obs["backend_log"] = open(log_path).read().splitlines() if os.path.exists(log_path) else []
    obs["backend_stdin_head"] = open(log_path + ".stdin", errors="replace").read()[:200] if os.path.exists(log_path + ".stdin") else ""
    files = {}
    for dp, dn, fn in os.walk(d):
        for f in fn:
            rel = os.path.relpath(os.path.join(dp, f), d)
            if rel.endswith(".ll"):
                files[rel] = open(os.path.join(dp, f), errors="replace").read()
    obs["ll"] = files
    shutil.rmtree(d, ignore_errors=True)
    return obs


def compare(case, obs):
    """list of (clause, message): observed behaviour against the expectation TLC computed"""
    c, e = case["cfg"], case["expect"]
    out = []
    rc = obs["rc"]
    if rc == "timeout":
        return [("hang", "penne did not finish within 120 s")]
    if rc < 0 or rc == 101:
        return [("crash", "penne died (status %s): %s" % (rc, obs["stderr"][-300:]))]
    if (rc == 0) != e["exit_zero"]:
        out.append(("exit-status", "exit status %d, the rule demands %s" % (rc, "0" if e["exit_zero"] else "non-zero")))
    # backend selection and invocation
    names = {"flag": ("fake-flag", "fakelli-flag"), "env": ("fake-env", "fakelli-env"), "config": ("fake-cfg",), "default": ("clang",)}
    invoked = [ln.split(" ", 1)[0] for ln in obs["backend_log"]]
    real_lli = c["sub"] == "run" and e["backend"] == "default"
    if e["invoked"] and not real_lli:
        if len(invoked) != 1 or invoked[0] not in names[e["backend"]]:
            out.append(("backend", "backend taken from %s expected (%s), invoked: %s" % (e["backend"], "/".join(names[e["backend"]]), invoked)))
    else:
        if invoked:
            out.append(("backend", "no fake backend should have been invoked, but: %s" % invoked))
    mods = sources(c)
    # IR files under --out-dir
    if e["ll"]:
        for name, _ in mods:
            want = os.path.join("outd", name + ".ll")
            if want not in obs["ll"]:
                out.append(("out-dir", "%s missing; .ll files found: %s" % (want, sorted(obs["ll"]))))
            else:
                text = obs["ll"][want]
                fn = "@main" if name.endswith("a.pn") else "@b_three"
                if ("define" not in text) or (fn + "(") not in text or name not in text:
                    out.append(("out-dir", "%s does not hold the IR of module %s" % (want, name)))
                if e["wasm_triple"] and 'target triple = "wasm32-unknown-wasi"' not in text:
                    trip = [ln for ln in text.splitlines() if ln.startswith("target triple")]
                    out.append(("wasm-triple", "--wasm: %s has %s" % (want, trip[:1])))
        stray = [f for f in obs["ll"] if not f.startswith("outd" + os.sep)]
        if stray:
            out.append(("out-dir", ".ll files outside the out dir: %s" % stray))
    # diagnostics
    text_all = obs["stdout"] + obs["stderr"]
    if e["diag"]:
        tag = "[E%d]" % e["diag"]
        if tag not in obs["stderr"] and tag not in obs["stdout"]:
            out.append(("diagnostics", "failing compilation without a rendered %s diagnostic" % tag))
        faulty = mods[-1][0]
        if faulty not in text_all:
            out.append(("diagnostics", "the diagnostic does not name the faulty module %s" % faulty))
    if e["no_ansi"] and "\x1b" in text_all:
        out.append(("color-never", "ESC bytes in the output under --color=never"))
    if e["ascii"] and not e["exit_zero"] and any(ord(ch) > 127 for ch in obs["stderr"]):
        bad = sorted({ch for ch in obs["stderr"] if ord(ch) > 127})[:6]
        out.append(("arrows-ascii", "non-ASCII characters %s in the diagnostics under --arrows=ascii" % bad))
    if e["silent"]:
        visible = obs["stdout"]
        if c["sub"] == "run":
            for prog in (PROG_OUT.decode("utf-8", "replace"), "fake-lli\n"):
                visible = visible.replace(prog, "", 1)
        if visible.strip():
            out.append(("silent", "--silent but stdout shows: %r" % visible.strip()[:120]))
    # run: program output passes through, exit status is shown
    if c["sub"] == "run" and e["invoked"]:
        prog = PROG_OUT if real_lli else b"fake-lli\n"
        if prog not in bytes.fromhex(obs.get("stdout_hex", "")):
            out.append(("run-output", "the program's output %r is not passed through byte for byte" % prog))
        # ... and so is what the program writes to its standard error (one module: `eprint!("ho\n")` in main)
        if real_lli and c["nmods"] == 1 and "ho\n" not in obs["stderr"]:
            out.append(("run-output", "the program's standard error output 'ho' is not passed through"))
        if e["shows_status"] and ("Output: %d" % e["run_status"]) not in obs["stdout"]:
            out.append(("run-status", "exit status %d of the program is not shown: %r" % (e["run_status"], obs["stdout"][-120:])))
    # build: arguments of the backend
    if e["out_ext"] != "none" and obs["backend_log"]:
        argv = obs["backend_log"][0].split(" ")[1:]
        ext = "wasm" if e["out_ext"] == "wasm" else arch()
        want_out = os.path.join("outd", "a." + ext) if c["outdir"] else "a." + ext
        if argv[:3] != ["-x", "ir", "-"] or "-o" not in argv or argv[argv.index("-o") + 1] != want_out:
            out.append(("backend-args", "backend arguments %s, expected -x ir - -o %s" % (argv, want_out)))
        if "define" not in obs["backend_stdin_head"] and "ModuleID" not in obs["backend_stdin_head"]:
            out.append(("backend-args", "the backend did not receive IR on its standard input"))
    return out


ANSI = re.compile(r"\x1b\[[0-9;]*m")
TAG = re.compile(r"\[(E\d{3}|L\d{4})\]")
LINT_CANDIDATES = ["examples/collatz.pn", "examples/loop_in_branch.pn", "tests/samples/valid/multiple_lints.pn",
                   "tests/samples/valid/unintentional_integer_truncation.pn"]


def catalogue_samples():
    """sample files of the tree under test: every invalid sample, then the files that raise lints (relative paths)"""
    inv = sorted(glob.glob(os.path.join(common.REPO, "tests", "samples", "invalid", "*.pn")))
    inv = [os.path.relpath(f, common.REPO) for f in inv]
    lint = [f for f in LINT_CANDIDATES if os.path.exists(os.path.join(common.REPO, f))]
    return inv, lint


def run_catalogue(penne, root, idx, cfg, rel):
    """one catalogue configuration: `penne SUB --out-dir <scratch> OPTIONS rel` with the repository as working directory
    (samples may import their neighbours); nothing is written into the repository (assert_same_tree checks)"""
    d = os.path.join(root, "d%d" % idx)
    os.makedirs(d, exist_ok=True)
    args = [penne, cfg["sub"], "--out-dir", d]
    if cfg["verb"] == "verbose":
        args.append("--verbose")
    if cfg["color"] != "default":
        args += ["--color", cfg["color"]]
    if cfg["arrows"] != "default":
        args += ["--arrows", cfg["arrows"]]
    args.append(rel)
    env = {k: v for k, v in os.environ.items() if k not in ("PENNE_BACKEND", "PENNE_LLI", "RUST_BACKTRACE", "NO_COLOR")}
    env["PATH"] = os.path.join(root, "bin") + ":" + env.get("PATH", "")
    env["FAKE_LOG"] = os.path.join(d, "backend.log")
    env["RUST_BACKTRACE"] = "0"
    try:
        p = subprocess.run(args, cwd=common.REPO, env=env, stdout=subprocess.PIPE, stderr=subprocess.PIPE, timeout=60)
        rc, out, err = p.returncode, p.stdout, p.stderr
    except subprocess.TimeoutExpired:
        rc, out, err = "timeout", b"", b""
    shutil.rmtree(d, ignore_errors=True)
    text = out.decode("utf-8", "replace") + err.decode("utf-8", "replace")
    return {"rc": rc, "text": text, "argv": args[1:2] + args[4:]}


def compare_catalogue(case, obs, plain_tags, source):
    """clauses of CliDiag.tla violated by one observation"""
    e = case["expect"]
    out = []
    if obs["rc"] == "timeout" or obs["rc"] < 0 or obs["rc"] == 101:
        return None                                   # a hang / crash of the compiler is C02's business, not a rendering matter
    tags = sorted(set(TAG.findall(ANSI.sub("", obs["text"]))))
    if e["nonzero"] and obs["rc"] == 0:
        out.append(("exit-status", "an invalid sample ends with status 0"))
    if e["same_codes"] and tags != plain_tags:
        out.append(("diagnostics", "codes %s shown, without options: %s" % (tags, plain_tags)))
    if e["no_ansi"] and "\x1b" in obs["text"]:
        where = next(ln for ln in obs["text"].splitlines() if "\x1b" in ln)
        out.append(("color-never", "ESC bytes in the output under --color=never: %r" % where[:160]))
    if e["ascii"]:
        # --verbose dumps the rebuilt intermediate code, which marks indentation with U+00A6 and poisoned nodes with U+2620
        # (stdout.rs dump_code, rebuilder.rs): that is no drawing of arrows in error messages
        dump_marks = "\u00a6\u2620" if case["cfg"].get("verb") == "verbose" else ""
        foreign = sorted({ch for ch in ANSI.sub("", obs["text"]) if ord(ch) > 127 and ch not in source and ch != "\ufffd" and ch not in dump_marks})
        if foreign:
            out.append(("arrows-ascii", "non-ASCII characters %s (not part of the source) under --arrows=ascii" % foreign[:6]))
    return out


def catalogue(rep, penne, root, tier, findings):
    """CliDiag.tla: every sample x subcommand x --color x --arrows (x --verbose in the thorough tier)"""
    inv, lint = catalogue_samples()
    if len(inv) < 50:
        raise common.ToolError("only %d invalid samples found in %s" % (len(inv), common.REPO))
    # the reference run of every sample (emit, no options) says which codes it shows: a sample that shows an error code is
    # a failing compilation (samples 1..NInvalid of CliDiag.tla), one that only shows lint codes compiles (the others)
    files = inv + lint
    plain_cfg = {"sub": "emit", "color": "default", "arrows": "default", "verb": "default"}
    with ThreadPoolExecutor(max_workers=int(pc.THREADS)) as ex:
        ref = list(ex.map(lambda k: run_catalogue(penne, root, 100000 + k, plain_cfg, files[k]), range(len(files))))
    def ref_tags(o):
        if o["rc"] == "timeout" or o["rc"] < 0 or o["rc"] == 101:
            return []
        return sorted(set(TAG.findall(ANSI.sub("", o["text"]))))
    tagged = [(f, ref_tags(o)) for f, o in zip(files, ref)]
    failing = [(f, t) for f, t in tagged if any(x.startswith("E") for x in t)]
    lints = [(f, t) for f, t in tagged if t and not any(x.startswith("E") for x in t)]
    undiagnosed = [f for f, t in tagged if not t]
    samples = [f for f, _ in failing + lints]
    plain = {k + 1: t for k, (_, t) in enumerate(failing + lints)}
    r = common.tlc("MC_CliDiag", "MC_CliDiag_%s.cfg" % tier, workers=pc.TLC_WORKERS, timeout=900, heap="4g",
                   env={"CLI_SAMPLES": str(len(samples)), "CLI_INVALID": str(len(failing))},
                   tag="pipeline-clidiag-%d" % os.getpid(), keep_output=False)
    if not r.ok or not r.cases:
        raise common.ToolError("CliDiag.tla: %s" % (r.violated or "no cases emitted"))
    cases = sorted(r.cases, key=lambda cs: json.dumps(cs["cfg"], sort_keys=True))
    log("[tlc] MC_CliDiag/MC_CliDiag_%s.cfg: %d catalogue configurations (%d samples: %d show an error code, %d only lint codes; "
        "%d files without any diagnostic or crashing are left out), %.1fs" %
        (tier, len(cases), len(samples), len(failing), len(lints), len(undiagnosed), r.wall))
    sources_ = [open(os.path.join(common.REPO, f), errors="replace").read() for f in samples]
    with ThreadPoolExecutor(max_workers=int(pc.THREADS)) as ex:
        obs = list(ex.map(lambda k: run_catalogue(penne, root, k, cases[k]["cfg"], samples[cases[k]["cfg"]["sample"] - 1]),
                          range(len(cases))))
    judged = agree = skipped = 0
    codes = set()
    never = 0
    for cs, o in zip(cases, obs):
        c = cs["cfg"]
        tags = plain.get(c["sample"])
        if not tags:
            skipped += 1
            continue
        problems = compare_catalogue(cs, o, tags, sources_[c["sample"] - 1])
        if problems is None:
            skipped += 1
            continue
        judged += 1
        codes.update(tags)
        never += 1 if cs["expect"]["no_ansi"] else 0
        if not problems:
            agree += 1
        for clause, msg in problems:
            rel = samples[c["sample"] - 1]
            findings.add((clause,), "cli", "catalogue/%s | %s sub=%s color=%s arrows=%s verb=%s" % (clause, rel, c["sub"], c["color"], c["arrows"], c["verb"]),
                         {"part": "catalogue", "case": cs, "sample": rel, "observed": {"rc": o["rc"], "argv": o["argv"], "text": o["text"][-1500:]},
                          "message": msg, "how": "bin/check C18 --replay <this file>"})
    log("[replay] catalogue: %d configurations judged (%d skipped: compiler crash or no diagnostic), %d agree with CliDiag on every clause; "
        "%d distinct codes rendered, %d runs under --color=never" % (judged, skipped, agree, len(codes), never))
    if judged < 1000 or len(codes) < 60:
        raise common.ToolError("catalogue pass is vacuous: %d configurations, %d codes" % (judged, len(codes)))
    return {"configurations": len(cases), "judged": judged, "skipped": skipped, "agree": agree, "samples": len(samples),
            "samples_with_error_code": len(failing), "samples_with_lints_only": len(lints), "files_left_out": undiagnosed[:20],
            "distinct_codes": len(codes), "color_never_runs": never, "tlc_states": r.distinct}


def pairwise(cases, rnd):
    """greedy cover of all value pairs that occur in the (constrained) product"""
    need = set()
    for cs in cases:
        c = cs["cfg"]
        for a, b in itertools.combinations(PARAMS, 2):
            need.add((a, c[a], b, c[b]))
    order = list(range(len(cases)))
    rnd.shuffle(order)
    chosen = []
    while need:
        best, gain = None, 0
        for i in order[:4000]:
            c = cases[i]["cfg"]
            g = sum(1 for a, b in itertools.combinations(PARAMS, 2) if (a, c[a], b, c[b]) in need)
            if g > gain:
                best, gain = i, g
        if best is None:
            rnd.shuffle(order)
            continue
        chosen.append(best)
        c = cases[best]["cfg"]
        for a, b in itertools.combinations(PARAMS, 2):
            need.discard((a, c[a], b, c[b]))
        rnd.shuffle(order)
    return chosen


def run(rep, tier, seed, selftest):
    selftest = selftest or tier == "thorough"
    state0 = pc.repo_state()
    penne = pc.build_penne()
    if subprocess.run(["which", "lli"], stdout=subprocess.PIPE).returncode != 0:
        raise common.ToolError("lli not found on PATH")
    r = common.tlc("Cli", "MC_Cli.cfg", workers=pc.TLC_WORKERS, timeout=900, heap="4g",
                   tag="pipeline-cli-%d" % os.getpid(), keep_output=False)
    log("[tlc] Cli/MC_Cli.cfg: %d configurations (%d states generated), %.1fs, %s" %
        (len(r.cases), r.generated, r.wall, "Sane holds" if r.ok else "INVARIANT %s VIOLATED" % r.violated))
    if not r.ok:
        raise common.ToolError("Cli.tla: the rule is not sane (%s)" % r.violated)
    cases = sorted(r.cases, key=lambda cs: canon(cs["cfg"]))
    rnd = random.Random(seed)
    if tier == "quick":
        idx = pairwise(cases, rnd)
        n_pair = len(idx)
        rest = [i for i in range(len(cases)) if i not in set(idx)]
        rnd.shuffle(rest)
        idx = sorted(set(idx + rest[:900]))
    else:
        idx = list(range(len(cases)))
        n_pair = 0
    root = os.path.join(common.WORK, "pipeline-cli-%d" % os.getpid())
    shutil.rmtree(root, ignore_errors=True)
    os.makedirs(root)
    make_backends(root)
    with ThreadPoolExecutor(max_workers=int(pc.THREADS)) as ex:
        observations = list(ex.map(lambda i: run_config(penne, root, i, cases[i]), idx))
    findings = pc.Findings()
    agree = 0
    nontrivial = set()
    for i, obs in zip(idx, observations):
        case = cases[i]
        if obs["rc"] == "timeout":
            obs = run_config(penne, root, i, case)
        problems = compare(case, obs)
        nontrivial.add(canon(case["cfg"]))
        if not problems:
            agree += 1
        for clause, msg in problems:
            findings.add((clause,), "cli", "%s | %s" % (clause, canon(case["cfg"])),
                         {"case": case, "observed": {k: (v if not isinstance(v, str) else v[-800:]) for k, v in obs.items() if k != "ll"},
                          "ll_files": sorted(obs["ll"]), "message": msg, "how": "bin/check C18 --replay <this file>"})
    cat = catalogue(rep, penne, root, tier, findings)
    # third part (CliArgs.tla): -o, backend / link arguments by flag and config file, broken config files and inputs, out dirs, fuzz
    argspart = pipeline_cliargs.run_part(penne, root, tier, findings, selftest)
    for note in argspart["notes"]:
        rep.note_drift(note)
    # fourth part (CliSession.tla): several emissions into ONE output directory (what an invocation may take from the directory it finds)
    sesspart = c18_session.run_part(penne, root, tier, findings, selftest, seed)
    # classified, not part of the product: an absolute input path (the property quantifies over relative ones)
    probe = os.path.join(root, "abs")
    os.makedirs(probe)
    open(os.path.join(probe, "a.pn"), "w").write(A_ONE)
    subprocess.run([penne, "emit", "--silent", "--out-dir", "outd", os.path.join(probe, "a.pn")], cwd=probe,
                   stdout=subprocess.PIPE, stderr=subprocess.PIPE, timeout=120)
    if os.path.exists(os.path.join(probe, "a.pn.ll")) and not os.path.exists(os.path.join(probe, "outd")):
        rep.note_drift("emit --out-dir D /abs/a.pn writes /abs/a.pn.ll next to the source (PathBuf::push of an absolute path); "
                       "absolute paths are outside the property's quantifier")
    strict_silent = sum(1 for i, o in zip(idx, observations) if cases[i]["expect"]["silent"] and cases[i]["cfg"]["sub"] != "run" and o["stdout"] != "")
    if strict_silent:
        rep.note_drift("%d --silent configurations print line breaks on stdout (main() prints two after a failure)" % strict_silent)
    shutil.rmtree(root, ignore_errors=True)
    pc.assert_same_tree(state0)
    findings.flush(rep)
    for sg, n_ in sorted(findings.counts().items(), key=lambda x: -x[1]):
        log("[findings] %5d x %s" % (n_, sg))
    log("[replay] %d configurations replayed on the real binary (%s): %d agree with the rule on every clause" %
        (len(idx), "pairwise cover of %d + seeded sample" % n_pair if tier == "quick" else "full product", agree))
    self_results = {}
    if selftest:
        # corrupt expectations / observations: every clause must notice
        i0 = next(k for k, i in enumerate(idx) if cases[i]["expect"]["exit_zero"] and cases[i]["expect"]["ll"]
                  and cases[i]["cfg"]["sub"] == "build" and not compare(cases[i], observations[k]))
        case, obs = cases[idx[i0]], observations[i0]
        flipped = json.loads(json.dumps(case))
        flipped["expect"]["exit_zero"] = False
        self_results["flipped_exit_status_detected"] = any(cl == "exit-status" for cl, _ in compare(flipped, obs))
        other = json.loads(json.dumps(case))
        other["expect"]["backend"] = "env" if case["expect"]["backend"] != "env" else "flag"
        self_results["wrong_backend_detected"] = any(cl == "backend" for cl, _ in compare(other, obs))
        lost = dict(obs, ll={})
        self_results["missing_ll_file_detected"] = any(cl == "out-dir" for cl, _ in compare(case, lost))
        self_results.update(argspart["selftests"])
        self_results.update(sesspart["selftests"])
        log("[selftest] %s" % json.dumps(self_results))
        for name, ok in self_results.items():
            if not ok:
                raise common.ToolError("self-test %s failed" % name)
    sample_idx = [idx[0], idx[len(idx) // 2], idx[-1]]
    coverage = {
        "states": r.distinct + sesspart["states"],
        "transitions": r.generated + sesspart["transitions"],
        "traces_validated_against_impl": len(idx) + argspart["configurations"] + argspart["fuzz_configurations"] + sesspart["behaviours"] + sesspart["recorded_sessions"],
        "samples": [{"cfg": canon(cases[i]["cfg"]), "expect": cases[i]["expect"]} for i in sample_idx],
        "evaluations": len(idx) + argspart["configurations"] + argspart["fuzz_configurations"] + sesspart["behaviours"],
        "distinct_nontrivial": len(nontrivial) + argspart["configurations"] + argspart["fuzz_configurations"] + sesspart["behaviours_reusing_a_directory"],
        "rule": "TLC enumerates the full product of configurations of Cli.tla (%d) with the observables R prescribes; %s are replayed "
                "against the real binary. Third part (CliArgs.tla): every base invocation with at most 2 (quick) / 3 (thorough) deviations among -o, "
                "--backend-args / --link-args by flag and / or config file, wasm = true and broken config files, 1-3 input files in both orders, "
                "unreadable inputs, out dirs that are missing / deep / a regular file, scheme paths, the same module twice, --color never under "
                "NO_COLOR / TERM=dumb, plus the full product of `penne fuzz tokens`; all replayed. Fourth part (CliSession.tla): every sequence of up to 4 (quick) / 5 (thorough) steps "
                "among emit, to one step less also build with the recording backend (both modules / the imported one, native / --wasm), edit of ONE source text, a foreign file planted at the path of an IR file, removal of an IR "
                "file, all in one output directory; TLC checks that the rule makes an emission a function of sources and target alone, every behaviour is replayed and "
                "after each emission every IR file is compared with what the binary writes into an empty directory; "
                "40 (400) random sessions of 25 steps are recorded from the real binary and validated by TLC against the same specification (Trace_CliSession.tla). "
                "Non-trivial = distinct configurations replayed + behaviours that reuse a directory holding files." %
                (len(cases), "a pairwise cover plus a seeded sample" if tier == "quick" else "all of them"),
        "exhaustive": tier != "quick",
        "configurations_total": len(cases),
        "configurations_replayed": len(idx),
        "pairwise_cover": n_pair,
        "agree": agree,
        "clauses_violated": findings.counts(),
        "catalogue": cat,
        "arguments": argspart,
        "sessions": sesspart,
        "selftests": self_results,
    }
    assumptions = [
        "fake backends are shell scripts on PATH that record name/arguments/stdin and exit 0 or 1 (7 for a fake lli); the default backend "
        "of `build` is a fake `clang` first on PATH, the default backend of `run` is the real lli",
        "inputs use relative and nested relative paths (what the property quantifies over); absolute paths are not part of the product",
        "the optimised build (cargo build --release --features alpha,llvm-sys) is the binary under test",
        "--silent is read as 'no visible output on stdout' (line breaks and the program's own output under `run` are not counted)",
    ]
    return rep.finish("model_checking", coverage, assumptions)


def replay(path):
    d = json.load(open(path))
    print("key:    ", d["key"])
    print("message:", d["detail"].get("message"))
    case = d["detail"]["case"]
    print("expect: ", json.dumps(case["expect"]))
    penne = pc.build_penne()
    if d["detail"].get("part") in ("args", "fuzz"):
        return pipeline_cliargs.replay(d["detail"], penne)
    if d["detail"].get("part") == "catalogue":
        root = os.path.join(common.WORK, "pipeline-cli-replay-%d" % os.getpid())
        os.makedirs(root, exist_ok=True)
        make_backends(root)
        rel = d["detail"]["sample"]
        plain = run_catalogue(penne, root, 0, dict(case["cfg"], sub="emit", color="default", arrows="default", verb="default"), rel)
        obs = run_catalogue(penne, root, 1, case["cfg"], rel)
        shutil.rmtree(root, ignore_errors=True)
        print("argv:   ", " ".join(obs["argv"]), "(working directory: the repository)")
        print("status: ", obs["rc"])
        print("output:\n" + obs["text"][-2500:])
        tags = sorted(set(TAG.findall(ANSI.sub("", plain["text"]))))
        source = open(os.path.join(common.REPO, rel), errors="replace").read()
        for clause, msg in (compare_catalogue(case, obs, tags, source) or []):
            print("DISCREPANCY %s: %s" % (clause, msg))
        return 0
    root = os.path.join(common.WORK, "pipeline-cli-replay-%d" % os.getpid())
    os.makedirs(root, exist_ok=True)
    make_backends(root)
    obs = run_config(penne, root, 0, case)
    shutil.rmtree(root, ignore_errors=True)
    print("argv:   ", " ".join(obs["argv"]))
    print("status: ", obs["rc"])
    print("backend:", obs["backend_log"])
    print("stdout:\n" + obs["stdout"][-1500:])
    print("stderr:\n" + obs["stderr"][-1500:])
    print(".ll files:", sorted(obs["ll"]))
    for clause, msg in compare(case, obs):
        print("DISCREPANCY %s: %s" % (clause, msg))
    return 0

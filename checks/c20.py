"""C20 -- rebuilt source parses back to the same tree (spec/PenneGrammar.tla supplies the modules and their trees).

For every TLC-derived module without builtin calls and every corpus file that parses without error:
    Norm(Parse(Rebuild(Parse(src)))) = Norm(ast)          (ast = the module's own tree from the specification;
                                                           for corpus files: Parse(src) projected)
    Rebuild(Parse(Rebuild(Parse(src)))) = Rebuild(Parse(src))   byte for byte
Replay only (the rebuilder has no interesting internal state).  TLC's -coverage output guarantees that every
production -- hence every node kind and every printing arm of the rebuilder -- occurs in the derived modules.
"""
import json
import os
import random
import re

from . import common, grammar_common as gc, grammar_reps
from .c16 import Findings
from .common import log


def has_builtin(case):
    return any(t["k"] == "bi" for t in case["toks"])


def tree_has_builtin(t):
    if isinstance(t, dict):
        return t.get("builtin") is True or any(tree_has_builtin(v) for v in t.values())
    if isinstance(t, list):
        return any(tree_has_builtin(v) for v in t)
    return False


MARKER = re.compile(r"[A-Za-z_0-9!]*[#\u2620][#?!A-Za-z_0-9\u2620]*")


def unparsable_signatures(text, codes):
    """what in the rebuilt text is not Penne: one signature per extra-syntactical marker of the rebuilder (names and
    word sizes abstracted), so that the keys form a small fixed set"""
    marks = set()
    for m in MARKER.findall(text or ""):
        g = re.sub(r"^struct#\??#?\w*", "struct#NAME", m)
        if g == m:
            g = re.sub(r"^word\d+#\w*", "wordN#NAME", m)
        if g == m:
            g = re.sub(r"^\w+#\?", "NAME#?", m)
        if g == m:
            g = re.sub(r"^\w+#(\d+)", "NAME#ID", m)
        marks.add(g)
    if marks:
        return ["marker %s (codes %s)" % (m, sorted(set(codes or []))) for m in sorted(marks)]
    if (text or "").strip() == "":
        return ["a module without declarations is rebuilt as zero-byte text (codes %s)" % sorted(set(codes or []))]
    return None


def first_text_diff(a, b):
    la, lb = (a or "").split("\n"), (b or "").split("\n")
    for x, y in zip(la, lb):
        if x != y:
            return "%r -> %r" % (x.strip(), y.strip())
    return "length %d -> %d lines" % (len(la), len(lb))


def judge(what, exp, rt, fnd, stats, ex):
    """what: canonical text of the input; exp: the oracle tree; rt: the round-trip observation"""
    o = rt["o"]
    stats["evaluations"] += 1
    if o == "rejected0":
        stats["source_rejected"] += 1
        return
    if o == "panic":
        fnd.add("panic", gc.panic_signature(rt.get("panic")), ex("parse/rebuild panicked"))
        return
    if o == "rebuild-failed":
        fnd.add("rebuild-error", str(rt.get("error"))[:120], ex("the rebuilder returned an error"))
        return
    n_exp = gc.norm20(exp)
    n_t0 = gc.norm20(rt["t0"])
    if n_t0 != n_exp:
        # The first parse is not the module's own tree: a defect of the PARSER, which C16 reports (kind alpha-tree; e.g. an array
        # length of 2^64 parsed as 0).  The property speaks of `an error-free parsed module`: the round trip of that module is
        # judged against its first parse, or a parser defect would be reported here as a defect of the rebuilder.
        stats["first_parse_differs"] += 1
        n_exp = n_t0
    if o == "rejected1":
        for sig in unparsable_signatures(rt.get("text1"), rt.get("codes")) or ["codes %s: %s" % (rt.get("codes"), what)]:
            fnd.add("rebuild-unparsable", sig, ex("the rebuilt text does not parse"))
        stats["unparsable"] += 1
        return
    t1 = rt["t0"] if rt["t1"] == "=t0" else rt["t1"]
    if gc.norm20(t1) != n_exp:
        fnd.add("rebuild-tree", gc.tree_diff_key(n_exp, gc.norm20(t1)), ex("parsing the rebuilt text gives a different tree"))
    else:
        stats["tree_preserved"] += 1
    if rt.get("stable") is not True:
        fnd.add("rebuild-unstable", first_text_diff(rt.get("text1"), rt.get("text2")) if "text2" in rt else str(rt.get("text2_error")),
                ex("a second rebuild is not byte-identical"))
    else:
        stats["stable"] += 1


def run(rep, tier, seed, selftest):
    selftest = selftest or tier == "thorough"
    common.build_harness()
    os.makedirs(common.WORK, exist_ok=True)
    d = gc.derive(tier)
    missing = gc.production_coverage(d["coverage"])
    if missing:
        raise common.ToolError("vacuity: productions never applied by any focus: %s" % missing)
    fnd = Findings()
    stats = {k: 0 for k in ("evaluations", "source_rejected", "first_parse_differs", "unparsable", "tree_preserved", "stable")}
    # the modules without builtin calls, streamed into their own file
    cases_path = os.path.join(common.WORK, "C20-cases.ndjson")
    obs_path = os.path.join(common.WORK, "C20-obs.ndjson")
    judged = skipped_builtin = 0
    with open(cases_path, "w") as out:
        for c in gc.iter_cases(d["cases_path"]):
            if has_builtin(c):
                skipped_builtin += 1
            else:
                out.write(json.dumps(c, separators=(",", ":")) + "\n")
                judged += 1
    killers = gc.pvh_cases("roundtrip", cases_path, obs_path, [seed])
    rnd = random.Random(seed)
    sample_ids = set(rnd.sample(range(judged), min(4, judged)))
    samples = []
    kinds_ok = {}
    byte_classes = set()
    all_kinds = {}
    nontriv = 0
    n = 0
    first_ok = None
    reps = {}
    with open(obs_path) as f:
        for idx, (case, line) in enumerate(zip(gc.iter_cases(cases_path), f)):
            rt = json.loads(line)
            n += 1
            if "toolerror" in rt:
                raise common.ToolError("renderer: %s" % rt["toolerror"])
            if rt["id"] != case["id"]:
                raise common.ToolError("roundtrip output out of order")
            before = stats["tree_preserved"]
            judge(gc.shape_key(case), case["tree"], rt, fnd, stats,
                  lambda msg, case=case, rt=rt: {"case": {"id": case["id"], "focus": case["focus"], "cell": case.get("cell"), "toks": case["toks"], "tree": case["tree"]},
                                                 "source_tokens": gc.canon(case)[:4000], "message": msg,
                                                 "observed": {k: v for k, v in rt.items() if k != "t0"}})
            grammar_reps.measure(case, reps)
            ck = gc.node_kinds(case["tree"])
            for kk, vv in ck.items():
                all_kinds[kk] = all_kinds.get(kk, 0) + vv
            if stats["tree_preserved"] > before:
                literal_bytes(case["tree"], byte_classes)
                for kk, vv in ck.items():
                    kinds_ok[kk] = kinds_ok.get(kk, 0) + vv
                if first_ok is None and rt.get("stable") is True:
                    first_ok = (case, rt)
            if sum(ck.values()) >= 4:
                nontriv += 1
            if idx in sample_ids:
                samples.append({"source_tokens": gc.canon(case), "roundtrip": {k: v for k, v in rt.items() if k not in ("t0",)}})
    if n != judged:
        raise common.ToolError("roundtrip returned %d observations for %d cases" % (n, judged))
    derived_bytes = set()
    for c in gc.iter_cases(cases_path):
        if c["focus"] == "strings":
            literal_bytes(c["tree"], derived_bytes)
    need = set(range(0, 32)) | {34, 39, 92, 127, 128, 163, 255}
    if not need <= derived_bytes:
        raise common.ToolError("vacuity: no derived string/char literal contains the bytes %s" % sorted(need - derived_bytes))
    log("[replay] %d derived modules (without builtin calls) parsed, rebuilt, parsed, rebuilt: %d trees preserved, %d stable, %d rebuilt texts do not parse" %
        (judged, stats["tree_preserved"], stats["stable"], stats["unparsable"]))
    if stats["first_parse_differs"]:
        rep.note_drift("%d derived modules are parsed by the first generation into a tree that is not their own (reported by C16 as alpha-tree); "
                       "their round trip was judged against the first parse" % stats["first_parse_differs"])
    # ---- corpus ---------------------------------------------------------------------------------------
    corpus = gc.run_corpus("C20")
    cstats = {"files": len(corpus), "with_builtin_calls": 0, "rejected_by_parser": 0, "judged": 0}
    before = dict(stats)
    for o in corpus:
        if "unreadable" in o:
            raise common.ToolError("corpus file unreadable: %s" % o["file"])
        rt = o["rt"]
        if rt["o"] in ("rejected0",):
            cstats["rejected_by_parser"] += 1
            continue
        if "t0" in rt and tree_has_builtin(rt["t0"]):
            cstats["with_builtin_calls"] += 1
            continue
        cstats["judged"] += 1
        # the oracle for a hand-written file is its own first parse
        judge(o["rel"], rt.get("t0"), rt, fnd, stats,
              lambda msg, o=o, rt=rt: {"file": o["rel"], "message": msg, "observed": {k: v for k, v in rt.items() if k != "t0"}})
    cstats["tree_preserved"] = stats["tree_preserved"] - before["tree_preserved"]
    cstats["stable"] = stats["stable"] - before["stable"]
    log("[corpus] %d files: %d without builtin calls judged, %d trees preserved, %d stable (%d contain builtin calls, %d do not parse)" %
        (cstats["files"], cstats["judged"], cstats["tree_preserved"], cstats["stable"], cstats["with_builtin_calls"], cstats["rejected_by_parser"]))
    # ---- self-test ------------------------------------------------------------------------------------
    selftests = {}
    if selftest and first_ok:
        case, rt = first_ok
        f2 = Findings()
        st = {k: 0 for k in stats}
        bad = dict(rt, t1=corrupt(json.loads(json.dumps(rt["t0"]))), stable=False, text2=(rt.get("text1") or "") + " ")
        judge("selftest", case["tree"], bad, f2, st, lambda msg: {})
        kinds = {k for k, _ in f2.by_key}
        selftests["corrupted_second_tree_detected"] = "rebuild-tree" in kinds
        selftests["unstable_text_detected"] = "rebuild-unstable" in kinds
        log("[selftest] %s" % json.dumps(selftests))
        for name, ok in selftests.items():
            if not ok:
                raise common.ToolError("self-test %s failed" % name)
    fnd.report(rep, seed)
    coverage = {
        "states": d["states"],
        "transitions": d["transitions"],
        "traces_validated_against_impl": judged + cstats["judged"],
        "samples": samples,
        "evaluations": stats["evaluations"],
        "distinct_nontrivial": nontriv,
        "rule": "TLC derives every module of each focus of PenneGrammar.tla up to MaxNodes together with its own tree; modules with builtin calls are left "
                "out (the property excludes them). Each is rendered, parsed by the first generation, rebuilt (Indentation \"\\t\", 0), parsed again and "
                "rebuilt again. R: Norm(Parse(Rebuild(Parse(src)))) = Norm(ast) with ast the specification's tree (Norm forgets the suffix of literals and "
                "the spelling -- a character literal counts as its integer value; negative literals and the `return:` label as in C16), and the two rebuilt "
                "texts are byte-identical. Corpus files that parse without error and contain no builtin call are judged against their own first parse. "
                "Non-trivial = derived modules with at least 4 syntax nodes.",
        "exhaustive": True,
        "modules_derived": d["count"],
        "modules_with_builtin_calls_excluded": skipped_builtin,
        "modules_that_killed_the_harness_process": len(killers),
        "trees_preserved": stats["tree_preserved"],
        "second_rebuild_identical": stats["stable"],
        "rebuilt_text_does_not_parse": stats["unparsable"],
        "derived_modules_rejected_by_the_parser": stats["source_rejected"],
        "first_parse_differs_from_specification": stats["first_parse_differs"],
        "corpus": cstats,
        "production_coverage": d["coverage"],
        "node_kinds_derived": all_kinds,
        "repetitions_reached": reps,
        "string_bytes_rebuilt": sorted(byte_classes),
        "node_kinds_in_modules_that_round_trip": kinds_ok,
        "node_kinds_never_round_tripped": sorted(set(all_kinds) - set(kinds_ok)),
        "distinct_findings": len(fnd.by_key),
        "per_focus": d["per_focus"],
        "tlc_derivation_reused_from_cache": bool(d.get("cached")),
        "selftests": selftests,
    }
    assumptions = [
        "Norm per the property: locations, literal spelling and literal type suffix are forgotten; a character literal is the integer it denotes "
        "(the rebuilder prints bit-pattern literals in hexadecimal); negative literal = unary minus on the literal; the `return:` label belongs to the result",
        "the oracle for derived modules is the specification's tree, for corpus files their own first parse",
        "builtin calls are excluded as the property says (derived modules containing a builtin token, corpus files whose tree contains a builtin call)",
        "modules the first-generation parser rejects are outside the quantifier (`error-free parsed module`)",
    ]
    return rep.finish("model_checking", coverage, assumptions)


def literal_bytes(t, acc):
    """bytes that occur in string / character literals of a tree"""
    if isinstance(t, dict):
        if t.get("k") == "str" and isinstance(t.get("bytes"), list):
            acc.update(t["bytes"])
        elif t.get("k") == "char":
            acc.add(t.get("v"))
        for v in t.values():
            literal_bytes(v, acc)
    elif isinstance(t, list):
        for v in t:
            literal_bytes(v, acc)


def corrupt(t):
    """change the first name / operator found"""
    done = [False]

    def walk(x):
        if done[0]:
            return
        if isinstance(x, dict):
            for key in ("op", "name", "base", "x", "l", "f"):
                if isinstance(x.get(key), str) and not done[0]:
                    x[key] = x[key] + "_"
                    done[0] = True
                    return
            for v in x.values():
                walk(v)
        elif isinstance(x, list):
            for v in x:
                walk(v)
    walk(t)
    return t


def replay(path):
    d = json.load(open(path))
    det = d["detail"]
    print("property C20   kind=%s\nkey=%s\ninputs affected in that run: %s" % (d["kind"], d["key"], det.get("inputs_affected_this_run")))
    seed = det.get("seed", 1)
    for ex in det.get("examples", []):
        print("=" * 100)
        print(ex.get("message", ""))
        if ex.get("case"):
            tmp = os.path.join(common.WORK, "C20-replay-case.json")
            json.dump(ex["case"], open(tmp, "w"))
            print(common.pvh(["show", tmp, 0, seed], exe_name=gc.EXE).stdout)
            print("--- the module's own syntax tree (specification) ---")
            print(json.dumps(ex["case"]["tree"]))
        elif ex.get("file"):
            f = os.path.join(common.REPO, ex["file"])
            print("corpus file", f)
            print(common.pvh(["rebuild", f], exe_name=gc.EXE).stdout[:6000])
    return 0

"""C11 part (b): every value type (nesting <= 3) in every declaration position (spec/Positions.tla)."""
import json
import os
import random

from . import common
from . import modules_util as mu
from .common import log

FAMILY = set(range(350, 360)) | {380, 433} | set(range(421, 427))
MC = {"quick": "MC_Positions_quick.cfg", "thorough": "MC_Positions_thorough.cfg"}
GUARD = ("MC_Positions_f5element.cfg", "ModelObeysRule",
         "an array view []T is accepted as the element of an array although E350 documents [10][]u8 as invalid")


def canon(case):
    key = "%s:%s:%s%s" % (case["fam"], case["pos"], ".".join(case["ty"]),
                          (":" + ",".join(str(x).lower() for x in case["aux"])) if case["aux"] else "")
    if case["fam"] == "pair":
        key += " after %s:%s" % (case["first"]["pos"], ".".join(case["first"]["ty"]))
    return key


def compare(case, obs):
    if obs.get("panic"):
        return [("crash", "the compiler panicked: %s" % obs["panic"])]
    codes = set(d[0] for d in obs["diags"])
    out = []
    if case["fam"] == "pair" and not obs["ok"]:
        # two independent declarations: a valid one carries no diagnostic of the family, a faulty one next to a valid
        # one carries one of its own codes (TLC: RulePair)
        for k in (1, 2):
            on_k = set(d[0] for d in obs["diags"] if len(d) > 2 and d[2] == k)
            if case["clean%d" % k] and on_k & FAMILY:
                out.append(("code-on-valid-declaration", "declaration %d of the pair is legal, but E%s is located on it" %
                            (k, sorted(on_k & FAMILY))))
            if case["must%d" % k] and not on_k & set(case["must%d" % k]):
                out.append(("wrong-code", "declaration %d of the pair is illegal (one of %s), the other one is legal; "
                                          "located on it: %s, all diagnostics: %s" % (k, case["must%d" % k], sorted(on_k), obs["diags"])))
    if case["v"] == "A" and not obs["ok"]:
        out.append(("rejected-valid", "the documentation makes this declaration legal, but it is rejected: %s" % obs["diags"]))
    if case["v"] == "R":
        if obs["ok"]:
            out.append(("accepted-invalid", "the documentation makes this declaration illegal (expected one of %s), "
                                            "but it is accepted" % case["codes"]))
        elif not codes & set(case["codes"]):
            out.append(("wrong-code", "rejected with %s, the documentation prescribes one of %s" % (sorted(codes), case["codes"])))
    return out


def key_of(case, problem):
    tag = None
    if "like-element" in case.get("tags", []) and problem in ("accepted-invalid", "wrong-code", "crash"):
        tag = "like-element"
    return ("[%s] " % tag if tag else "") + canon(case)


def drift(case, obs):
    if obs.get("panic"):
        return []
    fam = set(d[0] for d in obs["diags"]) & FAMILY
    if case["mok"] and fam:
        return ["the table of the code (as transcribed) accepts, observed %s" % sorted(fam)]
    if not case["mok"] and case["mcode"] not in set(d[0] for d in obs["diags"]):
        return ["the table of the code (as transcribed) gives E%d, observed %s" % (case["mcode"], obs["diags"])]
    return []


def run(rep, tier, seed, selftest, st):
    r = common.tlc("MC_Positions", MC[tier], workers=4, timeout=900, heap="4g", tag="C11-mc-positions", env=mu.probe_fixes())
    log("[tlc] MC_Positions/%s: %d states generated, %d distinct, %d cases, %.1fs, %s" %
        (MC[tier], r.generated, r.distinct, len(r.cases), r.wall,
         "no invariant violated" if r.ok else "INVARIANT %s VIOLATED" % r.violated))
    if not r.ok:
        log("[tlc] counterexample tail:\n" + r.tail[-2500:])
    cases = r.cases
    if not cases:
        raise common.ToolError("TLC emitted no cells")
    violated, rg = mu.expect_violation("C11", "MC_Positions", GUARD[0], GUARD[1])
    if mu.fixed("PENNE_FIXED_LIKE_ELEMENT"):
        guard_ok = rg.ok
        log("[tlc] %s: invariant %s %s (the tree contains the fix: %s)" % (GUARD[0], GUARD[1], "holds" if guard_ok else "VIOLATED", GUARD[2]))
    else:
        guard_ok = violated
        log("[tlc] %s: invariant %s %s (%s)" % (GUARD[0], GUARD[1], "violated as expected" if guard_ok else "NOT violated", GUARD[2]))
    cases_path = os.path.join(common.WORK, "C11-cell-cases.ndjson")
    obs_path = os.path.join(common.WORK, "C11-cell-obs.ndjson")
    common.write_ndjson(cases_path, cases)
    mu.pvh(["replay-cells", cases_path, obs_path])
    observations = common.read_ndjson(obs_path)
    if len(observations) != len(cases):
        raise common.ToolError("replay returned %d observations for %d cells" % (len(observations), len(cases)))
    before = len(rep.violations)
    agree = 0
    counts = {"A": 0, "R": 0, "U": 0}
    real_rep, rep = rep, mu.Pending(rep)
    for case, obs in zip(cases, observations):
        counts[case["v"]] += 1
        for problem, msg in compare(case, obs):
            rep.violation("positions/" + problem, key_of(case, problem),
                          {"part": "positions", "case": case, "observed": obs, "problem": problem, "message": msg,
                           "how": "bin/check C11 --replay <this file>"})
        d = drift(case, obs)
        if d:
            real_rep.note_drift("positions %s: %s" % (canon(case), "; ".join(d)))
        else:
            agree += 1
    rep.flush()
    rep = real_rep
    # the same cells as the SECOND module of a compilation (pvh::alpha::PREMODULE first, switched on by PVH_PREMODULE): the
    # first module leaves behind constants, structures, functions and their resolution ids; the rule knows nothing of it
    obs2_path = os.path.join(common.WORK, "C11-cell-obs2.ndjson")
    common.pvh(["replay-cells", cases_path, obs2_path], exe_name=mu.EXE,
               env={"PVH_THREADS": os.environ.get("PVH_THREADS", "12"), "PVH_PREMODULE": "1"})
    second = common.read_ndjson(obs2_path)
    if len(second) != len(cases):
        raise common.ToolError("replay (second module) returned %d observations for %d cells" % (len(second), len(cases)))
    n2 = 0
    for case, obs, obs2 in zip(cases, observations, second):
        p2 = compare(case, obs2)
        if p2 and not compare(case, obs):
            n2 += 1
            for problem, msg in p2:
                rep.violation("positions/" + problem, key_of(case, problem) + " ^second-module",
                              {"part": "positions", "case": case, "observed": obs2, "observed_alone": obs, "problem": problem,
                               "message": msg + " (as the second module of a compilation; alone the cell behaves as the rule says)",
                               "how": "bin/check C11 --replay <this file>"})
    log("[replay] positions: the same %d cells as the second module of a compilation: %d differ from the rule only there" % (len(cases), n2))
    os.remove(obs2_path)
    log("[replay] positions: %d cells compiled by the real compiler (%d must-accept, %d must-reject, %d unconstrained), "
        "%d violations, agreement with the transcribed table %d/%d" %
        (len(cases), counts["A"], counts["R"], counts["U"], len(rep.violations) - before, agree, len(cases)))
    if not r.ok and len(rep.violations) == before and not rep.known_hits:
        rep.note_drift("TLC reports %s violated but no replayed cell shows it on the real code" % r.violated)
    if not guard_ok:
        rep.note_drift("design-level guard no longer fails: %s %s" % GUARD[:2])
    if selftest:
        i = next(i for i, c in enumerate(cases) if c["v"] == "A" and observations[i]["ok"])
        flipped = dict(cases[i], v="R", codes=[350])
        st["selftests"]["positions_flipped_accept_detected"] = bool(compare(flipped, observations[i]))
        j = next(i for i, c in enumerate(cases) if c["v"] == "R" and not observations[i]["ok"] and not observations[i].get("panic"))
        st["selftests"]["positions_flipped_reject_detected"] = bool(compare(dict(cases[j], v="A"), observations[j]))
        st["selftests"]["positions_wrong_code_detected"] = bool(compare(dict(cases[j], codes=[999]), observations[j]))
    rnd = random.Random(seed)
    idx = sorted(rnd.sample(range(len(cases)), min(4, len(cases))))
    st["states"] += r.distinct
    st["transitions"] += r.generated
    st["cases"] += len(cases)
    st["nontrivial"] += len(set(canon(c) for c in cases if len(c["ty"]) >= 2 or c["fam"] != "type"))
    st["samples"] += [{"part": "positions", "case": cases[i], "observed": observations[i]} for i in idx]
    st["detail"]["positions"] = {
        "tlc_config": MC[tier], "cells": len(cases), "must_accept": counts["A"], "must_reject": counts["R"],
        "unconstrained": counts["U"], "model_invariants_hold": r.ok, "violated_invariant": r.violated,
        "agreement_with_transcribed_table": "%d/%d" % (agree, len(cases)),
        "design_level_guard": {"%s violates %s" % GUARD[:2]: guard_ok},
    }


def replay(detail):
    case = detail["case"]
    print("cell:", json.dumps(case))
    p = mu.pvh(["show-cell", json.dumps(case)])
    print(p.stdout)
    print("rule (TLC): %s %s   transcribed table: %s" %
          (case["v"], case["codes"], "accept" if case["mok"] else "E%d" % case["mcode"]))
    print("problem:", detail.get("problem"), "-", detail.get("message"))
    return 0

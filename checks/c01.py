"""C01 -- compiled programs behave as their source prescribes (spec/Machine.tla).

 A. operator matrix (MC_MachineOps): every binary/unary operator, comparison and primitive cast on every
    integer type x boundary operands, evaluated by TLC; packed into programs that compute each cell at
    run time (operands in variables) and printed; stdout compared with the specification's values.
 B. control-flow skeletons (MC_MachineCF): every accepted body over blocks, if/else chains, gotos, labels,
    loops up to the bound, executed by the TLA+ machine; compiled, executed, stdout/exit compared.
 P. the caller/callee family (MC_MachinePtr): every parameter kind x argument form x way the callee treats
    the parameter (one or two parameters, all pointer-writes x view-reads alias pairs); TLC runs the machine
    and checks non-interference, legality and the machine's monitors as invariants; every program is
    compiled and executed (stdout compared) or, if the machine refuses it, must be rejected.
 C. random well-typed programs (Rust generator: stages 1-3 of the design) compiled and executed; the recorded
    output is validated by TLC running the machine on the logged program (Trace_Machine).
Every program is rendered in several layouts (whitespace, comments, redundant parentheses, CRLF) that
must all give the same output.
"""
import json
import os
import random

from . import common, machine_common as mc
from .common import log

PACK = 60


def ops_cases(tier):
    cases = []
    stats = {"states": 0, "transitions": 0}
    # chain: casts chained three deep (dimension audit)
    for mode in ("bin", "cmp", "un", "cast", "chain"):
        cfg = "MC_MachineOps_%s%s.cfg" % (mode, "_thorough" if tier == "thorough" else "")
        r = common.tlc("MC_MachineOps", cfg, workers=6, timeout=1500, heap="6g", tag="C01-ops-%s-%d" % (mode, os.getpid()))
        if not r.ok:
            raise common.ToolError("MC_MachineOps/%s: invariant %s violated (the specification itself is inconsistent)" % (cfg, r.violated))
        log("[tlc] MC_MachineOps/%s: %d states, %d cells, %.1fs" % (cfg, r.distinct, len(r.cases), r.wall))
        stats["states"] += r.distinct
        stats["transitions"] += r.generated
        cases += r.cases
    return cases, stats


def cell_items(idx, c):
    """items computing one cell at run time, and the expected printed line"""
    t = c["t"]
    a, b = "a%d" % idx, "b%d" % idx
    items = [{"k": "V", "x": a, "ty": mc.prim(t), "e": mc.lit(t, c["a"])}]
    if c["mode"] in ("bin", "cmp"):
        items.append({"k": "V", "x": b, "ty": mc.prim(t), "e": mc.lit(t, c["b"])})
    fns = []
    if c["mode"] != "cmp":
        # the cell's expression over the operands x, y
        def build(x, y):
            if c["mode"] == "bin":
                return mc.binop(c["op"], x, y)
            if c["mode"] == "un":
                return {"k": "un", "op": c["op"], "e": x}
            if c["mode"] == "cast":
                return {"k": "as", "t": c["op"], "e": x}
            return {"k": "as", "t": c["t3"], "e": {"k": "as", "t": c["op2"], "e": {"k": "as", "t": c["op"], "e": x}}}
        rt = c["rt"]
        e = build(mc.var(a), mc.var(b))
        r = "r%d" % idx
        # every expression in every expression context (dimension audit): the value is the argument of the builtin, an
        # initialiser, the right hand side of an assignment, a call argument, a return value, an element of an array literal
        ctx = idx % 6
        if ctx == 0:
            shown = e
        elif ctx == 1:
            items.append({"k": "V", "x": r, "ty": mc.prim(rt), "e": e})
            shown = mc.var(r)
        elif ctx == 2:
            items += [{"k": "V", "x": r, "ty": mc.prim(rt), "e": mc.lit(rt, mc.int_to_limbs(0, mc.WIDTH[rt]))}, {"k": "S", "x": r, "e": e}]
            shown = mc.var(r)
        elif ctx == 3:
            shown = {"k": "call", "f": "id_" + rt, "args": [e]}
            fns.append({"name": "id_" + rt, "params": [{"x": "x", "ty": mc.prim(rt)}], "ret": mc.prim(rt), "body": [], "res": mc.var("x")})
        elif ctx == 4:
            params = [{"x": "x", "ty": mc.prim(t)}] + ([{"x": "y", "ty": mc.prim(t)}] if c["mode"] == "bin" else [])
            fns.append({"name": "cell%d" % idx, "params": params, "ret": mc.prim(rt), "body": [], "res": build(mc.var("x"), mc.var("y"))})
            shown = {"k": "call", "f": "cell%d" % idx, "args": [mc.var(a)] + ([mc.var(b)] if c["mode"] == "bin" else [])}
        else:
            items.append({"k": "V", "x": r, "ty": {"k": "array", "n": 2, "e": mc.prim(rt)},
                          "e": {"k": "arr", "es": [mc.lit(rt, mc.int_to_limbs(0, mc.WIDTH[rt])), e]}})
            shown = {"k": "ref", "x": r, "addr": 0, "steps": [{"k": "i", "e": mc.lit("usize", mc.int_to_limbs(1, 64))}]}
        if c["mode"] == "bin":
            # one print! call with three arguments: the result and both operands (formatting of several values per call)
            items.append({"k": "PP", "es": [shown, mc.var(a), mc.var(b)]})
        else:
            items.append({"k": "P", "e": shown})
    else:
        cond = {"op": c["op"], "l": mc.var(a), "r": mc.var(b)}
        items += [{"k": "IO", "c": cond}, {"k": "P", "e": mc.lit("u8", [1])}, {"k": "C"},
                  {"k": "EO"}, {"k": "P", "e": mc.lit("u8", [0])}, {"k": "C"}]
        if idx % 4 == 0:
            # the same verdict carried through bool variables: set in the then-branch, copied, compared with a literal,
            # cast to an integer (a bool variable holds what the comparison gave; every line shows the cell's value again)
            r1, r2 = "r%d" % idx, "q%d" % idx
            items += [{"k": "V", "x": r1, "ty": mc.prim("bool"), "e": mc.lit("bool", [0])},
                      {"k": "IO", "c": cond}, {"k": "S", "x": r1, "e": mc.lit("bool", [1])}, {"k": "C"},
                      {"k": "V", "x": r2, "ty": mc.prim("bool"), "e": mc.var(r1)},
                      {"k": "IO", "c": {"op": "==", "l": mc.var(r2), "r": mc.lit("bool", [1])}}, {"k": "P", "e": mc.lit("u8", [1])}, {"k": "C"},
                      {"k": "EO"}, {"k": "P", "e": mc.lit("u8", [0])}, {"k": "C"},
                      {"k": "IO", "c": {"op": "!=", "l": mc.var(r1), "r": mc.var(r2)}}, {"k": "P", "e": mc.lit("u8", [9])}, {"k": "C"},
                      {"k": "P", "e": {"k": "as", "t": "i32", "e": mc.var(r2)}}]
    if c["mode"] == "cmp":
        expected = ["1" if c["r"][0] else "0"] * (3 if idx % 4 == 0 else 1)
    elif c["mode"] == "bin":
        expected = [mc.shown(c["r"], c["rt"]), mc.shown(c["a"], t), mc.shown(c["b"], t)]
    else:
        expected = [mc.shown(c["r"], c["rt"])]
    return items, expected, fns


def cell_key(c):
    if c["mode"] == "chain":
        return "chain %s as %s as %s as %s a=%s" % (c["t"], c["op"], c["op2"], c["t3"], mc.limbs_to_int(c["a"], c["t"]))
    return "%s %s %s a=%s b=%s" % (c["mode"], c["t"], c["op"], mc.limbs_to_int(c["a"], c["t"]),
                                   mc.limbs_to_int(c["b"], c["t"]) if c["b"] else "")


def check_pack(rep, kind, programs, expected, keys, layouts, seed, tag):
    """run packed programs; expected[i] = list of lines per unit, keys[i] = list of unit keys.
    Each unit's output starts after a marker line `#<k>`."""
    results = mc.run_programs(programs, layouts, seed, tag)
    checked = 0
    for prog, res, exp, ks in zip(programs, results, expected, keys):
        for r in res["results"]:
            layout = r["layout"]
            if "stdout" not in r:
                what = "crash" if "crash" in r or "lli" in r else "rejected"
                # the whole pack failed: attribute to the pack (the replay file holds the source)
                rep.violation(kind, "pack:" + ks[0] + " .. (%d units) :: %s" % (len(ks), what),
                              {"problem": what, "result": r, "source": res["source"], "units": ks[:5]})
                continue
            units = split_units(r["stdout"])
            for k, (want, key) in enumerate(zip(exp, ks)):
                got = units.get(k)
                checked += 1
                if got != want:
                    rep.violation(kind, key + (" :: layout" if layout else " :: output"),
                                  {"unit": key, "expected_lines": want, "observed_lines": got, "layout": layout,
                                   "exit": r.get("exit"), "source": r.get("source", res["source"]),
                                   "program": prog})
            if r.get("exit") != 0:
                rep.violation(kind, "pack:" + ks[0] + " :: exit", {"exit": r.get("exit"), "source": res["source"]})
    return checked


def split_units(stdout):
    units = {}
    cur = None
    for line in stdout.split("\n"):
        if line.startswith("#"):
            cur = int(line[1:])
            units[cur] = []
        elif cur is not None and line != "":
            units[cur].append(line)
    return units


def marker(k):
    # print!("#", k, "\n") is not in the exchange format; a marker is a string print rendered by a special item
    return {"k": "P", "e": {"k": "lit", "t": "usize", "v": mc.int_to_limbs(k, 64)}, "marker": True}


def part_ops(rep, tier, seed, layouts):
    cells, stats = ops_cases(tier)
    live = [c for c in cells if not c["ub"]]
    programs, expected, keys = [], [], []
    for start in range(0, len(live), PACK):
        chunk = live[start:start + PACK]
        body, exp, ks, fns = [], [], [], {}
        for k, c in enumerate(chunk):
            items, want, helpers = cell_items(k, c)
            body.append({"k": "M", "i": k})
            body += items
            exp.append(want)
            ks.append(cell_key(c))
            for f in helpers:
                fns[f["name"]] = f
        programs.append(mc.program([mc.main_fn(body)] + list(fns.values())))
        expected.append(exp)
        keys.append(ks)
    checked = check_pack(rep, "ops", programs, expected, keys, layouts, seed, "C01-ops")
    log("[replay] operator matrix: %d cells (%d with defined behaviour) in %d programs x %d layouts, %d comparisons" %
        (len(cells), len(live), len(programs), layouts, checked))
    return cells, live, stats, programs


CF_COND = {"op": ">=", "l": mc.var("n"), "r": mc.lit("i32", mc.int_to_limbs(2, 32))}


def cf_item(k, pos, name="y"):
    if k in ("IO", "EIO"):
        return {"k": k, "c": CF_COND}
    if k in ("IG", "EIG"):
        return {"k": k, "c": CF_COND, "n": name}
    if k in ("G", "EG", "L"):
        return {"k": k, "n": name}
    if k == "P":
        return {"k": "P", "e": mc.binop("+", mc.binop("*", mc.var("n"), mc.lit("i32", mc.int_to_limbs(100, 32))),
                                        mc.lit("i32", mc.int_to_limbs(pos, 32)))}
    if k == "INC":
        return {"k": "S", "x": "n", "e": mc.binop("+", mc.var("n"), mc.lit("i32", mc.int_to_limbs(1, 32)))}
    return {"k": k}


def part_cf(rep, tier, seed, layouts):
    cases = []
    st = {"states": 0, "transitions": 0}
    # the full alphabet with one label name; and {O, C, G, L, P} with two label names (equal names in different scopes)
    cfgs = ["MC_MachineCF_%s.cfg" % tier, "MC_MachineCF_labels_%s.cfg" % tier]
    if tier == "thorough":
        # bodies of 8 items over the loop alphabet {O, IO, C, IG, L, LP, P, INC}
        cfgs.append("MC_MachineCF_len8_thorough.cfg")
    else:
        # a terminating loop that prints needs 7 items: bodies `{ ... loop; } ...` of up to 8 items over {O, C, IG, L, LP, P, INC}
        cfgs.append("MC_MachineCF_loops_quick.cfg")
    for cfg in cfgs:
        r = common.tlc("MC_MachineCF", cfg, workers=6, timeout=2400, heap="8g", tag="C01-cf-%d" % os.getpid())
        if not r.ok:
            raise common.ToolError("MC_MachineCF/%s: invariant %s violated (the specification itself is inconsistent)" % (cfg, r.violated))
        log("[tlc] MC_MachineCF/%s: %d states, %d terminating accepted bodies, %.1fs" % (cfg, r.distinct, len(r.cases), r.wall))
        cases += r.cases
        st["states"] += r.distinct
        st["transitions"] += r.generated
    programs, expected, keys = [], [], []
    for start in range(0, len(cases), PACK):
        chunk = cases[start:start + PACK]
        fns, body, exp, ks = [], [], [], []
        for k, c in enumerate(chunk):
            items = [{"k": "V", "x": "n", "ty": mc.prim("i32"), "e": mc.lit("i32", [0, 0, 0, 0])}]
            items += [cf_item(kind, p + 1, c["ns"][p]) for p, kind in enumerate(c["b"])]
            fns.append({"name": "f%d" % k, "params": [], "ret": mc.VOID, "body": items})
            body += [{"k": "M", "i": k}, {"k": "CALL", "f": "f%d" % k, "args": [], "d": ""}]
            exp.append([mc.shown(v, "i32") for v in c["out"]])
            ks.append("cf " + " ".join(k + (":" + n if n not in ("", "y") or (n and "z" in c["ns"]) else "") for k, n in zip(c["b"], c["ns"])))
        if (start // PACK) % 2 == 1:
            # every other pack: each function stands behind an UNCALLED function that never returns (its last statement is a
            # block that loops for ever: the text ends in dead code).  What is never called has no behaviour: the expected
            # output is the same (thirteenth round, C01k: generator state left behind by the end of one function)
            spun = []
            for k, f in enumerate(fns):
                spun.append({"name": "spin%d" % k, "params": [], "ret": mc.VOID,
                             "body": [{"k": "V", "x": "n", "ty": mc.prim("i32"), "e": mc.lit("i32", [0, 0, 0, 0])},
                                      {"k": "O"}, cf_item("INC", 0), {"k": "LP"}, {"k": "C"}]})
                spun.append(f)
            fns = spun
        programs.append(mc.program([mc.main_fn(body)] + fns))
        expected.append(exp)
        keys.append(ks)
    checked = check_pack(rep, "cf", programs, expected, keys, layouts, seed, "C01-cf")
    log("[replay] control-flow skeletons: %d bodies in %d programs x %d layouts, %d comparisons" %
        (len(cases), len(programs), layouts, checked))
    return cases, st


def ptr_key(c):
    def one(x):
        return "%s:%s:%d" % (x["kd"], x["way"], x["a"])
    return "ptr " + one(c["c1"]) + (" " + one(c["c2"]) if c["c2"]["kd"] else "")


def check_ptr_cases(rep, cases, layouts, seed, tag):
    """replay the caller/callee family: accepted programs must print what the machine printed,
    programs the machine refuses (a write through a value / word / view parameter) must be rejected"""
    programs = [c["prog"] for c in cases]
    results = mc.run_programs(programs, layouts, seed, tag)
    checked = 0
    for c, res in zip(cases, results):
        key = ptr_key(c)
        for r in res["results"]:
            checked += 1
            layout = r["layout"]
            if c["status"] == "illegal":
                if "stdout" in r or "lli" in r:
                    rep.violation("ptr", key + " :: accepted-illegal",
                                  {"problem": "the callee writes through a parameter that is neither a pointer nor reached through one; "
                                              "the specification's machine refuses the program, the compiler accepted it",
                                   "result": r, "source": res["source"]})
                elif "crash" in r or r.get("panic"):
                    rep.violation("ptr", key + " :: crash", {"problem": "crash", "result": r, "source": res["source"]})
                continue
            if "stdout" not in r:
                what = "crash" if ("crash" in r or "lli" in r or r.get("panic")) else "rejected"
                sig = ",".join(sorted(set("E%d" % d[0] for d in r.get("diags", []) or [])))
                rep.violation("ptr", key + " :: " + what + (" " + sig if sig else ""),
                              {"problem": "a well-formed program of the caller/callee family is " + what, "result": r,
                               "source": res["source"]})
                continue
            want = [mc.shown(v, "i32") for v in c["out"]]
            got = [ln for ln in r["stdout"].split("\n") if ln != ""]
            if got != want or r.get("exit") != 0:
                rep.violation("ptr", key + (" :: layout" if layout else " :: output"),
                              {"expected_lines": want, "observed_lines": got, "exit": r.get("exit"), "layout": layout,
                               "cells": "x y arr[0] arr[1] s.m s.a[0] s.a[1] w.m w.n p py t.u.m t.u.a[1] t.k ss[0].m ss[1].m ss[1].a[1], "
                                        "before and after the call (the callee's own prints in between)",
                               "source": r.get("source", res["source"])})
    return checked


def part_ptr(rep, tier, seed, layouts):
    cfg = "MC_MachinePtr_%s.cfg" % tier
    r = common.tlc("MC_MachinePtr", cfg, workers=6, timeout=1500, heap="8g", tag="C01-ptr-%d" % os.getpid())
    if not r.ok:
        raise common.ToolError("MC_MachinePtr: invariant %s violated (the machine breaks its own invariant: non-interference / "
                               "legality / stored values fit their types)" % r.violated)
    cases = r.cases
    done = [c for c in cases if c["status"] == "done"]
    changed = [c for c in done if c["out"][:c["n"]] != c["out"][-c["n"]:]]
    log("[tlc] MC_MachinePtr/%s: %d states, %d programs (%d run to completion, %d change a caller cell, %d refused as illegal), %.1fs" %
        (cfg, r.distinct, len(cases), len(done), len(changed), len(cases) - len(done), r.wall))
    if not changed or len(done) == len(cases):
        raise common.ToolError("MC_MachinePtr is vacuous: no program changes a caller cell / none is refused")
    layouts = min(layouts, 2)       # one compilation per program and layout: the family is not packed
    checked = check_ptr_cases(rep, cases, layouts, seed, "C01-ptr")
    log("[replay] caller/callee family: %d programs x %d layouts, %d comparisons" % (len(cases), layouts, checked))
    return cases, {"states": r.distinct, "transitions": r.generated, "changed": len(changed), "done": len(done)}


def part_families(rep, tier, seed, layouts):
    """D / F / N (dimension audit): parametrised families built and executed by TLC -- data shapes (arrays of 100 / 1000
    elements, structures of 12 members nested 3 deep, 3-dimensional arrays, zero-length arrays, views of views, pointers
    carried across loop iterations, loop-local declarations, copies of whole words), frames (recursion, mutual recursion,
    1..12 parameters of mixed widths, every return type) and control flow nested three deep (MC_MachineData, MC_MachineFrames,
    MC_MachineNest; checks/machine_fam.py)"""
    from . import machine_fam as mf
    layouts = min(layouts, 2)
    data, st_d = mf.run_family(rep, "data", "data", "MC_MachineData", "MC_MachineData_%s.cfg" % tier, layouts, seed, "C01-data", workers=6)
    frames, st_f = mf.run_family(rep, "frames", "frames", "MC_MachineFrames", "MC_MachineFrames_%s.cfg" % tier, layouts, seed, "C01-frames", workers=6)
    r = common.tlc("MC_MachineNest", "MC_MachineNest_%s.cfg" % tier, workers=6, timeout=1500, heap="4g", tag="C01-nest-%d" % os.getpid())
    if not r.ok:
        raise common.ToolError("MC_MachineNest: invariant %s violated (the template leaves the label rule or the machine trips a monitor)" % r.violated)
    nest = r.cases
    if len(nest) < 100:
        raise common.ToolError("MC_MachineNest is vacuous: %d terminating bodies" % len(nest))
    log("[tlc] MC_MachineNest: %d states, %d terminating bodies, %.1fs" % (r.distinct, len(nest), r.wall))
    checked, packs = mf.check_packed_bodies(rep, "nest", "nest", nest, layouts, seed, "C01-nest")
    log("[replay] MC_MachineNest: %d bodies in %d programs x %d layouts, %d comparisons" % (len(nest), packs, layouts, checked))
    st = {"states": st_d["states"] + st_f["states"] + r.distinct, "transitions": st_d["transitions"] + st_f["transitions"] + r.generated,
          "data": len(data), "frames": len(frames), "nest": len(nest), "families": dict(st_d["families"], **st_f["families"])}
    return data, frames, nest, st


def part_random(rep, tier, seed, layouts):
    from . import machine_trace
    return machine_trace.run_random(rep, "C01", tier, seed, layouts)


def run(rep, tier, seed, selftest):
    layouts = 2 if tier == "quick" else 4
    cells, live, st_ops, ops_programs = part_ops(rep, tier, seed, layouts)
    cf_cases, st_cf = part_cf(rep, tier, seed, layouts)
    ptr_cases, st_ptr = part_ptr(rep, tier, seed, layouts)
    fam_data, fam_frames, fam_nest, st_fam = part_families(rep, tier, seed, layouts)
    rnd = part_random(rep, tier, seed, layouts)
    # X: "Interoperability with C" (docs/features.md): foreign functions whose meaning CInterop.tla defines, C templates
    # compiled by clang, programs linked and run under lli and natively (checks/cinterop_part.py, docs/notes-cinterop.md)
    from . import cinterop_part
    xi = cinterop_part.run_part(rep, tier, seed, selftest)
    selftests = {}
    if selftest or tier == "thorough":
        # binding self-test: corrupt one expected value and require detection
        probe = common.Report("C01", tier, seed)
        probe.known = []
        c = dict(live[len(live) // 2])
        items, want, helpers = cell_items(0, c)
        prog = mc.program([mc.main_fn([{"k": "M", "i": 0}] + items)] + helpers)
        import io, contextlib
        buf = io.StringIO()
        with contextlib.redirect_stdout(buf):
            check_pack(probe, "ops", [prog], [[want[:-1] + [want[-1] + "9"]]], [["selftest"]], 1, seed, "C01-selftest")
        selftests["corrupted_expectation_detected"] = len(probe.violations) == 1
        for f in probe.violations:
            if os.path.exists(f):
                os.remove(f)
        # the same for the caller/callee family: a corrupted expected value, and a refused program presented as accepted
        probe2 = common.Report("C01", tier, seed)
        probe2.known = []
        victim = next(c for c in ptr_cases if c["status"] == "done" and c["out"][:c["n"]] != c["out"][-c["n"]:])
        bad = json.loads(json.dumps(victim))
        bad["out"][-1][0] = (bad["out"][-1][0] + 1) % 256
        legal = json.loads(json.dumps(victim))
        legal["status"] = "illegal"
        with contextlib.redirect_stdout(buf):
            check_ptr_cases(probe2, [bad, legal], 1, seed, "C01-selftest-ptr")
        selftests["ptr_corrupted_expectation_and_wrong_verdict_detected"] = len(probe2.violations) == 2
        for f in probe2.violations:
            if os.path.exists(f):
                os.remove(f)
        from . import machine_fam as mf
        selftests["family_corrupted_value_and_exit_detected"] = mf.selftest(fam_frames, 1, seed, "C01-selftest-fam")
        selftests.update(rnd.get("selftests", {}))
        selftests.update(xi.get("selftests", {}))
        log("[selftest] %s" % json.dumps(selftests))
        for name, ok in selftests.items():
            if not ok:
                raise common.ToolError("self-test %s failed" % name)
    rs = random.Random(seed)
    samples = [{"cell": c} for c in rs.sample(live, min(3, len(live)))]
    samples += [{"skeleton": c} for c in rs.sample(cf_cases, min(3, len(cf_cases)))]
    samples += [{"caller_callee": {k: c[k] for k in ("c1", "c2", "status", "out")}} for c in rs.sample(ptr_cases, min(3, len(ptr_cases)))]
    samples += [{"family_program": {k: c[k] for k in ("par", "out")}} for c in rs.sample(fam_data, 1) + rs.sample(fam_frames, 1)]
    samples += rnd.get("samples", [])
    samples += xi.get("samples", [])[:3]
    coverage = {
        "states": st_ops["states"] + st_cf["states"] + st_ptr["states"] + st_fam["states"] + rnd.get("states", 0) + xi.get("states", 0),
        "transitions": st_ops["transitions"] + st_cf["transitions"] + st_ptr["transitions"] + st_fam["transitions"] + rnd.get("transitions", 0) + xi.get("transitions", 0),
        "traces_validated_against_impl": len(live) + len(cf_cases) + len(ptr_cases) + len(fam_data) + len(fam_frames) + len(fam_nest) + rnd.get("accepted", 0) + xi.get("traces_validated_against_impl", 0),
        "samples": samples,
        "evaluations": len(cells) + len(cf_cases) + len(ptr_cases) + len(fam_data) + len(fam_frames) + len(fam_nest) + rnd.get("programs", 0) + xi.get("evaluations", 0),
        "distinct_nontrivial": len(live) + len(cf_cases) + st_ptr["changed"] + len(fam_data) + len(fam_frames) + len(fam_nest) + rnd.get("nontrivial", 0) + xi.get("distinct_nontrivial", 0),
        "rule": "A: TLC evaluates every operator x type x boundary-operand cell of Machine.tla (ub cells are not executed); "
                "B: TLC enumerates every accepted body over blocks/if-else chains/gotos/labels/loops/increment/print up to the "
                "bound (and over {block, goto, label, print} with two label names) and runs the machine; "
                "P: TLC enumerates every caller/callee program of MC_MachinePtr (parameter kind x argument form x way the callee "
                "treats the parameter, one or two parameters), runs the machine and checks non-interference, legality and the "
                "machine's monitors as invariants; accepted programs are executed and compared, refused ones must be rejected; "
                "D/F/N: TLC builds one program per parameter record of MC_MachineData (arrays of 0..1000 elements, structures of 12 "
                "members nested 3 deep, 3-dimensional arrays, zero-length arrays in every position, views of views, pointers carried "
                "across iterations, loop-local declarations, copies of whole words), MC_MachineFrames (recursion and mutual recursion "
                "with live locals, 1..12 parameters of mixed widths, every return type) and MC_MachineNest (three nested loops / blocks "
                "with gotos to every outer label), runs the machine on it (invariant: no undefined behaviour, monitors silent) and "
                "emits it with its output; every one is compiled and executed; "
                "C: a seeded Rust generator produces well-typed programs (all integer widths, value / word / view / slice-pointer / "
                "pointer / pointer-to-pointer parameters, arrays incl. multi-dimensional, structs, words, constants, calls in "
                "expressions) whose recorded output TLC validates by running the machine on the logged program. "
                "Non-trivial = cells with defined behaviour + terminating bodies + caller/callee programs in which the call changes "
                "a caller cell + random programs that terminate without undefined behaviour and print at least one value. "
                "Each program runs in %d layouts. X: " % layouts + xi.get("rule", ""),
        "exhaustive": True,
        "ops_cells": len(cells), "ops_cells_defined": len(live), "cf_bodies": len(cf_cases),
        "family_programs": {"data": len(fam_data), "frames": len(fam_frames), "nest": len(fam_nest)}, "family_counts": st_fam["families"],
        "ptr_programs": len(ptr_cases), "ptr_programs_completed": st_ptr["done"], "ptr_programs_changing_a_caller_cell": st_ptr["changed"],
        "random_programs": rnd.get("programs", 0), "random_programs_trivial": rnd.get("trivial", 0),
        "layouts": layouts,
        "stage": "3 (stage 1: integers of all widths, bool, casts, control flow, calls by value; stage 2: pointers, address "
                 "assignment, views, slice pointers, lengths; stage 3: structs, words, multi-dimensional arrays, constants of "
                 "aggregate type, calls in expressions, size-of)",
        "selftests": selftests,
    }
    coverage.update({k: v for k, v in xi.items() if k.startswith("cinterop_")})
    # I: type inference (spec/Inference.tla): unannotated declarations and unsuffixed literals are THE documented style; a
    # program whose types are determined must be accepted and behave like its fully annotated twin (docs/notes-infer.md)
    from . import infer_part
    icov = infer_part.run_part(rep, tier, seed, selftest)
    coverage.update(icov)
    coverage["states"] += icov.get("infer_states", 0)
    coverage["transitions"] += icov.get("infer_transitions", 0)
    coverage["traces_validated_against_impl"] += icov.get("infer_cases_replayed", 0) + icov.get("infer_random_lines_accepted", 0)
    coverage["evaluations"] += icov.get("infer_cases_replayed", 0) + icov.get("infer_random_programs", 0)
    coverage["distinct_nontrivial"] += icov.get("infer_distinct_nontrivial", 0)
    return rep.finish("model_checking", coverage, list(xi.get("assumptions", [])) + list(infer_part.ASSUMPTIONS) + [
        "decimal text <-> two's complement limbs is converted in Python (trusted)",
        "undefined behaviour (division by zero, MIN / -1, shift >= width, index out of bounds) is decided by the "
        "specification; such cells/programs are not executed",
        "undefined behaviour also covers dangling pointers (frame returned, block left, loop iteration over) and reads of "
        "uninitialised cells; a program killed by a signal is accepted only if the specification finds undefined behaviour in it",
        "evaluation order among sibling operands with side effects is not documented: the generated family has at most one call "
        "per statement outside call arguments, and calls with `&` arguments only as a whole right hand side",
        "lli (LLVM 14 interpreter/JIT) executes the IR, as `penne run` does",
    ])


def replay(path):
    d = json.load(open(path))
    if d.get("kind", "").startswith("cinterop-"):
        from . import cinterop_part
        return cinterop_part.replay(path)
    if d.get("kind", "").startswith("infer-"):
        from . import infer_part
        return infer_part.replay(path)
    det = d["detail"]
    print(json.dumps({k: det[k] for k in det if k not in ("source", "program")}, indent=1))
    if "source" in det:
        print(det["source"])
    return 0

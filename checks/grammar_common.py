"""Shared machinery of the `grammar` checks (C16, C20): deriving modules with TLC from spec/PenneGrammar.tla,
normal forms, tree comparison, corpus, trace validation against Trace_Grammar.tla."""
import concurrent.futures
import glob
import hashlib
import json
import os
import re
import subprocess
import sys
import time

from . import common, grammar_cfgs

# the deep cells (spec/MC_PenneGrammarCells.tla) nest 270 (thorough: 1100) levels: JSON decoding and the tree walks below recurse
sys.setrecursionlimit(max(sys.getrecursionlimit(), 60000))
from .common import log

EXE = "pvh_grammar"
SCALE = [130, 270, 1100]           # past 2^7, 2^8 and 2^10 repetitions (the XML dump recurses per list item: known finding from ~15000)
SCALED_PER_FOCUS = 8
FOCI = ["decls", "loose", "types", "flat", "nest", "exprs", "ops", "lists", "commas", "args", "conds", "casts", "elseif", "steps", "long", "strings", "longstr", "atoms", "undoc", "fields"]
# foci that derive forms the documents do not show (generation 1 accepts them): rejection by generation 2 is not a
# violation there, a crash or a wrong tree is.  (`loose` -- the last struct member without its comma -- is NOT among them:
# tests/samples/valid/view_aliasing.pn is written that way.)
UNCONSTRAINED = {"undoc"}
PRODUCTIONS = grammar_cfgs.ALL
CELLS = "cells"                     # pseudo-focus: the cell generator spec/MC_PenneGrammarCells.tla (dimension audit)
CELL_FAMILIES = ["wide", "deep", "deepif", "bound", "pos", "type", "stmt", "name", "order", "decl", "indent", "strlen"]
# The delta lexer allocates its token buffers (>= 2 MB) per call; glibc serves such sizes by mmap/munmap, which serialises
# the worker threads in the kernel.  Keeping them on the heap makes the replay 4x faster (measured); no effect on results.
PVH_ENV = {"MALLOC_MMAP_THRESHOLD_": "33554432", "MALLOC_TRIM_THRESHOLD_": "2000000000", "MALLOC_TOP_PAD_": "268435456",
           # the worker threads of the harness parse / project / rebuild nests of depth 270 .. 1100 (debug build: ~10 KB per level);
           # the stack is reserved, not committed
           "RUST_MIN_STACK": str(1 << 30)}
JAVA_CP = "/opt/veriftools/tla/tla2tools.jar:/opt/veriftools/tla/CommunityModules-deps.jar"


# ---------------------------------------------------------------------------------------------
# spelling (only for keys and messages; the harness renders the real text)
# ---------------------------------------------------------------------------------------------
def limbs_to_str(v):
    if isinstance(v, list):
        return str(sum(int(b) << (8 * i) for i, b in enumerate(v)))
    return str(v)


def _item(it):
    if "c" in it:
        return chr(it["c"])
    if "raw" in it:
        return bytes(it["raw"]).decode("utf-8", "replace")
    if it["e"] in ("x", "u"):
        d = "".join("%x" % x for x in it["d"])
        return "\\x" + d if it["e"] == "x" else "\\u{" + d + "}"
    return "\\" + it["e"]


def spell(tok):
    k = tok["k"]
    if k in ("kw", "p", "id", "ty"):
        return tok["s"]
    if k == "bi":
        return tok["s"] + "!"
    if k == "bool":
        return "true" if tok["v"] else "false"
    if k == "int":
        h = tok.get("h")
        if h:
            out = {10: "", 16: "0x", 2: "0b"}[h["base"]]
            for i, d in enumerate(h["digits"]):
                out += "%x" % d
                if (i + 1) in h.get("seps", []):
                    out += "_"
        else:
            out = limbs_to_str(tok["v"])
        return out + (tok.get("suffix") or "")
    if k == "char":
        return "'" + (_item(tok["h"]) if "h" in tok else chr(tok["v"])) + "'"
    if k == "str":
        if "h" in tok:
            return '"' + "".join(_item(i) for i in tok["h"]) + '"'
        return '"' + bytes(tok["bytes"]).decode("latin-1") + '"'
    return "?"


def canon(case):
    return " ".join(spell(t) for t in case["toks"])


# ---------------------------------------------------------------------------------------------
# normal forms
# ---------------------------------------------------------------------------------------------
def expected_tree(t):
    """The tree TLC emitted -> the exchange format of the harness projections: integer values (limb lists, as
    computed by TLC from the digits) become decimal strings, the file of an import (bytes) becomes text."""
    if isinstance(t, list):
        return [expected_tree(x) for x in t]
    if not isinstance(t, dict):
        return t
    out = {}
    for k, v in t.items():
        if k == "v" and t.get("k") == "int":
            out[k] = limbs_to_str(v)
        elif k == "n" and t.get("k") == "array" and "t" in t:
            out[k] = limbs_to_str(v)
        elif k == "file" and t.get("k") == "import":
            out[k] = bytes(v).decode("utf-8")
        else:
            out[k] = expected_tree(v)
    return out


def norm20(t):
    """C20: `the same syntax tree up to locations and the spelling and type suffix of literals`: the suffix is
    dropped, a character literal counts as the integer it denotes (the rebuilder writes every bit-pattern literal
    in hexadecimal; generation 1 itself represents 'a' as an integer literal of type char8)."""
    if isinstance(t, list):
        return [norm20(x) for x in t]
    if not isinstance(t, dict):
        return t
    if t.get("k") == "int" and "v" in t:
        return {"k": "int", "v": t["v"]}
    if t.get("k") == "char" and "v" in t:
        return {"k": "int", "v": str(t["v"])}
    return {k: norm20(v) for k, v in t.items()}


def first_diff(a, b, path=""):
    """(path, expected, observed) of the first difference, or None."""
    if type(a) is not type(b):
        return (path, a, b)
    if isinstance(a, dict):
        if a.get("k") != b.get("k"):
            return (path + ".k", a.get("k"), b.get("k"))
        for k in sorted(set(a) | set(b)):
            if k not in a or k not in b:
                return (path + "." + k, a.get(k, "<absent>"), b.get(k, "<absent>"))
            d = first_diff(a[k], b[k], path + "." + k)
            if d:
                return d
        return None
    if isinstance(a, list):
        if len(a) != len(b):
            return (path + ".length", len(a), len(b))
        for i, (x, y) in enumerate(zip(a, b)):
            d = first_diff(x, y, path + "[%d]" % i)
            if d:
                return d
        return None
    return None if a == b else (path, a, b)


def _brief(v):
    if isinstance(v, dict):
        return "{%s}" % v.get("k", "..")
    if isinstance(v, list):
        return "[%d]" % len(v)
    if isinstance(v, str) and len(v) > 64:
        return json.dumps(v[:24] + "...(%d characters)" % len(v))
    return json.dumps(v)


def _context(tree, path):
    """kinds of the nodes on the way to `path` (e.g. fn/len) -- names the construct a difference sits in"""
    kinds = []
    cur = tree
    for part in re.findall(r"\.([A-Za-z_]+)|\[(\d+)\]", path):
        try:
            cur = cur[part[0]] if part[0] else cur[int(part[1])]
        except (KeyError, IndexError, TypeError):
            break
        if isinstance(cur, dict) and "k" in cur:
            kinds.append(cur["k"])
    return "/".join(kinds[-2:])


def diff_signature(expected, observed):
    """A key for a tree difference that names the shape, not the individual input."""
    d = first_diff(expected, observed)
    if d is None:
        return None
    path, e, o = d
    if path.endswith(".bytes") and o == "<absent>":
        # the dump shows a string literal whose value cannot be read back (reported in detail as delta-xml `string:`)
        return 'bytes in str: expected %s observed "<absent>"' % _brief(e)
    generic = re.sub(r"\[\d+\]", "[]", path)
    generic = ".".join(generic.split(".")[-3:])
    return "%s in %s: expected %s observed %s" % (generic, _context(expected, path), _brief(e), _brief(o))


def tree_diff_key(expected, observed):
    """diff_signature, except that differences with a known numeric shape get ONE key whatever position they occur in"""
    d = first_diff(expected, observed)
    if d is not None:
        path, e, o = d
        if path.endswith(".n") and isinstance(e, str) and isinstance(o, str) and e.isdigit() and o.isdigit() \
                and int(e) >= 1 << 64 and int(o) == int(e) % (1 << 64):
            return "array length of 2^64 or more: the tree has the length modulo 2^64"
        if path.endswith(".n") and isinstance(e, str) and isinstance(o, str) and e.isdigit() and o.isdigit():
            return "array length: expected %s observed %s" % (e, o)           # whatever position the type stands in
        if isinstance(e, str) and isinstance(o, str) and len(e) > 64:
            return "name of %d characters: observed %d characters" % (len(e), len(o))   # whatever role the name plays
    return diff_signature(expected, observed)


def rejection_shape(text):
    """names the construct when a rejected valid module has a known shape, so that one defect gives one key"""
    if re.search(r"\b(struct|word\d+) \w+ \{ [^}]*[^,{ ] \}", text):
        return "last member of a struct/word not followed by a comma"
    return None


def cell_label(case):
    """`cell wide/callargs/130`: the input class of a case of the cell generator"""
    c = case.get("cell")
    if not c:
        return None
    if c.get("fam") == "name":
        # the name, not the role it plays (one defect of the lexer shows in every role)
        return "cell name/%s" % str(c.get("what")).split(": ", 1)[-1]
    if c.get("fam") in ("pos", "type", "stmt", "decl", "order", "indent"):
        return "cell %s/%s" % (c.get("fam"), c.get("what"))
    return "cell %s/%s/%s" % (c.get("fam"), c.get("what"), c.get("n"))


def shape_key(case):
    """names the input class of a case for a finding key: the cell, a known rejection shape, or the (shortened) text"""
    label = cell_label(case)
    if label:
        return label
    text = canon(case)
    return rejection_shape(text) or (text if len(text) <= 300 else text[:300] + " ... (%d tokens)" % len(case["toks"]))


def panic_signature(msg):
    msg = msg or "?"
    text, _, loc = msg.partition(" @ ")
    loc = re.sub(r"^.*?/src/", "src/", loc)
    return (text.strip()[:80] + " @ " + loc).strip()


# ---------------------------------------------------------------------------------------------
# running the harness over a case file: a death of the process is an observation of ONE case
# ---------------------------------------------------------------------------------------------
def _died(rc):
    return rc < 0 or rc in (132, 134, 135, 136, 139)       # killed by a signal (directly or as reported by a shell)


def crash_observation(cmd, case_id, rc, layouts=1):
    what = "the process died (exit status %s: abort / stack overflow / segmentation fault) while this module was parsed" % rc
    if cmd == "replay":
        one = {"o": "panic", "stage": "process", "panic": what + " @ process"}
        return {"id": case_id, "d": [one] + ["="] * (layouts - 1), "a": [dict(one)] + ["="] * (layouts - 1), "crash": rc}
    return {"id": case_id, "o": "panic", "stage": "process", "panic": what + " @ process", "crash": rc}


def pvh_cases(cmd, cases_path, out_path, extra, layouts=1, env=None):
    """`pvh_grammar <cmd> CASES OUT extra...` (replay / roundtrip / record).  The parsers run inside the harness process: if
    it dies (stack overflow, abort, segmentation fault -- nothing catch_unwind can stop), the case file is bisected in child
    processes down to the modules that kill it; those get a crash observation (reported as a panic of that module), all
    others their ordinary observation.  Returns the list of case ids that killed the process."""
    env = dict(PVH_ENV, **(env or {}))
    p = common.pvh([cmd, cases_path, out_path] + list(extra), exe_name=EXE, env=env, check=False)
    if p.returncode == 0:
        return []
    if not _died(p.returncode):
        log(p.stdout[-2000:] + p.stderr[-2000:])
        raise common.ToolError("pvh_grammar %s exited with %d" % (cmd, p.returncode))
    log("[harness] pvh_grammar %s died with status %d: isolating the modules that kill it" % (cmd, p.returncode))
    with open(cases_path) as f:
        lines = f.readlines()
    tmp_in = out_path + ".part-in"
    tmp_out = out_path + ".part-out"
    parts = {}                          # lo -> list of output lines
    killers = []
    work = [(0, len(lines))]
    runs = 0
    while work:
        lo, hi = work.pop()
        runs += 1
        if runs > 400:
            raise common.ToolError("pvh_grammar %s keeps dying (more than 400 child runs)" % cmd)
        with open(tmp_in, "w") as f:
            f.writelines(lines[lo:hi])
        q = common.pvh([cmd, tmp_in, tmp_out] + list(extra), exe_name=EXE, env=env, check=False)
        if q.returncode == 0:
            with open(tmp_out) as f:
                parts[lo] = f.readlines()
        elif not _died(q.returncode):
            raise common.ToolError("pvh_grammar %s exited with %d on a part of the cases" % (cmd, q.returncode))
        elif hi - lo == 1:
            cid = json.loads(lines[lo])["id"] if '"tree"' not in lines[lo] else int(re.match(r'\{"id":(\d+)', lines[lo]).group(1))
            killers.append(cid)
            parts[lo] = [json.dumps(crash_observation(cmd, cid, q.returncode, layouts)) + "\n"]
        else:
            mid = (lo + hi) // 2
            work += [(mid, hi), (lo, mid)]
    with open(out_path, "w") as f:
        for lo in sorted(parts):
            f.writelines(parts[lo])
    for t in (tmp_in, tmp_out):
        if os.path.exists(t):
            os.remove(t)
    log("[harness] %d module(s) kill the harness process: case ids %s" % (len(killers), killers[:10]))
    return killers


# ---------------------------------------------------------------------------------------------
# deriving modules with TLC
# ---------------------------------------------------------------------------------------------
def spec_stamp():
    h = hashlib.sha1()
    for f in sorted(glob.glob(os.path.join(common.SPEC, "PenneAst.tla")) + glob.glob(os.path.join(common.SPEC, "PenneGrammar.tla"))
                    + glob.glob(os.path.join(common.SPEC, "MC_PenneGrammar*"))):
        h.update(open(f, "rb").read())
    h.update(repr((SCALE, SCALED_PER_FOCUS)).encode())
    return h.hexdigest()[:16]


def parse_coverage(path):
    cov = {}
    rx = re.compile(r"^<P_(\w+) line \d+, col \d+ to line \d+, col \d+ of module PenneGrammar>: (\d+):(\d+)")
    with open(path, errors="replace") as f:
        for line in f:
            if line.startswith("<P_"):
                m = rx.match(line)
                if m:
                    cov[m.group(1)] = max(cov.get(m.group(1), 0), int(m.group(3)))
    return cov


def run_tlc_focus(focus, tier, workers, timeout):
    """One TLC run (with -coverage 1).  The CASE lines stay in the output file; they are streamed by derive()."""
    cfg = "MC_PenneGrammar_%s_%s.cfg" % (focus, tier)
    module = "MC_PenneGrammar.tla"
    if focus == CELLS:
        cfg, module = "MC_PenneGrammarCells_%s.cfg" % tier, "MC_PenneGrammarCells.tla"
    tag = "grammar-%s-%s" % (focus, tier)
    out_path = os.path.join(common.WORK, tag + ".out")
    metadir = os.path.join(common.WORK, "md-" + tag)
    subprocess.run(["rm", "-rf", metadir])
    cmd = ["timeout", str(timeout), "java", "-Xss1g", "-Xmx6g", "-XX:+UseParallelGC", "-cp", JAVA_CP, "tlc2.TLC",
           "-workers", str(workers), "-metadir", metadir, "-cleanup", "-noGenerateSpecTE", "-coverage", "1",
           "-config", os.path.join(common.SPEC, cfg), os.path.join(common.SPEC, module)]
    if focus == CELLS:
        cmd.remove("-coverage")      # no productions are applied there; the vacuity guard of the cells is the family count
        cmd.remove("1")
    t0 = time.time()
    with open(out_path, "w") as out:
        p = subprocess.run(cmd, stdout=out, stderr=subprocess.STDOUT, cwd=common.SPEC)
    subprocess.run(["rm", "-rf", metadir])
    res = {"focus": focus, "output": out_path, "wall": time.time() - t0, "rc": p.returncode, "ok": False, "violated": None,
           "states": 0, "transitions": 0, "coverage": {}}
    rx = re.compile(r"^<P_(\w+) line \d+, col \d+ to line \d+, col \d+ of module PenneGrammar>: (\d+):(\d+)")
    tail = []
    with open(out_path, errors="replace") as f:
        for line in f:
            if line.startswith('<<"CASE"'):
                continue
            if line.startswith("<P_"):
                m = rx.match(line)
                if m:
                    res["coverage"][m.group(1)] = max(res["coverage"].get(m.group(1), 0), int(m.group(3)))
                continue
            m = re.match(r"^(\d+) states generated, (\d+) distinct states found", line)
            if m:
                res["transitions"], res["states"] = int(m.group(1)), int(m.group(2))
            m = re.match(r"^Error: Invariant (\S+) is violated", line)
            if m:
                res["violated"] = m.group(1)
            if "Model checking completed. No error has been found." in line:
                res["ok"] = True
            if not line.startswith(("  ", "|", "<")):
                tail.append(line.rstrip("\n"))
                if len(tail) > 40:
                    tail.pop(0)
    res["tail"] = "\n".join(tail)
    if p.returncode == 124:
        raise common.ToolError("TLC timed out after %ss on focus %s" % (timeout, focus))
    if not res["ok"] and res["violated"] is None:
        log(res["tail"])
        raise common.ToolError("TLC failed on focus %s (exit %s), see %s" % (focus, p.returncode, out_path))
    return res


def iter_cases(path):
    with open(path) as f:
        for line in f:
            if line.strip():
                yield json.loads(line)


def derive(tier, workers=4, parallel=3, use_cache=True):
    """Runs TLC on every focus and writes the derived modules to work/grammar-cases-<tier>.ndjson, one
    {id, focus, toks, tree, n} per line (streamed: a thorough run derives more than a million).
    Returns dict(cases_path, count, states, transitions, coverage, per_focus, wall, cached).  The result is cached
    (keyed by the text of the specification), so that C16 and C20 run from the same derivation."""
    os.makedirs(common.WORK, exist_ok=True)
    cache = os.path.join(common.WORK, "grammar-derived-%s.json" % tier)
    stamp = spec_stamp()
    if use_cache and os.path.exists(cache):
        try:
            d = json.load(open(cache))
            if d.get("stamp") == stamp and os.path.exists(d["cases_path"]) and os.path.getsize(d["cases_path"]) == d.get("cases_bytes"):
                d["cached"] = True
                log("[tlc] derivation reused from %s (%d modules; specification unchanged)" % (cache, d["count"]))
                return d
        except (ValueError, KeyError):
            pass
    t0 = time.time()
    timeout = {"quick": 600, "thorough": 3000}[tier]
    with concurrent.futures.ThreadPoolExecutor(max_workers=parallel) as ex:
        results = {r["focus"]: r for r in ex.map(lambda f: run_tlc_focus(f, tier, workers, timeout), FOCI + [CELLS])}
    cases_path = os.path.join(common.WORK, "grammar-cases-%s.ndjson" % tier)
    per_focus = {}
    coverage = {}
    states = transitions = count = 0
    with open(cases_path, "w") as out:
        for focus in FOCI + [CELLS]:
            r = results[focus]
            if not r["ok"]:
                # TreeOK / ToksAgree / CellsOK violated: the generator disagrees with its own unparser -- a defect of the specification
                log(r["tail"][-2000:])
                raise common.ToolError("invariant %s of PenneGrammar violated in focus %s: the specification is inconsistent" % (r["violated"], focus))
            n = 0
            families = {}
            with open(r["output"], errors="replace") as f:
                for line in f:
                    if not line.startswith('<<"CASE"'):
                        continue
                    d = common._decode_print(line.rstrip("\n"))
                    if not d or not isinstance(d[1], dict):
                        raise common.ToolError("unreadable CASE line in %s" % r["output"])
                    c = d[1]
                    case = {"id": count, "focus": focus, "toks": c["toks"], "tree": expected_tree(c["tree"]), "n": c["n"]}
                    if "cell" in c:
                        case["cell"] = c["cell"]
                        families[c["cell"]["fam"]] = families.get(c["cell"]["fam"], 0) + 1
                    out.write(json.dumps(case, separators=(",", ":")))
                    out.write("\n")
                    count += 1
                    n += 1
            os.remove(r["output"])
            per_focus[focus] = {"states": r["states"], "transitions": r["transitions"], "cases": n, "wall": round(r["wall"], 1)}
            if focus == CELLS:
                per_focus[focus]["families"] = families
                empty = [f for f in CELL_FAMILIES if not families.get(f)]
                if empty:
                    raise common.ToolError("vacuity: the cell generator emitted no cell of the families %s" % empty)
            states += r["states"]
            transitions += r["transitions"]
            for k, v in r["coverage"].items():
                coverage[k] = coverage.get(k, 0) + v
            log("[tlc] focus %-6s %8d states, %8d modules derived, %.1fs" % (focus, r["states"], n, r["wall"]))
    if count == 0:
        raise common.ToolError("TLC derived no module")
    # ---- the scaled family ------------------------------------------------------------------------------------------
    # A module is a SEQUENCE of declarations (PenneGrammar.tla, P_Module: Module ::= Decl*), so the token list of r copies
    # of a derived module denotes r copies of its declaration list: Tree(toks^r) = Tree(toks)^r.  A sample of the derived
    # modules of every focus is repeated SCALE times: whatever a front end counts per module (calls, literals, nodes,
    # nesting that is entered and left again) must not add up over declarations that have nothing to do with each other.
    n_scaled = 0
    with open(cases_path) as f:
        lines = f.readlines()
    by_focus = {}
    for ln in lines:
        c = json.loads(ln)
        by_focus.setdefault(c["focus"], []).append(c)
    with open(cases_path, "a") as out:
        for focus in FOCI:
            if focus in UNCONSTRAINED:
                continue
            cs = [c for c in by_focus.get(focus, []) if 6 <= len(c["toks"]) <= 60]
            cs.sort(key=lambda c: (-c["n"], c["id"]))
            picked = cs[:SCALED_PER_FOCUS // 2] + cs[len(cs) // 2:len(cs) // 2 + SCALED_PER_FOCUS // 2]
            for k, c in enumerate(picked):
                r = SCALE[k % len(SCALE)]
                out.write(json.dumps({"id": count, "focus": "scaled", "of": focus, "times": r, "toks": c["toks"] * r,
                                      "tree": {"decls": c["tree"]["decls"] * r}, "n": c["n"] * r}, separators=(",", ":")))
                out.write("\n")
                count += 1
                n_scaled += 1
    per_focus["scaled"] = {"states": 0, "transitions": 0, "cases": n_scaled, "wall": 0}
    log("[tlc] scaled family: %d derived modules repeated %s times" % (n_scaled, "/".join(str(x) for x in SCALE)))
    d = {"stamp": stamp, "cases_path": cases_path, "cases_bytes": os.path.getsize(cases_path), "count": count, "states": states,
         "transitions": transitions, "coverage": coverage, "per_focus": per_focus, "wall": round(time.time() - t0, 1)}
    json.dump(d, open(cache, "w"))
    d["cached"] = False
    log("[tlc] %d modules derived exhaustively in %d foci, %d states, %.1fs" % (count, len(FOCI), states, d["wall"]))
    return d


def production_coverage(coverage):
    """every production of the grammar must have been applied (vacuity guard)"""
    aliases = {"Advance": ["Advance", "AdvRef"], "FieldShort": ["FieldShort", "ShortDeref"]}
    missing = []
    for p in PRODUCTIONS:
        for action in aliases.get(p, [p]):
            if coverage.get(action, 0) == 0:
                missing.append(action)
    return missing


def simulate(count, seed, tag):
    """Random larger modules: TLC in simulation mode on the whole grammar with wide bounds."""
    path = os.path.join(common.SPEC, "MC_PenneGrammar_sim.cfg")
    if not os.path.exists(path):
        raise common.ToolError("spec/MC_PenneGrammar_sim.cfg is missing (python3 checks/grammar_cfgs.py)")
    out_path = os.path.join(common.WORK, "grammar-sim-%s.out" % tag)
    metadir = os.path.join(common.WORK, "md-grammar-sim-%s" % tag)
    cmd = ["timeout", "600", "java", "-Xss1g", "-Xmx4g", "-XX:+UseParallelGC", "-cp", JAVA_CP, "tlc2.TLC", "-workers", "4",
           "-simulate", "num=%d" % count, "-depth", "300", "-seed", str(seed), "-metadir", metadir, "-noGenerateSpecTE",
           "-config", path, os.path.join(common.SPEC, "MC_PenneGrammar.tla")]
    with open(out_path, "w") as out:
        p = subprocess.run(cmd, stdout=out, stderr=subprocess.STDOUT, cwd=common.SPEC)
    subprocess.run(["rm", "-rf", metadir])
    cases = []
    seen = set()
    ok = False
    with open(out_path, errors="replace") as f:
        for line in f:
            if line.startswith('<<"CASE"'):
                d = common._decode_print(line.rstrip("\n"))
                if d and isinstance(d[1], dict):
                    key = json.dumps(d[1]["toks"], sort_keys=True)
                    if key not in seen:
                        seen.add(key)
                        cases.append(d[1])
            elif line.startswith("The number of states generated"):
                ok = True
    if p.returncode != 0 or not ok:
        raise common.ToolError("TLC simulation failed (exit %s), see %s" % (p.returncode, out_path))
    os.remove(out_path)
    # The completed derivations TLC meets along one random walk share long prefixes: keep the largest module per
    # distinct first half, the larger the better.
    best = {}
    for c in cases:
        half = tuple(spell(t) for t in c["toks"][:max(6, len(c["toks"]) // 2)])
        if half not in best or best[half]["n"] < c["n"]:
            best[half] = c
    cases = sorted(best.values(), key=lambda c: (-c["n"], canon(c)))
    return [{"id": i, "focus": "sim", "toks": c["toks"], "tree": expected_tree(c["tree"]), "n": c["n"]} for i, c in enumerate(cases)]


# ---------------------------------------------------------------------------------------------
# corpus
# ---------------------------------------------------------------------------------------------
def corpus_files():
    files = []
    for pat in ("tests/samples/valid/*.pn", "examples/**/*.pn", "core/**/*.pn", "vendor/**/*.pn"):
        files += glob.glob(os.path.join(common.REPO, pat), recursive=True)
    return sorted(set(files))


def run_corpus(tag):
    files = corpus_files()
    if not files:
        raise common.ToolError("no corpus files under %s" % common.REPO)
    lst = os.path.join(common.WORK, "grammar-corpus-%s.list" % tag)
    out = os.path.join(common.WORK, "grammar-corpus-%s.ndjson" % tag)
    open(lst, "w").write("\n".join(files) + "\n")
    common.pvh(["corpus", lst, out], exe_name=EXE, env=PVH_ENV)
    obs = common.read_ndjson(out)
    for o in obs:
        o["rel"] = os.path.relpath(o["file"], common.REPO)
    return obs


# ---------------------------------------------------------------------------------------------
# trace validation
# ---------------------------------------------------------------------------------------------
def traceable(record):
    """A tree with a part the XML reader could not project (reported separately as delta-xml) cannot be walked by TLC."""
    for n in record.get("pre", []):
        if str(n.get("k", "?")).startswith("?") or n.get("bytes") == "?" or "?" in (n.get("v"), n.get("n")):
            return False
    return all("k" in t and t["k"] != "error" and "undecodable" not in t and t.get("v", 0) is not None for t in record.get("toks", []))


def validate_traces(records, tag, chunks=8):
    """records: [{id, toks, pre, ...}] as written by `pvh_grammar record` (accepted runs only).
    Returns (accepted_ids, rejections[{record, node_index}])."""
    records = [r for r in records if r.get("o") == "ok" and traceable(r)]
    if not records:
        return [], []
    chunks = max(1, min(chunks, len(records)))
    files = []
    parts = [records[i::chunks] for i in range(chunks)]
    for i, part in enumerate(parts):
        path = os.path.join(common.WORK, "grammar-trace-%s.%d.ndjson" % (tag, i))
        common.write_ndjson(path, [{"id": r["id"], "toks": r["toks"], "pre": r["pre"]} for r in part])
        files.append(path)
    accepted, rejected = [], []
    todo = list(zip(files, parts))
    rounds = 0
    while todo and rounds < 12:
        rounds += 1
        results = common.tlc_traces("Trace_Grammar", "Trace_Grammar.cfg", [f for f, _ in todo], parallel=8)
        by_file = {r["file"]: r for r in results}
        nxt = []
        for path, part in todo:
            res = by_file[path]
            if res["accepted"]:
                accepted += [r["id"] for r in part]
                continue
            # locate the run in which the walk stopped: each run takes len(pre) + 1 steps
            m = res["matched"]
            idx = 0
            while idx < len(part) and m >= len(part[idx]["pre"]) + 1:
                m -= len(part[idx]["pre"]) + 1
                idx += 1
            accepted += [r["id"] for r in part[:idx]]
            if idx < len(part):
                rejected.append({"record": part[idx], "node_index": m})
                rest = part[idx + 1:]
                if rest:
                    new = path[:-len(".ndjson")] + "r.ndjson"
                    common.write_ndjson(new, [{"id": r["id"], "toks": r["toks"], "pre": r["pre"]} for r in rest])
                    nxt.append((new, rest))
        todo = nxt
    return accepted, rejected


def node_kinds(tree, acc=None):
    acc = acc if acc is not None else {}
    if isinstance(tree, dict):
        if "k" in tree:
            acc[tree["k"]] = acc.get(tree["k"], 0) + 1
        for v in tree.values():
            node_kinds(v, acc)
    elif isinstance(tree, list):
        for v in tree:
            node_kinds(v, acc)
    return acc

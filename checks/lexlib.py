"""Helpers shared by the lexical checks C14 / C19 / C09 (group `lex`).

Python only *compares*: the expected token lists come from TLC evaluating spec/PenneLex.tla (CASE lines
of MC_Lex / Trace_Lex), the observed ones from harness/src/bin/pvh_lex.rs running the two real lexers.

Expected item (from TLC), short form for plain tokens, long form for errors / unconstrained items:
  [k, bs, be, cs, ce, ln, cb, cc, v, ty, by]
  [k, bs, be, cs, ce, ln, cb, cc, code, v, ty, by, ls, le, lcs, lce, ex, alt, opt, unc]
Observed item (from pvh_lex): [k, start, end, line, col, code, v, ty, by]  (offsets in the lexer's unit).
"""
import json

MAX_DELTA_ERRORS = 100      # delta stops recording lexical errors after 100 (documented assumption)


def esc(bs):
    """Printable, unambiguous rendering of a byte string (used in keys)."""
    out = []
    for b in bs:
        if b == 92:
            out.append("\\\\")
        elif b == 10:
            out.append("\\n")
        elif b == 13:
            out.append("\\r")
        elif b == 9:
            out.append("\\t")
        elif 32 <= b < 127:
            out.append(chr(b))
        else:
            out.append("\\x%02x" % b)
    return "".join(out)


class Exp:
    """One expected item, seen from generation g ('alpha': character offsets, 'delta': byte offsets)."""
    __slots__ = ("k", "start", "end", "line", "col", "code", "v", "ty", "by", "ls", "le", "ex", "alt", "opt", "unc",
                 "bs", "be", "lbs", "lbe")

    def __init__(self, raw, g):
        a = g == "alpha"
        self.k = raw[0]
        self.bs, self.be = raw[1], raw[2]
        self.start = raw[3] if a else raw[1]
        self.end = raw[4] if a else raw[2]
        self.line = raw[5]
        self.col = raw[7] if a else raw[6]
        if len(raw) == 11:
            self.code = 0
            self.v, self.ty, self.by = raw[8], raw[9], raw[10]
            self.ls, self.le = self.start, self.end
            self.lbs, self.lbe = self.bs, self.be
            self.ex, self.alt, self.opt, self.unc = True, [], False, False
        else:
            self.code = raw[8]
            self.v, self.ty, self.by = raw[9], raw[10], raw[11]
            self.ls = raw[14] if a else raw[12]
            self.le = raw[15] if a else raw[13]
            self.lbs, self.lbe = raw[12], raw[13]
            self.ex, self.alt, self.opt, self.unc = raw[16], raw[17], raw[18], raw[19]

    def short(self):
        if self.code:
            return "E%d" % self.code
        return self.k


def obs_short(o):
    if o is None:
        return "-"
    if o[0].startswith("Error"):
        return "E%d" % o[5]
    return o[0]


def limbs_to_int(v):
    return sum(b << (8 * i) for i, b in enumerate(v))


def int_to_limbs(n, count=16):
    return [(n >> (8 * i)) & 255 for i in range(count)]


def match_item(e, o, g):
    """None if the observed item o satisfies the expected item e, else a short description of the
    first field that differs: (field, expected, observed)."""
    if e.code == 0:
        if e.unc and o[0] == "Error" and o[5] == 162 and e.ls <= o[1] <= e.le and o[3] == e.line:
            return None
        if o[0] != e.k:
            return ("kind", e.short(), obs_short(o))
        if (o[1], o[2]) != (e.start, e.end):
            return ("span", "%d..%d" % (e.start, e.end), "%d..%d" % (o[1], o[2]))
        if o[3] != e.line:
            return ("line", e.line, o[3])
        if o[4] != e.col:
            return ("col", e.col, o[4])
        if list(o[6]) != list(e.v):
            return ("value", limbs_to_int(e.v) if e.v else None, limbs_to_int(o[6]) if o[6] else None)
        if o[7] != e.ty:
            return ("type", e.ty, o[7])
        if e.k in ("Identifier", "Builtin", "CharLiteral") or (e.k == "StringLiteral" and g == "alpha"):
            if list(o[8]) != list(e.by):
                return ("bytes", esc(e.by), esc(o[8]))
        return None
    # an error
    if o[0] != "Error":
        return ("kind", e.short(), obs_short(o))
    if o[5] != e.code and o[5] not in e.alt:
        if e.unc and o[5] == 162 and e.ls <= o[1] <= e.le and o[3] == e.line:
            return None
        return ("code", e.short(), obs_short(o))
    if e.code == 101:
        return None
    if o[3] != e.line:
        return ("line", e.line, o[3])
    if e.ex:
        if (o[1], o[2]) != (e.start, e.end):
            return ("span", "%d..%d" % (e.start, e.end), "%d..%d" % (o[1], o[2]))
        if o[4] != e.col:
            return ("col", e.col, o[4])
    else:
        if not (e.ls <= o[1] <= e.le):
            return ("errpos", "%d..%d" % (e.ls, e.le), "%d..%d" % (o[1], o[2]))
    return None


def compare(expected_raw, observed, g, skip=(0, 0)):
    """Walk the expected items (rule) and the observed items of generation g, starting at
    (expected index, observed index) = skip.  Returns None, or a dict describing the FIRST discrepancy."""
    exp = [Exp(r, g) for r in expected_raw]
    i, j = skip
    nerr = sum(1 for o in observed[:j] if o[0].startswith("Error"))
    while i < len(exp) or j < len(observed):
        e = exp[i] if i < len(exp) else None
        o = observed[j] if j < len(observed) else None
        if g == "delta" and nerr >= MAX_DELTA_ERRORS:
            # beyond the error budget of the second generation (MAX_NUM_LEXING_ERRORS) further ERRORS are not demanded;
            # the TOKENS behind them still are (dimension audit: texts with more than 100 illegal lexemes)
            if e is not None and e.code != 0:
                i += 1
                continue
        if e is not None and e.opt:
            if o is not None and match_item(e, o, g) is None:
                i += 1
                j += 1
                nerr += 1
            else:
                i += 1
            continue
        if e is None:
            return {"at": j, "ei": i, "field": "extra", "exp": "-", "got": obs_short(o), "e": None, "o": o}
        if o is None:
            return {"at": j, "ei": i, "field": "missing", "exp": e.short(), "got": "-", "e": e, "o": None}
        m = match_item(e, o, g)
        if m is not None:
            return {"at": j, "ei": i, "field": m[0], "exp": m[1], "got": m[2], "e": e, "o": o}
        if o[0] == "Error":
            nerr += 1
        i += 1
        j += 1
    return None


# ---------------------------------------------------------------------------
# Deviations with a precisely described input shape.  Each gets its own signature so that a
# known finding can be registered for exactly that shape and everything else is still reported.
# ---------------------------------------------------------------------------
ADD_OVERFLOW_RE = None


def crlf_lines_before(text):
    """K[L] = number of lines among 1..L-1 that end with \r\n (index L is 1-based)."""
    segs = text.split(b"\n")
    k = [0, 0]
    for i, seg in enumerate(segs[:-1]):
        k.append(k[-1] + (1 if seg.endswith(b"\r") else 0))
    return k


def adjust_alpha_crlf(items, text):
    """alpha computes offsets as if every line ending were one character: after k lines ending in \r\n
    all its offsets are k too small.  Returns the items with that shift undone."""
    k = crlf_lines_before(text)
    out = []
    for o in items:
        sh = k[o[3]] if 0 < o[3] < len(k) else 0
        out.append([o[0], o[1] + sh, o[2] + sh] + list(o[3:]))
    return out


def crlf_shift_evidence(expected_raw, items, text):
    """True / False: the first plain token that alpha reports behind a CRLF line end (identified by kind, line
    and column, which are reliable) has offsets exactly k too small / has the right offsets.  None: no such token."""
    k = crlf_lines_before(text)
    exp = {}
    for raw in expected_raw:
        if len(raw) == 11:
            exp.setdefault((raw[0], raw[5], raw[7]), raw)
    for o in items:
        sh = k[o[3]] if 0 < o[3] < len(k) else 0
        if sh > 0 and not o[0].startswith("Error"):
            e = exp.get((o[0], o[3], o[4]))
            if e is not None:
                return e[3] - o[1] == sh and e[4] - o[2] == sh
    return None


def decimal_add_overflow_shape(text):
    """a decimal literal whose first 38 digits are floor(2^128/10) and whose next digit is 6..9:
    value*10 fits in 128 bits, value*10+digit does not"""
    import re
    for m in re.finditer(rb"[0-9][0-9_]*", text):
        d = m.group(0).replace(b"_", b"")
        if d.startswith(b"0"):
            continue
        if re.match(rb"34028236692093846346337460743176821145[6-9]", d):
            return True
    return False


def valid_u_escape(bs, any_length=False):
    import re
    m = re.match(rb"\\u\{([0-9a-fA-F]+)\}" if any_length else rb"\\u\{([0-9a-fA-F]{1,6})\}", bs)
    if not m:
        return False
    c = int(m.group(1), 16)
    return c <= 0x10FFFF and not (0xD800 <= c <= 0xDFFF)


def backslash_eol_before(exp_items, text, offset):
    """is there, at or before byte `offset`, a string / character literal that ends its line with a backslash?"""
    for raw in exp_items:
        if len(raw) > 11 and raw[8] != 0:
            lbe = raw[13]
            if lbe <= offset + 1 and text[lbe - 1:lbe] == b"\\" and text[lbe:lbe + 1] in (b"\n", b"\r") \
                    and text[raw[12]:raw[12] + 1] in (b"'", b'"'):
                return True
    return False


def classify(d, g, text, exp_items):
    """d: a discrepancy from compare().  Returns (signature, resync) where resync tells whether both
    lists are still aligned after this item (the deviation replaces one item by one item)."""
    e, o = d.get("e"), d.get("o")
    if g == "alpha" and e is not None and o is not None and e.code == 162 and not e.ex \
            and text[e.lbs:e.lbs + 1] == b"'" and valid_u_escape(text[e.bs:], any_length=True) \
            and (o[0] == "CharLiteral" or o[0] == "Error") and e.ls <= o[1] <= e.le and o[3] == e.line:
        return ("alpha char-u-escape: \\u{...} inside a character literal is decoded instead of E162 "
                "(pinned by tests/parsing.rs fail_to_parse_unicode_escape_in_char)"), True
    if g == "delta":
        where = o[1] if o is not None else (e.bs if e is not None else len(text))
        if e is not None:
            where = max(where, e.bs)
        if backslash_eol_before(exp_items, text, where):
            return "delta backslash-eol: E162 instead of E161 and the line break is swallowed", False
    if g == "delta" and e is not None and o is not None and o[0] == "Error":
        at = o[1]
        if e.code == 161 and o[5] == 162 and text[at:at + 1] == b"\\" and text[at + 1:at + 2] in (b"\n", b"\r"):
            return "delta backslash-eol: E162 instead of E161 and the line break is swallowed", False
        if e.code == 160 and o[5] == 110 and text[at:at + 2] == b"\r\n":
            return "delta crlf-unclosed: E110 on the CR of CRLF instead of E160 for a literal not closed on its line", True
        if o[5] == 140 and (e.k in ("BitInteger", "SuffixedInteger") or e.code == 141):
            lexeme = text[o[1]:o[2]]
            if lexeme[:2] == b"0b" and sum(1 for b in lexeme[2:] if b in b"01") > 128 and (o[1], o[2]) == (e.start, e.end):
                return "delta bin-129-digits: E140 for a binary literal with more than 128 digits whose value fits", True
        if e.unc and o[5] == 162:
            return None, True
    return None, False


def classify_panic(g, msg, text):
    if g == "delta" and "attempt to add with overflow" in msg and decimal_add_overflow_shape(text):
        return "delta decimal-add-overflow: panic (debug) / wrap-around (release) on a decimal literal in 2^128..2^128+3"
    return None


def generic_sig(g, d):
    f = d["field"]
    if f in ("kind", "code", "missing", "extra"):
        return "%s %s: expected %s, got %s" % (g, f, d["exp"], d["got"])
    if f == "value":
        return "%s value of %s" % (g, d["e"].k)
    return "%s %s of %s" % (g, f, d["e"].short() if d.get("e") is not None else "?")


def check_lexer(expected_raw, ob, g, text):
    """All deviations of one real lexer from the rule on one text: list of (signature, detail)."""
    out = []
    if "panic" in ob:
        sig = classify_panic(g, ob["panic"], text) or ("%s panic: %s" % (g, ob["panic"][:60]))
        return [(sig, {"panic": ob["panic"]})]
    items = ob["t"]
    d = compare(expected_raw, items, g)
    if d is not None and g == "alpha" and b"\r\n" in text:
        adj = adjust_alpha_crlf(items, text)
        shifted = crlf_shift_evidence(expected_raw, items, text)
        d1 = compare(expected_raw, adj, g)
        if shifted is None:
            # no plain token behind a CRLF line end to look at: decide by the effect of undoing the shift
            shifted = d1 is None or d1["at"] > d["at"] or (d1["field"], d1["exp"], d1["got"]) != (d["field"], d["exp"], d["got"])
        if shifted:
            out.append(("alpha crlf-offset: offsets after k lines ending in CRLF are k too small",
                        {"first": _dd(d)}))
            items, d = adj, d1
    guard = 0
    while d is not None and guard < 64:
        guard += 1
        sig, resync = classify(d, g, text, expected_raw)
        out.append((sig or generic_sig(g, d), _dd(d)))
        if not resync:
            break
        # the deviation replaced one item by one item: continue behind it
        d = compare(expected_raw, items, g, skip=(d["ei"] + 1, d["at"] + 1))
    return out


def _dd(d):
    return {"at": d["at"], "field": d["field"], "expected": str(d["exp"]), "observed": str(d["got"]), "observed_item": d.get("o")}


def alpha_lines(text):
    """the lines as Rust's str::lines() yields them (split at \\n, one \\r before it removed)"""
    segs = text.decode("utf-8").split("\n")
    last = segs.pop()
    lines = [l[:-1] if l.endswith("\r") else l for l in segs]
    if last != "":
        lines.append(last)
    return lines


def alpha_lone_cr_reports(items, text):
    """alpha's E110 items that sit on a carriage return outside a literal: {index in items: byte offset}.
    Located through alpha's line and column (its offsets are shifted after CRLF); an error INSIDE a literal
    carries a column one larger than its offset says and is thereby told apart."""
    lines = alpha_lines(text)
    starts = [0]
    for l in lines:
        starts.append(starts[-1] + len(l) + 1)          # alpha's own arithmetic: characters + 1 per line
    # byte offsets of the lines in the real text
    bstarts, pos = [], 0
    for seg in text.split(b"\n"):
        bstarts.append(pos)
        pos += len(seg) + 1
    out = {}
    for i, o in enumerate(items):
        ln, col = o[3], o[4]
        if o[0] != "Error" or o[5] != 110 or o[2] - o[1] != 1 or not (1 <= ln <= len(lines)):
            continue
        if o[1] - starts[ln - 1] != col:
            continue
        line = lines[ln - 1]
        if col < len(line) and line[col] == "\r":
            out[i] = bstarts[ln - 1] + len(line[:col].encode("utf-8"))
    return out


def norm_for_agreement(items, g, text):
    """What the agreement clause of C14 compares: kinds, values, suffix types, payload bytes and error
    codes (no offsets).  `return` is a keyword only for delta; consecutive E110 of delta on the bytes of
    ONE non-ASCII character count once (alpha is character oriented)."""
    out = []
    prev_err_end = None
    for o in items:
        k = o[0]
        if k == "EndOfSource":
            continue
        if k.startswith("Error"):
            if g == "delta" and o[5] == 110 and o[2] - o[1] == 1 and o[1] < len(text) and 128 <= text[o[1]] < 192 \
                    and prev_err_end == o[1]:
                prev_err_end = o[2]
                continue                      # continuation byte of the character already reported
            out.append((("E", o[5]), o))
            prev_err_end = o[2] if (o[5] == 110 and o[2] - o[1] == 1) else None
            continue
        prev_err_end = None
        if k == "Return":
            out.append((("T", "Identifier", (), "", tuple(b"return")), o))
            continue
        by = tuple(o[8]) if k in ("Identifier", "Builtin", "CharLiteral") else ()
        out.append((("T", k, tuple(o[6]), o[7], by), o))
    return out


def agreement(obs, text):
    """Differences between the two lexers on kinds / values / codes: list of (signature, detail).
    A lone carriage return that alpha reports as E110 and delta skips is recognised as such (one
    signature) and the comparison continues without it."""
    if "a" not in obs:
        return []
    a, d = obs["a"], obs["d"]
    out = []
    if "panic" in a or "panic" in d:
        if "panic" in a and "panic" in d:
            return []
        return [("agree panic: alpha %s, delta %s" % ("panics" if "panic" in a else "returns", "panics" if "panic" in d else "returns"), {})]
    at, dt = a["t"], d["t"]
    if b"return!" in text:
        return []            # `return` is reserved by delta only: `return!` is a builtin for alpha (documented exception)
    if b"\r" in text:
        rep_a = alpha_lone_cr_reports(at, text)
        if rep_a:
            positions = set(rep_a.values())
            rep_d = {i: o[1] for i, o in enumerate(dt) if o[0] == "Error" and o[5] == 110 and o[2] - o[1] == 1 and o[1] in positions}
            both = positions & set(rep_d.values())
            capped = sum(1 for o in dt if o[0].startswith("Error")) >= MAX_DELTA_ERRORS
            if positions - both and not capped:      # (beyond its 100 errors the second generation reports none)
                out.append(("agree lone-cr: alpha reports E110 for a carriage return without line feed, delta skips it", {}))
            at = [o for i, o in enumerate(at) if i not in rep_a]
            dt = [o for i, o in enumerate(dt) if i not in rep_d]
    r = _agree_lists(at, dt, text)
    if r is not None:
        sig = "agree: alpha %s, delta %s" % (r["alpha"].split("=")[0], r["delta"].split("=")[0])
        if r.get("delta_item") is not None:
            o = r["delta_item"]
            import re
            if o[0] == "Error" and o[5] == 162 and re.match(rb"\\u\{[0-9a-fA-F]{7,}\}", text[o[1]:]):
                sig = "agree unicode-escape-7-digits: \\u{...} with more than six digits is accepted by alpha, E162 for delta"
        out.append((sig, r))
    return out


def _agree_lists(at, dt, text):
    na = norm_for_agreement(at, "alpha", text)
    nd = norm_for_agreement(dt, "delta", text)
    # the second generation records at most MAX_DELTA_ERRORS lexical errors (raw Error tokens, one per byte of a
    # non-ASCII character); once it has used them up, errors that only alpha reports are not a disagreement,
    # the tokens still must agree
    capped = sum(1 for o in dt if o[0].startswith("Error")) >= MAX_DELTA_ERRORS
    left = sum(1 for x, _ in nd if x[0] == "E")          # delta errors not yet consumed
    i = j = 0
    while i < len(na) or j < len(nd):
        x, xo = na[i] if i < len(na) else (None, None)
        y, yo = nd[j] if j < len(nd) else (None, None)
        if capped and left == 0 and x is not None and x[0] == "E" and (y is None or y[0] != "E"):
            i += 1
            continue
        if x != y:
            return {"field": "agree", "at": i, "alpha": _ashort(x), "delta": _ashort(y), "alpha_item": xo, "delta_item": yo}
        if y[0] == "E":
            left -= 1
        i += 1
        j += 1
    return None


def _ashort(x):
    if x is None:
        return "-"
    if x[0] == "E":
        return "E%d" % x[1]
    s = x[1]
    if x[2]:
        s += "=%d" % limbs_to_int(x[2])
    if x[3]:
        s += ":" + x[3]
    return s


def tlc_simulate(module, cfg, traces, seed, workers, timeout, tag, env=None):
    """TLC in simulation mode (`-simulate num=<traces>`): common.tlc only recognises the end of an exhaustive
    run, so the simulation runs are driven here.  Returns (cases, states checked, wall seconds)."""
    import os
    import re
    import shutil
    import subprocess
    import time
    from . import common
    os.makedirs(common.WORK, exist_ok=True)
    metadir = os.path.join(common.WORK, "md-" + tag)
    shutil.rmtree(metadir, ignore_errors=True)
    out_path = os.path.join(common.WORK, tag + ".out")
    cmd = ["timeout", str(timeout), "java", "-Xss1g", "-Xmx6g", "-XX:+UseParallelGC", "-cp", common.tlc_java_cp(), "tlc2.TLC",
           "-workers", str(workers), "-metadir", metadir, "-cleanup", "-noGenerateSpecTE", "-simulate", "num=%d" % traces,
           "-seed", str(seed), "-config", os.path.join(common.SPEC, cfg), os.path.join(common.SPEC, module + ".tla")]
    e = dict(os.environ)
    if env:
        e.update(env)
    t0 = time.time()
    with open(out_path, "w") as out:
        p = subprocess.run(cmd, stdout=out, stderr=subprocess.STDOUT, env=e, cwd=common.SPEC)
    wall = time.time() - t0
    cases, states, bad = [], 0, None
    with open(out_path, errors="replace") as f:
        for line in f:
            line = line.rstrip("\n")
            if line.startswith('<<"CASE"'):
                d = common._decode_print(line)
                if d:
                    cases.append(d[1])
                continue
            m = re.match(r"^The number of states generated: (\d+)", line)
            if m:
                states = int(m.group(1))
            if line.startswith("Error:"):
                bad = line
    shutil.rmtree(metadir, ignore_errors=True)
    if p.returncode == 124:
        raise common.ToolError("TLC simulation timed out on %s/%s" % (module, cfg))
    if bad or not states:
        raise common.ToolError("TLC simulation failed on %s/%s: %s (see %s)" % (module, cfg, bad, out_path))
    os.remove(out_path)
    return cases, states, wall


def jdump(x):
    return json.dumps(x, separators=(",", ":"))

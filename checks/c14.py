"""C14 -- Both lexers implement the same lexical grammar, with exact spans.

spec/PenneLex.tla is the rule (reference lexer, a byte-at-a-time automaton written from the docs and the
property statement).  spec -> impl: TLC (MC_Lex) builds every text up to 3 (quick) / 4 (thorough, 49
chunks by first symbol) symbols over a 49-symbol alphabet, checks the tiling invariants on the reference
output and emits the expected token lists; pvh_lex runs BOTH real lexers on every text; Python compares.
impl -> spec: random token soups / arbitrary bytes are lexed by the real lexers, recorded, and TLC
(Trace_Lex) lexes the logged bytes again and accepts or rejects every recording.
"""
import collections
import concurrent.futures
import json
import os
import random

from . import common, lexlib, c14_big
from .common import log

NSYM = 49
RECORD_COUNT = {"quick": 1500, "thorough": 7000}
# dimension audit: long random texts (10..180 KB), recorded as line-aligned windows (random, the end, around 2^12 / 2^16 / 2^17)
RECORD_BIG = {"quick": 12, "thorough": 72}
SIM_TRACES = 300

RULE_TEXT = (
    "spec->impl: TLC enumerates EVERY text of up to N symbols (N=3 quick, N=4 thorough) over 49 lexically significant "
    "symbols (letters a b x u i n r t f _, digits 0 1 2 8 9, all operator characters, both quotes, backslash, space, tab, "
    "LF, CR, U+00E9, U+20AC, a control byte, @, an invalid UTF-8 byte), runs the reference automaton PenneLex for both "
    "generations, checks the tiling invariants (spans ordered / disjoint / covering every non-blank non-comment byte, "
    "line and column, spellings, maximal munch, integer payload = Wide!Parse) and emits the expected items; both real "
    "lexers are run on every text and kinds, payload limbs, suffix types, identifier / string bytes, spans, line, column "
    "and error codes are compared with the rule, and the two lexers with each other (kinds, values, codes; `return` and "
    "per-byte E110 excepted). Family MC_LexAlias: for 26 lexically significant ASCII bytes b the scalar values b + 2^8, b + 2^10 "
    "(thorough: also b + 2^13, b + 2^16; their low byte / low seven bits are b) after an identifier, keyword, integer, suffix, "
    "radix prefix, inside literals and comments, at both ends of the text (16 prefixes x 8 suffixes). "
    "Family MC_LexNumbers: hexadecimal / binary / decimal literals of 31..33 / 127..129 digits and around 2^128 / 10^39 with 0..2 leading "
    "zeros, the digit separator nowhere / in groups / after every digit / at the end, with and without a suffix (516 texts). "
    "Second enumerated family (MC_LexPairs): every ordered pair of representative token spellings "
    "(80 quick / 173 thorough: every operator, keyword, type, identifier / integer / char / string spelling class incl. 128-bit "
    "literals and all suffixes) joined by 8 separators (nothing, space, tab, LF, CRLF, comments, mixed). Thorough only: random texts of 5..12 symbols "
    "by TLC simulation (sampled, not exhaustive). impl->spec: random token soups in random spellings/layouts (all token kinds, boundary "
    "integers, every escape form, CRLF/LF/mixed line ends, comments, a few illegal lexemes) and arbitrary bytes (delta "
    "only) are lexed by the real lexers and every recording is validated by TLC (Trace_Lex: the logged bytes are lexed "
    "again by PenneLex and every logged item must satisfy the next reference item). Non-trivial = distinct texts for "
    "which the rule yields at least one token or lexical error. Dimension audit: (a) MC_LexBig: SCALED texts Fill^n Pad^q Tail "
    "(17 fillers: one token / payload / error / comment / CRLF per line, dense and half-dense one-line fillers; 12 tails: last token at "
    "the very end with / without LF / CRLF / comment, unclosed literal, lone CR) and Head Unit^n Rest (22 lexemes that grow inside: "
    "identifiers, separators next to prefix and suffix, leading zeros, strings, comments, blanks); TLC checks the scaling lemmas "
    "(RepLemma n<=3, GrowLemma 3 points) on the reference lexer and emits the small items; the check expands them so that a token "
    "ends / starts exactly at 256, 4096, 65536, line / token / error / payload counts cross 100, 256, 1024, 65536 and lexeme lengths "
    "and columns cross 256, 4096, 65536; E103 is unconstrained above 65536 tokens (as in C15). (b) long random texts (10..180 KB) "
    "recorded as line-aligned windows (random, the END of the text, around 2^12 / 2^16 / 2^17) with rebased offsets, both lexers; "
    "the first long text counts (70 000 lines `k 0xk ku32`: 210 000 payloads), every sixth has 12 arbitrary bytes (delta only).")

ASSUMPTIONS = [
    "TLC's evaluation of spec/PenneLex.tla is the oracle; Python only compares (checks/lexlib.py) and classifies deviations by input shape",
    "the rule was written from docs/syntax.md, docs/features.md, docs/errors.md (E1xx) and the statements of C14/C09; "
    "unconstrained cells (docs silent): a carriage return without line feed outside literals (blank or E110), \\u{...} with "
    "more than six digits (value or E162), the code of a literal that is both too big and badly suffixed (E140 or E141), "
    "line/column of E101, the exact extent of an error inside a string/char literal (it must start inside the literal, on its line)",
    "documented generation differences switched by the parameter g: `return` reserved by delta; alpha counts offsets/columns in "
    "characters and reports one E110 per offending character, delta counts bytes and reports one E110 per byte; delta ends with two EndOfSource tokens",
    "delta stops recording lexical errors after 100 (MAX_NUM_LEXING_ERRORS); beyond the 100th error of a text further ERRORS are not "
    "demanded of the second generation, the tokens behind them still are",
    "scaled texts: what n copies of a filler do to the reference lexing (RepLemma, GrowLemma of spec/MC_LexBig.tla) is checked by TLC "
    "for n <= 3 and extended to large n by the check (the automaton is in its start state after every copy); windows of long texts start "
    "at line starts, offsets and line numbers are rebased by the harness (subtraction only)",
    "delta does not decode string literals: the bytes of a string literal are compared for alpha only",
    "NumValue (fast limb construction in PenneLex) is checked against Wide!Parse by the tiling invariant on every enumerated integer literal",
]


def text_key(sig, text):
    if hasattr(text, "parts"):
        # a scaled text (checks/c14_big.py): the key names the recipe, not a megabyte of text
        return "%s :: scaled %s" % (sig, " + ".join("%s x %d" % (lexlib.esc(bytes(u)), n) for u, n in text.parts if n))
    return "%s :: %s" % (sig, lexlib.esc(text))


def text_detail(text):
    if hasattr(text, "parts"):
        return {"parts": text.parts, "bytes": len(text), "text_repr": lexlib.esc(text[:60]) + " ... " + lexlib.esc(text[-60:])}
    return {"text": list(text), "text_repr": lexlib.esc(text)}


def trim(items, detail):
    """observed / expected lists of a scaled text: the neighbourhood of the first deviation only"""
    if not isinstance(items, list) or len(items) <= 40:
        return items
    at = detail.get("at", 0) if isinstance(detail, dict) else 0
    return {"around_item": at, "items": items[max(0, at - 5):at + 6], "count": len(items)}


class Tally:
    def __init__(self):
        self.texts = 0
        self.evaluations = 0
        self.matched = 0
        self.nontrivial = set()
        self.sigs = collections.Counter()
        self.kinds = collections.Counter()
        self.samples = []


def judge_text(rep, tally, text, utf8, exp_d, exp_a, obs, origin):
    """Compare both real lexers with the rule and with each other on one text."""
    structural = False
    for g, exp in (("delta", exp_d), ("alpha", exp_a)):
        if g == "alpha" and not utf8:
            continue
        tally.evaluations += 1
        devs = lexlib.check_lexer(exp, obs[g[0]], g, text)
        if not devs:
            tally.matched += 1
        for sig, detail in devs:
            tally.sigs[sig] += 1
            if not sig.startswith("alpha crlf-offset"):
                structural = True
            big = hasattr(text, "parts")
            rep.violation("lex", text_key(sig, text),
                          dict(text_detail(text), generation=g, problem=sig, detail=detail,
                               expected=trim(exp, detail) if big else exp,
                               observed={"t": trim(obs[g[0]].get("t"), detail)} if big and "t" in obs[g[0]] else obs[g[0]],
                               origin=origin, how="bin/check C14 --replay <this file>"))
    if utf8 and not structural:
        # agreement clause: kinds, values and codes of the two lexers (a deviation from the rule reported above
        # already implies the disagreement; it is not reported twice)
        for sig, detail in lexlib.agreement(obs, text):
            tally.sigs[sig] += 1
            big = hasattr(text, "parts")
            rep.violation("agree", text_key(sig, text),
                          dict(text_detail(text), problem=sig, alpha=detail if big else obs["a"], delta=None if big else obs["d"],
                               origin=origin, how="bin/check C14 --replay <this file>"))


def replay_cases(rep, tally, cases, tag):
    """spec -> impl for one batch of CASEs emitted by TLC."""
    texts_path = os.path.join(common.WORK, "C14-texts-%s.ndjson" % tag)
    obs_path = os.path.join(common.WORK, "C14-obs-%s.ndjson" % tag)
    with open(texts_path, "w") as f:
        for c in cases:
            f.write(json.dumps(c["s"], separators=(",", ":")) + "\n")
    common.pvh(["replay", texts_path, obs_path], exe_name="pvh_lex")
    observations = common.read_ndjson(obs_path)
    if len(observations) != len(cases):
        raise common.ToolError("replay returned %d observations for %d cases" % (len(observations), len(cases)))
    for c, o in zip(cases, observations):
        text = bytes(c["s"])
        if c["u"] != o["u"]:
            raise common.ToolError("UTF-8 validity: spec says %s, Rust says %s for %r" % (c["u"], o["u"], text))
        tally.texts += 1
        if any(it[0] != "EndOfSource" and not (len(it) > 11 and it[8] == 101) for it in c["d"]):
            tally.nontrivial.add(text)
        for it in c["d"]:
            tally.kinds[it[0] if (len(it) == 11 or it[8] == 0) else "E%d" % it[8]] += 1
        judge_text(rep, tally, text, c["u"], c["d"], c["a"], o, "enumeration")
    if len(tally.samples) < 4 and cases:
        i = (len(cases) * 7) // 11
        tally.samples.append({"text": lexlib.esc(bytes(cases[i]["s"])), "expected_delta": cases[i]["d"],
                              "observed": observations[i]})
    for p in (texts_path, obs_path):
        os.remove(p)


def run_enumeration(rep, tier, tally, seed=1):
    stats = {"generated": 0, "distinct": 0, "wall": 0.0, "runs": 0, "ok": True, "violated": None}

    def one(cfg, first, tag, workers):
        env = {"LEX_FIRST": str(first)}
        return common.tlc("MC_Lex", cfg, workers=workers, timeout=1700, heap="6g", env=env, tag=tag, keep_output=False)

    def absorb(r, tag):
        stats["generated"] += r.generated
        stats["distinct"] += r.distinct
        stats["wall"] += r.wall
        stats["runs"] += 1
        if not r.ok:
            stats["ok"] = False
            stats["violated"] = r.violated
            log("[tlc] MC_Lex %s: INVARIANT %s VIOLATED (the reference automaton contradicts its own tiling rules)\n%s"
                % (tag, r.violated, r.tail[-2500:]))
        if not r.cases:
            raise common.ToolError("TLC emitted no cases (%s)" % tag)
        replay_cases(rep, tally, r.cases, tag)

    if tier == "quick":
        r = one("MC_Lex_quick.cfg", 0, "C14-mc-quick", 8)
        log("[tlc] MC_Lex/MC_Lex_quick.cfg: %d states, %d cases, %.1fs, %s" %
            (r.distinct, len(r.cases), r.wall, "tiling invariants hold" if r.ok else "INVARIANT VIOLATED"))
        absorb(r, "quick")
    else:
        r = one("MC_Lex_empty.cfg", 0, "C14-mc-empty", 2)
        absorb(r, "empty")
        with concurrent.futures.ThreadPoolExecutor(max_workers=3) as pool:
            futs = {pool.submit(one, "MC_Lex_thorough.cfg", c, "C14-mc-t%d" % c, 5): c for c in range(1, NSYM + 1)}
            for fut in concurrent.futures.as_completed(futs):
                c = futs[fut]
                r = fut.result()
                absorb(r, "t%d" % c)
                log("[tlc] MC_Lex thorough chunk %d/%d: %d states, %.1fs; %d texts compared so far, %d violations" %
                    (stats["runs"] - 1, NSYM, r.distinct, r.wall, tally.texts, len(rep.violations)))
    if tier == "thorough":
        # sampled beyond the exhaustive bound: TLC simulation, random texts of 5..12 symbols
        cases, states, wall = lexlib.tlc_simulate("MC_Lex", "MC_Lex_sim.cfg", SIM_TRACES, seed, 6, 1700, "C14-mc-sim",
                                                  env={"LEX_FIRST": "0"})
        seen = set()
        longer = []
        for c in cases:
            k = bytes(c["s"])
            if c["n"] > 4 and k not in seen:
                seen.add(k)
                longer.append(c)
        log("[tlc] MC_Lex -simulate: %d states checked, %d distinct texts of 5..12 symbols, %.1fs" % (states, len(longer), wall))
        stats["generated"] += states
        stats["distinct"] += len(longer)
        stats["sim_texts"] = len(longer)
        stats["runs"] += 1
        if longer:
            replay_cases(rep, tally, longer, "sim")
    # second family: every ordered pair of token spellings x separators
    cfg = "MC_LexPairs_%s.cfg" % tier
    r = common.tlc("MC_LexPairs", cfg, workers=8, timeout=1700, heap="6g", tag="C14-mc-pairs", keep_output=False)
    log("[tlc] MC_LexPairs/%s: %d states, %d token-pair texts, %.1fs, %s" %
        (cfg, r.distinct, len(r.cases), r.wall, "tiling invariants hold" if r.ok else "INVARIANT VIOLATED"))
    stats["pair_texts"] = len(r.cases)
    absorb(r, "pairs")
    # third family: characters outside ASCII whose truncated code point aliases a lexical class, in every position
    cfg = "MC_LexAlias_%s.cfg" % tier
    r = common.tlc("MC_LexAlias", cfg, workers=6, timeout=1700, heap="4g", tag="C14-mc-alias", keep_output=False)
    log("[tlc] MC_LexAlias/%s: %d states, %d texts with a class-aliasing character, %.1fs, %s" %
        (cfg, r.distinct, len(r.cases), r.wall, "tiling invariants hold" if r.ok else "INVARIANT VIOLATED"))
    stats["alias_texts"] = len(r.cases)
    absorb(r, "alias")
    # fourth family: integer literals at the 128-bit boundary in every spelling (leading zeros, digit separators, suffix)
    r = common.tlc("MC_LexNumbers", "MC_LexNumbers.cfg", workers=6, timeout=1700, heap="4g", tag="C14-mc-numbers", keep_output=False)
    log("[tlc] MC_LexNumbers: %d states, %d boundary literals, %.1fs, %s" %
        (r.distinct, len(r.cases), r.wall, "tiling invariants hold" if r.ok else "INVARIANT VIOLATED"))
    stats["number_texts"] = len(r.cases)
    absorb(r, "numbers")
    return stats


def rejected_of(result):
    out = []
    for line in open(result["output"], errors="replace"):
        if line.startswith('<<"REJECT"'):
            d = common._decode_print(line.rstrip("\n"))
            if d and isinstance(d[1], dict):
                out.append((int(d[1]["l"]), int(d[1]["j"])))
    return out


def run_traces(rep, tier, seed, tally, selftest):
    count = RECORD_COUNT[tier]
    chunks = 12
    prefix = os.path.join(common.WORK, "C14-trace")
    for c in range(chunks):
        for f in ("%s.%d.ndjson" % (prefix, c), "%s.big.%d.ndjson" % (prefix, c)):
            if os.path.exists(f):
                os.remove(f)
    common.pvh(["record", count, seed, prefix, chunks, RECORD_BIG[tier]], exe_name="pvh_lex")
    files = [f for f in ("%s.%d.ndjson" % (prefix, c) for c in range(chunks)) if os.path.exists(f)]
    files += [f for f in ("%s.big.%d.ndjson" % (prefix, c) for c in range(chunks)) if os.path.exists(f) and os.path.getsize(f) > 0]
    results = common.tlc_traces("Trace_Lex", "Trace_Lex_validate.cfg", files, timeout=1700, parallel=12)
    info = {"recordings": 0, "accepted": 0, "rejected": 0, "texts": 0, "items": 0, "agreement_checked": 0,
            "windows_of_long_texts": 0, "longest_text": 0}
    sample = None
    pending = []
    for res in results:
        recs = common.read_ndjson(res["file"])
        info["recordings"] += len(recs)
        info["items"] += sum(len(r["t"]) for r in recs)
        info["windows_of_long_texts"] += sum(1 for r in recs if "big" in r)
        info["longest_text"] = max([info["longest_text"]] + [r["len"] for r in recs if "big" in r])
        rej = rejected_of(res)
        if res["total"] != len(recs) or res["matched"] != len(recs) - len(rej) or (not res["accepted"] and not rej):
            raise common.ToolError("Trace_Lex bookkeeping: %s vs %d recordings / %d REJECT lines" % (res, len(recs), len(rej)))
        info["accepted"] += len(recs) - len(rej)
        info["rejected"] += len(rej)
        tally.evaluations += len(recs)
        tally.matched += len(recs) - len(rej)
        if sample is None and recs:
            sample = {"recording": {"g": recs[0]["g"], "text": lexlib.esc(bytes(recs[0]["s"])), "items": recs[0]["t"][:6]}}
        rejected_idx = {l - 1 for l, _ in rej}
        # group the recordings of one text (delta first, then alpha)
        groups = []
        for i, r in enumerate(recs):
            if r["g"] == "delta":
                groups.append([i])
            else:
                groups[-1].append(i)
        info["texts"] += len(groups)
        for grp in groups:
            tally.nontrivial.add(bytes(recs[grp[0]]["s"]))
        need = [grp for grp in groups if any(i in rejected_idx for i in grp)]
        sub = None
        if need:
            sub = res["file"].replace(".ndjson", ".rej.ndjson")
            common.write_ndjson(sub, [recs[grp[0]] for grp in need])
        pending.append((res, recs, groups, need, sub, rejected_idx))

    # TLC explains the rejected recordings: it emits the reference lexing of those texts (Trace_Lex_emit.cfg)
    def emit(sub):
        return common.tlc("Trace_Lex", "Trace_Lex_emit.cfg", workers=1, timeout=1700, heap="3g", env={"TRACE": sub},
                          tag="C14-emit-" + os.path.basename(sub).replace(".ndjson", ""), keep_output=False)
    with concurrent.futures.ThreadPoolExecutor(max_workers=8) as pool:
        emitted = {sub: pool.submit(emit, sub) for (_, _, _, _, sub, _) in pending if sub}
        emitted = {sub: f.result() for sub, f in emitted.items()}
    for res, recs, groups, need, sub, rejected_idx in pending:
        if need:
            by_i = {c["i"]: c for c in emitted[sub].cases}
            for n, grp in enumerate(need, 1):
                c = by_i.get(n)
                if c is None or c["s"] != recs[grp[0]]["s"]:
                    raise common.ToolError("emit run does not line up with the rejected recordings of %s" % res["file"])
                text = bytes(c["s"])
                obs = {"u": c["u"]}
                for i in grp:
                    r = recs[i]
                    t = r["t"]
                    obs[r["g"][0]] = {"panic": t[0][7]} if (t and t[0][0] == "Panic") else {"t": t}
                total_before = sum(tally.sigs.values())
                tally.evaluations -= len(grp)          # counted above already
                judge_text(rep, tally, text, c["u"], c["d"], c["a"], obs, "recording rejected by Trace_Lex")
                if sum(tally.sigs.values()) == total_before:
                    # TLC rejected it but the comparator sees no deviation: never silently ignore that
                    rep.violation("trace", text_key("rejected by Trace_Lex, no deviation found by the comparator", text),
                                  {"text": list(text), "recordings": [recs[i] for i in grp], "expected_delta": c["d"]})
        # the agreement clause on random texts whose recordings were accepted
        for grp in groups:
            if len(grp) == 2 and not any(i in rejected_idx for i in grp):
                text = bytes(recs[grp[0]]["s"])
                obs = {"d": {"t": recs[grp[0]]["t"]}, "a": {"t": recs[grp[1]]["t"]}}
                info["agreement_checked"] += 1
                for sig, detail in lexlib.agreement(obs, text):
                    tally.sigs[sig] += 1
                    rep.violation("agree", text_key(sig, text), {"text": list(text), "text_repr": lexlib.esc(text),
                                                                 "problem": sig, "alpha": obs["a"], "delta": obs["d"],
                                                                 "origin": "recording"})
    log("[trace] %d recordings of %d random texts (%d items): %d accepted by TLC, %d rejected; agreement checked on %d texts" %
        (info["recordings"], info["texts"], info["items"], info["accepted"], info["rejected"], info["agreement_checked"]))
    selftests = {}
    if selftest and files:
        selftests = trace_selftest(files[0])
    return info, sample, selftests


def trace_selftest(path):
    """Corrupt accepted recordings (a span end, a payload limb, a dropped item, a kind): TLC must reject each."""
    recs = common.read_ndjson(path)
    good = common.tlc_traces("Trace_Lex", "Trace_Lex_validate.cfg", [path])[0]
    bad_idx = {l - 1 for l, _ in rejected_of(good)}
    pool = [r for i, r in enumerate(recs) if i not in bad_idx and len(r["t"]) >= 4]

    def mutate(r, how):
        r = json.loads(json.dumps(r))
        t = r["t"]
        if how == "span_end_one_short":
            k = next(i for i, it in enumerate(t) if it[0] not in ("EndOfSource", "Error") and it[2] - it[1] >= 2)
            t[k][2] -= 1
        elif how == "payload_limb":
            k = next(i for i, it in enumerate(t) if it[6])
            t[k][6][0] = (t[k][6][0] + 1) % 256
        elif how == "dropped_item":
            k = next(i for i, it in enumerate(t) if it[0] not in ("EndOfSource",))
            del t[k]
        elif how == "line_number":
            t[0][3] += 1
        return r
    tests = []
    for how in ("span_end_one_short", "payload_limb", "dropped_item", "line_number"):
        for r in pool:
            try:
                tests.append((how, mutate(r, how)))
                break
            except StopIteration:
                continue
    p = os.path.join(common.WORK, "C14-selftest.ndjson")
    common.write_ndjson(p, [r for _, r in tests])
    res = common.tlc_traces("Trace_Lex", "Trace_Lex_validate.cfg", [p])[0]
    rej = {l - 1 for l, _ in rejected_of(res)}
    return {"corrupted_recording_%s_rejected" % how: (i in rej) for i, (how, _) in enumerate(tests)}


def replay_selftest():
    """Corrupt observations of the replay direction: the comparator must flag each."""
    exp = [["IsLE", 0, 2, 0, 2, 1, 0, 0, [], "", []], ["NakedDecimal", 3, 5, 3, 5, 1, 3, 3, lexlib.int_to_limbs(12), "", []],
           ["EndOfSource", 5, 5, 5, 5, 1, 5, 5, [], "", []], ["EndOfSource", 5, 5, 5, 5, 1, 5, 5, [], "", []]]
    good = [["IsLE", 0, 2, 1, 0, 0, [], "", []], ["NakedDecimal", 3, 5, 1, 3, 0, lexlib.int_to_limbs(12), "", []],
            ["EndOfSource", 5, 5, 1, 5, 0, [], "", []], ["EndOfSource", 5, 5, 1, 5, 0, [], "", []]]
    out = {"unmodified_observation_accepted": lexlib.compare(exp, good, "delta") is None}
    split = [["AngleLeft", 0, 1, 1, 0, 0, [], "", []], ["Assignment", 1, 2, 1, 1, 0, [], "", []]] + good[1:]
    out["le_split_detected"] = lexlib.compare(exp, split, "delta") is not None
    short = json.loads(json.dumps(good))
    short[0][2] = 1
    out["span_end_one_short_detected"] = lexlib.compare(exp, short, "delta") is not None
    wrapped = json.loads(json.dumps(good))
    wrapped[1][6] = lexlib.int_to_limbs(13)
    out["wrong_value_detected"] = lexlib.compare(exp, wrapped, "delta") is not None
    a = {"a": {"t": [["NakedDecimal", 0, 2, 1, 0, 0, lexlib.int_to_limbs(12), "", []]]},
         "d": {"t": [["NakedDecimal", 0, 2, 1, 0, 0, lexlib.int_to_limbs(13), "", []]]}}
    out["lexer_disagreement_detected"] = bool(lexlib.agreement(a, b"12"))
    return out


def run(rep, tier, seed, selftest):
    selftest = selftest or tier == "thorough"
    common.build_harness()
    os.makedirs(common.WORK, exist_ok=True)
    tally = Tally()
    stats = run_enumeration(rep, tier, tally, seed)
    # dimension audit: scaled texts (offsets / lines / columns / lengths / counts beyond 2^8, 2^12, 2^16)
    big = c14_big.run(rep, tier, tally, judge_text, selftest)
    stats["generated"] += big["tlc_generated"]
    stats["distinct"] += big["tlc_states"]
    stats["runs"] += 1
    log("[replay] %d texts enumerated by TLC and lexed by both real lexers; %d violations so far" %
        (tally.texts, len(rep.violations)))
    enumerated = tally.texts
    info, sample, selftests = run_traces(rep, tier, seed, tally, selftest)
    if selftest:
        selftests.update(replay_selftest())
        selftests.update(big.pop("selftests", {}))
        log("[selftest] %s" % json.dumps(selftests))
        for name, ok in selftests.items():
            if not ok:
                raise common.ToolError("self-test %s failed: the binding does not detect a corrupted observation" % name)
    # vacuity guard: every token kind and every lexical error code of the rule occurred in the expected lists
    needed = {"Identifier", "Builtin", "NakedDecimal", "BitInteger", "SuffixedInteger", "CharLiteral", "StringLiteral",
              "ValueTypeKeyword", "Fn", "If", "Placeholder", "IsLE", "Dots", "PipeForType", "Arrow", "E101", "E110", "E141",
              "E160", "E161", "E162", "E163"}
    missing = sorted(needed - set(tally.kinds))
    if missing:
        raise common.ToolError("vacuity: the enumeration never produced %s" % missing)
    for sig, n in tally.sigs.most_common():
        log("[deviation] %6d x %s" % (n, sig))
    coverage = {
        "states": stats["distinct"],
        "transitions": stats["generated"],
        "traces_validated_against_impl": tally.matched,
        "samples": tally.samples + ([sample] if sample else []),
        "evaluations": tally.evaluations,
        "distinct_nontrivial": len(tally.nontrivial),
        "rule": RULE_TEXT,
        "exhaustive": True,
        "texts_enumerated": enumerated,
        "alphabet_symbols": NSYM,
        "max_symbols": 3 if tier == "quick" else 4,
        "tlc_runs": stats["runs"],
        "token_pair_texts": stats.get("pair_texts", 0),
        "class_aliasing_character_texts": stats.get("alias_texts", 0),
        "boundary_literal_texts": stats.get("number_texts", 0),
        "scaled_texts": big,
        "windows_of_long_random_texts": info["windows_of_long_texts"],
        "longest_random_text_bytes": info["longest_text"],
        "simulated_longer_texts": stats.get("sim_texts", 0),
        "tiling_invariants_hold": stats["ok"],
        "violated_invariant": stats["violated"],
        "reference_kinds_seen": len(tally.kinds),
        "random_texts_recorded": info["texts"],
        "recordings": info["recordings"],
        "recordings_accepted_by_tlc": info["accepted"],
        "recordings_rejected_by_tlc": info["rejected"],
        "recorded_items": info["items"],
        "agreement_checked_on_random_texts": info["agreement_checked"],
        "deviation_signatures": dict(tally.sigs),
        "selftests": selftests,
    }
    return rep.finish("model_checking", coverage, ASSUMPTIONS)


def replay(path):
    d = json.load(open(path))
    det = d.get("detail", {})
    print("kind:", d.get("kind"))
    print("key :", d.get("key"))
    text = det.get("text")
    if text is None and det.get("parts"):
        # a scaled text: rebuild it from the recipe and run both lexers again
        print("problem:", det.get("problem"))
        print("recipe :", " + ".join("%s x %d" % (lexlib.esc(bytes(u)), n) for u, n in det["parts"]), "(%s)" % det.get("origin"))
        print("expected around the deviation:", json.dumps(det.get("expected"))[:2000])
        inp = os.path.join(common.WORK, "C14-replay-in.ndjson")
        outp = os.path.join(common.WORK, "C14-replay-out.ndjson")
        common.write_ndjson(inp, [{"parts": det["parts"]}])
        common.pvh(["replay", inp, outp], exe_name="pvh_lex")
        o = common.read_ndjson(outp)[0]
        at = (det.get("detail") or {}).get("at", 0)
        for g in ("d", "a"):
            if g in o:
                print("observed now (%s), items %d..:" % ("delta" if g == "d" else "alpha", max(0, at - 3)),
                      json.dumps(o[g].get("t", o[g])[max(0, at - 3):at + 4] if "t" in o[g] else o[g])[:2000])
        return 0
    if text is None:
        print(json.dumps(d, indent=1))
        return 0
    print("problem:", det.get("problem"))
    if "expected" in det:
        print("expected by the rule (%s):" % det.get("generation"))
        for it in det["expected"]:
            print("   ", json.dumps(it))
    p = common.pvh(["show", json.dumps(text)], exe_name="pvh_lex")
    print(p.stdout)
    return 0

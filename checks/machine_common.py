"""Helpers of the Machine group (C01, C10): exchange-format builders, value conversion
(limbs <-> decimal: the one trusted conversion), running programs through pvh_machine."""
import json
import os

from . import common

SIGNED = {"i8", "i16", "i32", "i64", "i128"}
WIDTH = {"i8": 8, "u8": 8, "char8": 8, "bool": 8, "i16": 16, "u16": 16, "i32": 32, "u32": 32,
         "i64": 64, "u64": 64, "usize": 64, "i128": 128, "u128": 128}


def limbs_to_int(limbs, t):
    x = 0
    for i, l in enumerate(limbs):
        x |= l << (8 * i)
    if t in SIGNED and x >> (WIDTH[t] - 1) & 1:
        x -= 1 << WIDTH[t]
    return x


def int_to_limbs(x, width):
    x &= (1 << width) - 1
    return [(x >> (8 * i)) & 255 for i in range(width // 8)]


def shown(limbs, t):
    """what print!(value, "\\n") shows for a value of type t"""
    if t == "text":
        return "".join(limbs)          # the parts of a text-only print!, in order
    if t == "bool":
        return "true" if limbs[0] else "false"
    return str(limbs_to_int(limbs, t))


def decimal_to_limbs128(text):
    """a printed line -> 128-bit two's complement pattern (16 limbs), or None if it is not a number/bool"""
    text = text.strip()
    if text == "true":
        return [1]
    if text == "false":
        return [0]
    try:
        x = int(text)
    except ValueError:
        return None
    return int_to_limbs(x, 128)


def lit(t, limbs):
    return {"k": "lit", "t": t, "v": list(limbs)}


def var(x):
    return {"k": "var", "x": x}


def binop(op, l, r):
    return {"k": "bin", "op": op, "l": l, "r": r}


VOID = {"k": "void"}


def prim(t):
    return {"k": "prim", "t": t}


def main_fn(body, exit_code=0):
    return {"name": "main", "params": [], "ret": prim("u8"), "body": body, "res": lit("u8", [exit_code])}


def program(fns, consts=None, structs=None):
    return {"structs": structs or [], "consts": consts or [], "fns": fns}


def run_programs(programs, layouts, seed, tag, split=False, second_every=4):
    """-> list of result records {i, source, results:[{layout, stdout, exit | rejected, diags | crash | lli}]}
    split: one more variant per program, marked {"split": true}: the declarations split over lib.pn and main.pn
    second_every: every n-th program gets one more variant, marked {"second_module": true}: the canonical text compiled as
    the SECOND module of a compilation (pvh::alpha::PREMODULE first); it is judged like any other layout"""
    inp = os.path.join(common.WORK, "%s-%d-programs.ndjson" % (tag, os.getpid()))
    out = os.path.join(common.WORK, "%s-%d-results.ndjson" % (tag, os.getpid()))
    common.write_ndjson(inp, programs)
    common.pvh(["run", inp, out, layouts, seed], exe_name="pvh_machine", timeout=7200, env=dict({} if split else {"PVH_NO_SPLIT": "1"}, **({"PVH_SECOND_EVERY": str(second_every)} if second_every else {})))
    res = common.read_ndjson(out)
    if len(res) != len(programs):
        raise common.ToolError("pvh_machine returned %d results for %d programs" % (len(res), len(programs)))
    for r in res:
        for x in r["results"]:
            if "toolerror" in x:
                raise common.ToolError("pvh_machine: %s" % x["toolerror"])
    return res

"""Parametrised program families of the Machine group (dimension audit): a TLA+ module `MC_Machine<X>.tla` builds one
program per parameter record (Gen), runs spec/Machine.tla on it (R) and emits the program in the exchange format with the
expected output; here every program is compiled and executed by the real compiler and stdout / exit status are compared.
Python only renders keys and compares text."""
import json
import os

from . import common, machine_common as mc
from .common import log


def par_key(par):
    return " ".join("%s=%s" % (k, json.dumps(par[k]) if isinstance(par[k], (list, dict)) else
                               (str(par[k]).lower() if isinstance(par[k], bool) else par[k]))
                    for k in sorted(par) if k != "fam")


def case_key(prefix, c):
    return "%s %s %s" % (prefix, c["par"].get("fam", ""), par_key(c["par"]))


def expected_lines(c):
    return [mc.shown(o["v"], o["t"]) for o in c["out"]]


def check_cases(rep, kind, prefix, cases, layouts, seed, tag, split=False):
    """every case: the machine's verdict is `done` with output c.out and exit status c.exit; the compiled program must
    print exactly that in every layout (and split over two files)"""
    programs = [c["prog"] for c in cases]
    results = mc.run_programs(programs, layouts, seed, tag, split=split)
    checked = 0
    for c, res in zip(cases, results):
        key = case_key(prefix, c)
        want = expected_lines(c)
        want_exit = mc.limbs_to_int(c["exit"], "u8") if c.get("exit") else 0
        for r in res["results"]:
            checked += 1
            variant = " :: split" if r.get("split") else (" :: layout" if r["layout"] else "")
            if "stdout" not in r:
                if "crash" in r or "lli" in r or r.get("panic"):
                    what = "crash"
                    # the running program died (lli-signal, lli-timeout), or the compiler did (compiler-signal, compiler-exit, panic)
                    if r.get("lli"):
                        sig = " lli-" + str(r["lli"]).replace(";", " ").split()[0]
                    elif r.get("crash"):
                        sig = " compiler-" + str(r["crash"]).split()[0]
                    else:
                        sig = " panic-" + "-".join(str(r.get("panic")).split()[:3])
                else:
                    what = "rejected"
                    sig = " " + ",".join(sorted(set("E%d" % d[0] for d in r.get("diags", []) or [])))
                rep.violation(kind, key + " :: " + what + sig.rstrip() + variant,
                              {"problem": "a well-formed program of the family is " + what, "par": c["par"],
                               "expected_lines": want[:40], "result": {k: r[k] for k in r if k != "source"},
                               "source": r.get("source", res["source"])})
                continue
            got = [ln for ln in r["stdout"].split("\n") if ln != ""]
            if got != want or r.get("exit") != want_exit:
                first = next((i for i, (a, b) in enumerate(zip(got, want)) if a != b), min(len(got), len(want)))
                rep.violation(kind, key + " :: output" + variant,
                              {"par": c["par"], "expected_lines": want[:200], "observed_lines": got[:200],
                               "first_difference_at_line": first + 1, "expected_exit": want_exit, "exit": r.get("exit"),
                               "source": r.get("source", res["source"])})
    return checked


def split_units(stdout):
    units, cur = {}, None
    for line in stdout.split("\n"):
        if line.startswith("#"):
            cur = int(line[1:])
            units[cur] = []
        elif cur is not None and line != "":
            units[cur].append(line)
    return units


def check_packed_bodies(rep, kind, prefix, cases, layouts, seed, tag, pack=40):
    """cases carry a function BODY (c.body) instead of a program: `pack` bodies become the functions f0.. of one program whose
    main calls them one after the other, each after a marker line; the output after marker k must be c.out"""
    programs, groups = [], []
    for start in range(0, len(cases), pack):
        chunk = cases[start:start + pack]
        fns, body = [], []
        for k, c in enumerate(chunk):
            fns.append({"name": "f%d" % k, "params": [], "ret": mc.VOID, "body": c["body"]})
            body += [{"k": "M", "i": k}, {"k": "CALL", "f": "f%d" % k, "args": [], "d": ""}]
        programs.append(mc.program([mc.main_fn(body)] + fns))
        groups.append(chunk)
    results = mc.run_programs(programs, layouts, seed, tag)
    checked = 0
    for chunk, res in zip(groups, results):
        for r in res["results"]:
            variant = " :: layout" if r["layout"] else ""
            if "stdout" not in r:
                what = "crash" if ("crash" in r or "lli" in r or r.get("panic")) else "rejected"
                sig = ",".join(sorted(set("E%d" % d[0] for d in r.get("diags", []) or [])))
                rep.violation(kind, "pack:%s .. (%d bodies) :: %s %s%s" % (case_key(prefix, chunk[0]), len(chunk), what, sig, variant),
                              {"problem": "a pack of well-formed bodies is " + what, "result": {k: r[k] for k in r if k != "source"},
                               "source": r.get("source", res["source"])})
                continue
            units = split_units(r["stdout"])
            for k, c in enumerate(chunk):
                checked += 1
                want = expected_lines(c)
                got = units.get(k)
                if got != want:
                    rep.violation(kind, case_key(prefix, c) + " :: output" + variant,
                                  {"par": c["par"], "expected_lines": want, "observed_lines": got, "function": "f%d" % k,
                                   "source": r.get("source", res["source"])})
            if r.get("exit") != 0:
                rep.violation(kind, "pack:%s :: exit%s" % (case_key(prefix, chunk[0]), variant), {"exit": r.get("exit"), "source": res["source"]})
    return checked, len(programs)


def check_packed_cells(rep, kind, prefix, cases, layouts, seed, tag, pack=25):
    """cases are program FRAGMENTS with names of their own (c.structs, c.consts in dependency order, c.fns, c.body): `pack`
    fragments make one program.  The constants of a program are written in dependency order before the functions (pack 0, 3, ..),
    in REVERSE order before the functions (pack 1, 4, ..: every constant stands before the ones it uses) or in reverse order
    after the functions (pack 2, 5, ..: every named length is declared after its uses) -- a constant is evaluated at compile
    time wherever it stands."""
    programs, groups = [], []
    for n, start in enumerate(range(0, len(cases), pack)):
        chunk = cases[start:start + pack]
        structs, seen, consts, fns, body = [], set(), [], [], []
        for k, c in enumerate(chunk):
            for d in c["structs"]:
                if d["name"] not in seen:
                    seen.add(d["name"])
                    structs.append(d)
            consts += c["consts"]
            fns += c["fns"]
            body += [{"k": "M", "i": k}] + c["body"]
        prog = mc.program([mc.main_fn(body)] + fns, consts=consts, structs=structs)
        if n % 3 >= 1:
            prog["corder"] = "rev"
        if n % 3 == 2:
            prog["cpos"] = "last"
        programs.append(prog)
        groups.append(chunk)
    results = mc.run_programs(programs, layouts, seed, tag)
    checked = 0
    for n, (chunk, res) in enumerate(zip(groups, results)):
        order = ["dependency order", "reverse order", "reverse order after the functions"][n % 3]
        for r in res["results"]:
            variant = " :: layout" if r["layout"] else ""
            if "stdout" not in r:
                what = "crash" if ("crash" in r or "lli" in r or r.get("panic")) else "rejected"
                sig = ",".join(sorted(set("E%d" % d[0] for d in r.get("diags", []) or []))) or str(r.get("crash") or r.get("lli") or r.get("panic"))[:60]
                rep.violation(kind, "pack:%s .. (%d cells, constants in %s) :: %s %s%s" % (case_key(prefix, chunk[0]), len(chunk), order, what, sig, variant),
                              {"problem": "a pack of valid constant declarations is " + what, "result": {k: r[k] for k in r if k != "source"},
                               "source": r.get("source", res["source"])})
                continue
            units = split_units(r["stdout"])
            for k, c in enumerate(chunk):
                checked += 1
                want = expected_lines(c)
                got = units.get(k)
                if got != want:
                    bad = [i + 1 for i, (a, b) in enumerate(zip(got or [], want)) if a != b]
                    rep.violation(kind, case_key(prefix, c) + " :: output" + variant,
                                  {"par": c["par"], "expected_lines": want, "observed_lines": got, "differing_lines": bad,
                                   "constants_written_in": order, "fragment": {x: c[x] for x in ("consts", "body")},
                                   "source": r.get("source", res["source"])})
            if r.get("exit") != 0:
                rep.violation(kind, "pack:%s :: exit%s" % (case_key(prefix, chunk[0]), variant), {"exit": r.get("exit"), "source": res["source"]})
    return checked, len(programs)


def run_family(rep, kind, prefix, module, cfg, layouts, seed, tag, workers=4, timeout=1500, heap="4g", split=False,
               allowed_status=("done",)):
    r = common.tlc(module, cfg, workers=workers, timeout=timeout, heap=heap, tag="%s-%d" % (tag, os.getpid()))
    if not r.ok:
        raise common.ToolError("%s/%s: invariant %s violated (a program of the family has undefined behaviour, does not "
                               "terminate or trips a monitor of the machine: the family itself is wrong)" % (module, cfg, r.violated))
    cases = r.cases
    bad = [c for c in cases if c["status"] not in allowed_status]
    if bad:
        raise common.ToolError("%s: %d programs end with status %s" % (module, len(bad), bad[0]["status"]))
    if not cases:
        raise common.ToolError("%s/%s emitted no program (vacuous)" % (module, cfg))
    fams = {}
    for c in cases:
        fams[c["par"].get("fam", "")] = fams.get(c["par"].get("fam", ""), 0) + 1
    log("[tlc] %s/%s: %d states, %d programs (%s), %.1fs" %
        (module, cfg, r.distinct, len(cases), ", ".join("%s %d" % kv for kv in sorted(fams.items())), r.wall))
    checked = check_cases(rep, kind, prefix, cases, layouts, seed, tag, split=split)
    log("[replay] %s: %d programs x %d layouts%s, %d comparisons" % (module, len(cases), layouts, " + split" if split else "", checked))
    return cases, {"states": r.distinct, "transitions": r.generated, "families": fams, "checked": checked}


def selftest(cases, layouts, seed, tag, prop="C01"):
    """corrupt one expected value and one exit status: both must be detected"""
    import contextlib
    import io
    probe = common.Report(prop, "quick", seed)
    probe.known = []
    victim = next(c for c in cases if c["out"])
    a = json.loads(json.dumps(victim))
    a["out"][-1]["v"][0] = (a["out"][-1]["v"][0] + 1) % 256 if a["out"][-1]["t"] != "bool" else 1 - a["out"][-1]["v"][0]
    b = json.loads(json.dumps(victim))
    b["exit"] = [7]
    with contextlib.redirect_stdout(io.StringIO()):
        check_cases(probe, "fam-selftest", "selftest", [a, b], 1, seed, tag)
    ok = len(probe.violations) == 2
    for f in probe.violations:
        if os.path.exists(f):
            os.remove(f)
    return ok

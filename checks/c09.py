"""C09 -- Literals mean exactly what they say.

spec/Literals.tla (on top of PenneLex and Wide) is the rule: Value(spelling), TypeOf(suffix or context),
InRange, E140/E141/E110/E160..E163, L1142 iff out of range, string/char bytes from escape decoding,
concatenation of adjacent string literals.  TLC enumerates the boundary matrix and emits one CASE per
literal; every case is rendered into a Penne program that prints the literal (integers through print!,
characters `as u8`, strings as `|s|` and every byte), compiled by the first-generation compiler and run
under lli; Python compares printed decimals (limbs -> decimal: the trusted conversion), codes and lints
with the rule's verdict.
"""
import collections
import json
import os
import random

from . import common, lexlib, c09_audit
from .c14 import rejected_of
from .common import log

BATCH = 120
RANDOM_PROGRAMS = {"quick": 24, "thorough": 240}

DUMP_FN = """fn dump(s: []char8)
{
	print!(|s|, ":");
	var i: usize = 0;
	{
		if i == |s|
			goto end;
		print!(" ", s[i] as u8);
		i = i + 1;
		loop;
	}
	end:
	print!("\\n");
}

"""

RULE_TEXT = (
    "TLC enumerates (spec/Literals.tla): 12 contexts (11 integer types + char8) x magnitudes {0, 1, max, max+1, |min|, |min|+1, "
    "2^32, 2^64, 2^127, 2^128-1, 2^128} plus fixed pseudo-random in-between magnitudes of every bit-length class x 7 spellings "
    "(decimal, decimal with _, hex lower/upper/with _, binary, binary with _) x {suffix, annotation} x {plain, unary minus}; "
    "free-form suffix errors; the lint in 12 syntactic positions; all byte values x {raw (0..127), \\xhh, \\xHH, \\<c>, \\u{...}} "
    "(plus boundary code points, leading zeros) x {string, character, inside a string}; concatenations of 2-3 adjacent string "
    "literals over 6 parts x 4 separators. For each the rule yields: rejected with code / accepted with in-range flag and the "
    "w-bit two's complement value / decoded bytes. Every case is compiled by the real compiler and, if accepted, executed; the "
    "printed decimal, codes and L1142 are compared. Non-trivial = distinct literal spellings in distinct contexts that are not zero/one. "
    "Dimension audit (further Gen families of Literals.tla, replayed by checks/c09_audit.py): the VALUE that arrives in 12 syntactic "
    "positions (constant, element of a constant / local array, argument, return value, structure member, assignment, operand of + and "
    "of ==, cast operand, direct print argument, nested blocks) x 9 types x {max, a width-filling in-between value, 2^64-1 / 2^64 for "
    "128-bit types} x {decimal, hex} and negated {min, in-between}; the literal as index and as array length (|:[N]u8| = N up to 2^31-1; "
    "lengths above 2^64-1 must not be accepted silently); string / character literals (all \\xhh, named escapes, \\u{...}) as local "
    "variable, constant and direct print argument (raw standard output), characters as argument / constant / element / comparison operand; "
    "string literals of 255..65537 bytes (7 units; lemma bytes(u^k x^p) = bytes(u)^k x^p checked by TLC for k<=3); 4-5 adjacent pieces, "
    "separators with comments and CRLF; the lint for negated literals in 12 positions; the literal as the last token but one of the file x "
    "4 endings; >256 (thorough >65536) string constants in one module, distinct and identical; the same literals in two modules, both file orders. "
    "Random literals stand in 6 positions.")

ASSUMPTIONS = [
    "TLC's evaluation of spec/Literals.tla (PenneLex + Wide) is the oracle; the conversion limbs <-> decimal text in Python is trusted",
    "NumValue (PenneLex) is checked against the model-checked Wide!Parse on every enumerated literal (invariant Consistent); the "
    "decimal digit table is re-derived by TLC (ASSUME DecTableRight)",
    "print! of an integer variable shows its run-time value (i8..u64 through %lld/%llu, 128-bit through penne's own formatter); "
    "lli executes the IR as `penne run` does",
    "usize is 64 bits on this target",
    "unconstrained cells: lint of a negated hex/binary literal whose magnitude is exactly 2^(w-1); any negated literal in an "
    "unsigned context (E550 documents unary minus on unsigned operands as invalid; only 'not silently altered' is demanded); "
    "\\u{...} with more than six digits; the run-time value of an out-of-range literal (it is announced by L1142)",
    "a literal that the rule rejects is put into a program of its own, because the compiler stops at the first lexical error",
    "dimension audit: print! (undocumented) is assumed to write the bytes of a string literal argument; a string with an embedded NUL in "
    "print position is unconstrained (observed: output stops at the NUL); an array length of 2^32..2^64-1 ends with an internal error of "
    "the compiler (C02's open finding), which is noisy and therefore no matter of this property; the families 'many literals' / 'two "
    "modules' arrange literals that TLC judged one by one (the rule is context-free: Value is a function of the spelling and the type)",
]


def lit_text(case):
    return bytes(case["lit"]).decode("utf-8")


def expected_decimal(case):
    n = lexlib.limbs_to_int(case["bits"])
    if case["signed"] and n >= 1 << (case["w"] - 1):
        n -= 1 << case["w"]
    return str(n)


def int_statement(case, name):
    lit = ("-" if case["neg"] else "") + lit_text(case)
    t = case["t"]
    if case["sfx"]:
        decl = "var %s = %s;" % (name, lit)
    else:
        decl = "var %s: %s = %s;" % (name, t, lit)
    shown = "%s as u8" % name if t == "char8" else name
    return '%s print!(%s, "\\n");' % (decl, shown)


def int_program(cases):
    lines = ["fn main() -> u8", "{"]
    for k, c in enumerate(cases):
        lines.append("\t" + int_statement(c, "v%d" % k))
    lines += ["\treturn: 0", "}", ""]
    return "\n".join(lines), 3           # first case on line 3


def str_statement(case):
    if case["chr"] or case["pos"] == "chr":
        return 'print!(%s as u8, "\\n");' % lit_text(case)
    return "dump(%s);" % lit_text(case)


def str_program(cases):
    head = DUMP_FN + "fn main() -> u8\n{\n"
    first = head.count("\n") + 1
    body = "".join("\t" + str_statement(c) + "\n" for c in cases)
    return head + body + "\treturn: 0\n}\n", first


def expected_str_line(case):
    bs = case["bytes"]
    if case["chr"]:
        return str(bs[0])
    return ("%d:" % len(bs)) + "".join(" %d" % b for b in bs)


POS_TEMPLATES = {
    "var": ("fn main() -> u8\n{\n\tvar x: T = LIT;\n\treturn: 0\n}\n", 3),
    "assign": ("fn main() -> u8\n{\n\tvar x: T = 0;\n\tx = LIT;\n\treturn: 0\n}\n", 4),
    "arg": ("fn f(a: T)\n{\n}\n\nfn main() -> u8\n{\n\tf(LIT);\n\treturn: 0\n}\n", 7),
    "ret": ("fn g() -> T\n{\n\treturn: LIT\n}\n\nfn main() -> u8\n{\n\tvar y: T = g();\n\treturn: 0\n}\n", 3),
    "if": ("fn main() -> u8\n{\n\tvar x: T = 1;\n\tif x == LIT\n\t{\n\t\tx = 0;\n\t}\n\treturn: 0\n}\n", 4),
    "const": ("const K: T = LIT;\n\nfn main() -> u8\n{\n\tvar x: T = K;\n\treturn: 0\n}\n", 1),
    "elem": ("fn main() -> u8\n{\n\tvar a: [2]T = [0,\n\t\tLIT];\n\treturn: 0\n}\n", 4),
    "member": ("struct S\n{\n\tm: T,\n}\n\nfn main() -> u8\n{\n\tvar s = S {\n\t\tm: LIT,\n\t};\n\treturn: 0\n}\n", 9),
    "binop": ("fn main() -> u8\n{\n\tvar x: T = 1;\n\tvar y: T = x +\n\t\tLIT;\n\treturn: 0\n}\n", 5),
    "print": ("fn main() -> u8\n{\n\tprint!(LITT, \"\\n\");\n\treturn: 0\n}\n", 3),
    "nested": ("fn main() -> u8\n{\n\tvar x: T = 1;\n\t{\n\t\t{\n\t\t\tx = (LIT);\n\t\t}\n\t}\n\treturn: 0\n}\n", 6),
    "index": ("fn main() -> u8\n{\n\tvar a: [2]T = [0, 0];\n\tvar i: usize = 0;\n\ta[i] = LIT;\n\treturn: 0\n}\n", 5),
}


def pos_program(case):
    tpl, line = POS_TEMPLATES[case["pos"]]
    return tpl.replace("LIT", ("-" if case.get("neg") else "") + lit_text(case)).replace("T", case["t"]), line


def describe(case):
    if case["fam"] == "int":
        lit = ("-" if case["neg"] else "") + lit_text(case)
        return ("var x = %s;" % lit) if case["sfx"] else ("var x: %s = %s;" % (case["t"], lit))
    if case["fam"] == "pos":
        return "%s position, %s: %s" % (case["pos"], case["t"], ("-" if case.get("neg") else "") + lit_text(case))
    if case["fam"] in ("posv", "idx", "alen", "strp", "long"):
        return c09_audit.describe(case)
    return lexlib.esc(bytes(case["lit"]))


def shape(case):
    """spelling class of an integer case, used in deviation signatures"""
    base = {10: "decimal", 16: "hex", 2: "binary", 0: "free"}[case["base"]]
    return "%s %s%s %s" % (case["t"], "negated " if case["neg"] else "", base, "suffixed" if case["sfx"] else "annotated")


def first_code(obs):
    return obs["diags"][0][0] if obs.get("diags") else None


def judge_int(case, obs, line, out_line):
    """deviations of the real compiler from the rule for one integer literal: list of signatures"""
    devs = []
    if obs.get("panic"):
        return ["crash: %s" % obs["panic"][:60]]
    if case["rej"]:
        ok_codes = [case["rej"]] + list(case.get("alt", []))
        if obs["ok"]:
            devs.append("accepted-invalid: expected E%d for %s" % (case["rej"], shape(case)))
        elif first_code(obs) not in ok_codes:
            devs.append("wrong-code: expected E%d, got E%s for %s" % (case["rej"], first_code(obs), shape(case)))
        return devs
    lint = any(c == 1142 and l == line for c, l in obs.get("lints", []))
    if case.get("unca"):
        # negated literal in an unsigned context: only "never silently altered"
        if obs["ok"] and not case["inrange"] and not lint:
            devs.append("silent: out-of-range negated literal accepted without L1142 for %s" % shape(case))
        if obs["ok"] and case["inrange"] and out_line is not None and out_line != expected_decimal(case):
            devs.append("value: %s" % shape(case))
        return devs
    if not obs["ok"]:
        devs.append("rejected-valid: E%s for %s" % (first_code(obs), shape(case)))
        return devs
    if not case.get("uncl"):
        if case["inrange"] and lint:
            devs.append(lint_sig(case, "false L1142 on an in-range literal"))
        if not case["inrange"] and not lint:
            devs.append(lint_sig(case, "no L1142 on an out-of-range literal"))
    if case["inrange"]:
        if out_line is None:
            devs.append("no-output: %s" % shape(case))
        elif out_line != expected_decimal(case):
            devs.append(value_sig(case, out_line))
    return devs


def lint_sig(case, what):
    if what.startswith("false") and case["t"] == "i128" and case["neg"] and lexlib.limbs_to_int(case["bits"]) == 1 << 127:
        return "lint i128-min: false L1142 on -2^127 (the minimum of i128)"
    return "lint: %s, %s" % (what, shape(case))


def value_sig(case, out_line):
    exp = int(expected_decimal(case))
    try:
        got = int(out_line)
    except ValueError:
        return "value: unparsable output for %s" % shape(case)
    if case["t"] == "usize" and (case["base"] in (16, 2) or case["sfx"]) and exp >= 1 << 32 and got == exp & 0xFFFFFFFF:
        return "value usize-32bit-mask: a usize hexadecimal / binary / suffixed literal is truncated to its low 32 bits"
    return "value: %s" % shape(case)


def random_sig(rc):
    """signature of a recording that TLC rejected (shapes of the known deviations, else generic)"""
    text = bytes(rc["lit"]).decode()
    body = text[:-len(rc["t"])] if rc["sfx"] else text
    digits = body.replace("_", "")
    try:
        value = int(digits[2:], 16) if digits.startswith("0x") else int(digits[2:], 2) if digits.startswith("0b") else int(digits)
    except ValueError:
        value = None
    bitlit = digits.startswith("0x") or digits.startswith("0b")
    try:
        printed = int(rc["printed"])
    except ValueError:
        printed = None
    if rc["t"] == "usize" and (bitlit or rc["sfx"]) and value is not None and value >= 1 << 32 and printed == value & 0xFFFFFFFF:
        return "value usize-32bit-mask: a usize hexadecimal / binary / suffixed literal is truncated to its low 32 bits"
    if rc["t"] == "i128" and rc["neg"] and not bitlit and value == 1 << 127 and rc["lint"]:
        return "lint i128-min: false L1142 on -2^127 (the minimum of i128)"
    return "trace: %s literal %s%s%s not as the rule prescribes (accepted=%s lint=%s)" % (
        rc["t"], "negated " if rc["neg"] else "", "hex/binary " if bitlit else "decimal ", "suffixed" if rc["sfx"] else "annotated",
        rc["accepted"], rc["lint"])


def judge_str(case, obs, out_line):
    if obs.get("panic"):
        return ["crash: %s" % obs["panic"][:60]]
    what = "%s %s" % (case["form"], case["pos"])
    if case["rej"]:
        if case.get("uncs"):
            return []
        if case["form"] == "uni" and case["pos"] == "chr" and case["rej"] == 162 and (obs["ok"] or first_code(obs) == 163) \
                and lexlib.valid_u_escape(bytes(case["lit"])[1:], any_length=True):
            return ["char-u-escape: \\u{...} inside a character literal is decoded instead of E162 "
                    "(pinned by tests/parsing.rs fail_to_parse_unicode_escape_in_char)"]
        if obs["ok"]:
            return ["accepted-invalid: expected E%d (%s)" % (case["rej"], what)]
        if first_code(obs) != case["rej"] and not case.get("lead"):
            return ["wrong-code: expected E%d, got E%s (%s)" % (case["rej"], first_code(obs), what)]
        return []
    if not obs["ok"]:
        if case.get("uncs") and first_code(obs) == 162:
            return []
        return ["rejected-valid: E%s (%s)" % (first_code(obs), what)]
    if out_line is None:
        return ["no-output: (%s)" % what]
    if out_line != expected_str_line(case):
        return ["bytes: (%s)" % what]
    return []


def run_programs(progs, tag):
    """progs: list of (source, run) -> list of observations"""
    inp = os.path.join(common.WORK, "C09-prog-%s.ndjson" % tag)
    outp = os.path.join(common.WORK, "C09-out-%s.ndjson" % tag)
    # (a compiler process that dies -- LLVM aborts on broken IR -- is an observation of the program that kills it)
    obs = c09_audit.run_rows([{"src": s, "run": r} for s, r in progs], inp, outp)
    if len(obs) != len(progs):
        raise common.ToolError("lit harness returned %d results for %d programs" % (len(obs), len(progs)))
    return obs


def batch_family(cases, make_program, make_single, tag):
    """Run accepted-by-the-rule cases in batches; a batch that does not compile and run is re-run case by case.
    Returns {index: (obs, output line or None, line number)}."""
    result = {}
    batches = [list(range(i, min(i + BATCH, len(cases)))) for i in range(0, len(cases), BATCH)]
    progs = []
    firsts = []
    for b in batches:
        src, first = make_program([cases[i] for i in b])
        progs.append((src, True))
        firsts.append(first)
    obs = run_programs(progs, tag + "-batch") if progs else []
    singles = []
    for b, o, first in zip(batches, obs, firsts):
        lines = o.get("stdout", "").split("\n") if "stdout" in o else None
        if o.get("ok") and lines is not None and o.get("exit") == 0 and len(lines) >= len(b):
            for k, i in enumerate(b):
                result[i] = (o, lines[k], first + k)
        else:
            singles += b
    if singles:
        progs = []
        firsts = []
        for i in singles:
            src, first = make_single(cases[i])
            progs.append((src, True))
            firsts.append(first)
        obs = run_programs(progs, tag + "-single")
        for i, o, first in zip(singles, obs, firsts):
            lines = o.get("stdout", "").split("\n") if "stdout" in o else None
            result[i] = (o, lines[0] if lines else None, first)
    return result, len(batches), len(singles)


def run(rep, tier, seed, selftest):
    selftest = selftest or tier == "thorough"
    common.build_harness()
    os.makedirs(common.WORK, exist_ok=True)
    cfg = "MC_Literals_%s.cfg" % tier
    r = common.tlc("Literals", cfg, workers=8, timeout=1700, heap="6g", tag="C09-mc", keep_output=False)
    log("[tlc] Literals/%s: %d states, %d cases, %.1fs, %s" %
        (cfg, r.distinct, len(r.cases), r.wall, "rule self-consistent (NumValue = Wide!Parse, escape decoding)" if r.ok
         else "INVARIANT %s VIOLATED" % r.violated))
    if not r.ok:
        raise common.ToolError("the rule contradicts itself (%s):\n%s" % (r.violated, r.tail[-2500:]))
    cases = r.cases
    ints = [c for c in cases if c["fam"] == "int"]
    strs = [c for c in cases if c["fam"] == "str"]
    poss = [c for c in cases if c["fam"] == "pos"]
    sigs = collections.Counter()
    nontrivial = set()
    replayed = 0
    samples = []

    reported = set()

    def report(case, devs, obs, expected):
        for sig in devs:
            sigs[sig] += 1
            reported.add("%s :: %s" % (sig, describe(case)))
            rep.violation("literal", "%s :: %s" % (sig, describe(case)),
                          {"case": case, "observed": {k: v for k, v in obs.items() if k != "stdout"}, "expected": expected,
                           "problem": sig, "how": "bin/check C09 --replay <this file>"})

    # ---- integers -------------------------------------------------------------------------------
    accept = [c for c in ints if not c["rej"] and not c["unca"]]
    solo = [c for c in ints if c["rej"] or c["unca"]]
    res, nb, ns = batch_family(accept, int_program, lambda c: int_program([c]), "int")
    for i, c in enumerate(accept):
        o, out_line, line = res[i]
        replayed += 1
        report(c, judge_int(c, o, line, out_line), o, expected_decimal(c) if c["inrange"] else "L1142")
        if lexlib.limbs_to_int(c["bits"]) > 1:
            nontrivial.add(("int", describe(c)))
    progs = [(int_program([c])[0], not c["rej"]) for c in solo]
    obs = run_programs(progs, "int-solo") if progs else []
    for c, o in zip(solo, obs):
        replayed += 1
        out_line = o.get("stdout", "").split("\n")[0] if "stdout" in o else None
        report(c, judge_int(c, o, 3, out_line), o, "E%d" % c["rej"] if c["rej"] else "not silently altered")
        nontrivial.add(("int", describe(c)))
    log("[replay] %d integer literals: %d in %d batch programs (%d re-run alone), %d in programs of their own" %
        (len(ints), len(accept), nb, ns, len(solo)))
    if accept:
        samples.append({"case": accept[len(accept) // 3], "program_line": int_statement(accept[len(accept) // 3], "v0"),
                        "printed": res[len(accept) // 3][1]})
    # ---- positions ------------------------------------------------------------------------------
    progs = []
    for c in poss:
        src, line = pos_program(c)
        progs.append((src, False))
    obs = run_programs(progs, "pos") if progs else []
    for c, o in zip(poss, obs):
        replayed += 1
        line = pos_program(c)[1]
        devs = []
        if o.get("panic"):
            devs.append("crash: %s" % o["panic"][:60])
        elif not o["ok"]:
            devs.append("rejected-valid: E%s in position %s" % (first_code(o), c["pos"]))
        else:
            lint = any(code == 1142 and l == line for code, l in o.get("lints", []))
            if c["inrange"] and lint:
                devs.append("lint: false L1142 in position %s" % c["pos"])
            if not c["inrange"] and not lint:
                devs.append("lint position-%s: an out-of-range literal in this position raises no L1142" % c["pos"])
        report(c, devs, o, "L1142 iff out of range")
        nontrivial.add(("pos", describe(c)))
    log("[replay] %d position cases" % len(poss))
    # ---- strings and characters -----------------------------------------------------------------
    accept = [c for c in strs if not c["rej"] and not c["uncs"]]
    solo = [c for c in strs if c["rej"] or c["uncs"]]
    res, nb, ns = batch_family(accept, str_program, lambda c: str_program([c]), "str")
    for i, c in enumerate(accept):
        o, out_line, _ = res[i]
        replayed += 1
        report(c, judge_str(c, o, out_line), o, expected_str_line(c))
        nontrivial.add(("str", describe(c)))
    progs = [(str_program([c])[0], not c["rej"]) for c in solo]
    obs = run_programs(progs, "str-solo") if progs else []
    for c, o in zip(solo, obs):
        replayed += 1
        out_line = o.get("stdout", "").split("\n")[0] if "stdout" in o else None
        report(c, judge_str(c, o, out_line), o, "E%d" % c["rej"] if c["rej"] else expected_str_line(c))
        nontrivial.add(("str", describe(c)))
    log("[replay] %d string / character literals: %d in %d batch programs (%d re-run alone), %d in programs of their own" %
        (len(strs), len(accept), nb, ns, len(solo)))
    if accept:
        k = (len(accept) * 5) // 7
        samples.append({"case": accept[k], "program_line": str_statement(accept[k]), "printed": res[k][1]})
    # ---- dimension audit: value by position, index / array length, strings by position, long strings,
    # ---- many literals in one module, the same literals in two modules (checks/c09_audit.py) -----
    audit_replayed, audit_cov = c09_audit.run(rep, tier, cases, report, nontrivial, samples)
    replayed += audit_replayed
    # ---- impl -> spec: random literals "in between", validated by TLC (Trace_Literals) ----------
    nprog = RANDOM_PROGRAMS[tier]
    prefix = os.path.join(common.WORK, "C09-rand")
    common.pvh(["lit-record", nprog, 100, seed, prefix, 12], exe_name="pvh_lex", timeout=3000)
    files = [f for f in ("%s.%d.ndjson" % (prefix, k) for k in range(12)) if os.path.exists(f) and os.path.getsize(f) > 0]
    results = common.tlc_traces("Trace_Literals", "Trace_Literals.cfg", files, timeout=1700, parallel=12)
    rand_total = rand_ok = 0
    rand_sample = None
    for res in results:
        recs = common.read_ndjson(res["file"])
        rej = rejected_of(res)
        if res["total"] != len(recs) or res["matched"] != len(recs) - len(rej) or (not res["accepted"] and not rej):
            raise common.ToolError("Trace_Literals did not run properly on %s: %s" % (res["file"], res))
        rand_total += len(recs)
        rand_ok += len(recs) - len(rej)
        if rand_sample is None and recs:
            rand_sample = {"recording": {k: recs[0][k] for k in ("t", "sfx", "neg", "accepted", "lint", "printed")},
                           "literal": bytes(recs[0]["lit"]).decode()}
        for l, _ in rej:
            rc = recs[l - 1]
            sig = random_sig(rc)
            sigs[sig] += 1
            lit = ("-" if rc["neg"] else "") + bytes(rc["lit"]).decode()
            stmt = ("var x = %s;" % lit) if rc["sfx"] else ("var x: %s = %s;" % (rc["t"], lit))
            key = "%s :: %s" % (sig, stmt)
            if key in reported:
                continue            # the very same statement was already reported from the enumeration
            reported.add(key)
            rep.violation("literal", key, {"recording": rc, "statement": stmt, "problem": sig,
                                           "message": "rejected by TLC (Trace_Literals): not what the rule prescribes",
                                           "how": "bin/check C09 --replay <this file>"})
        for rc in recs:
            nontrivial.add(("rand", rc["t"], bytes(rc["lit"]), rc["neg"]))
    replayed += rand_total
    log("[trace] %d random literals in %d programs recorded; %d accepted by TLC (Trace_Literals)" % (rand_total, nprog, rand_ok))
    if rand_sample:
        samples.append(rand_sample)
    if selftest and files:
        recs = common.read_ndjson(files[0])
        good = next(x for x in recs if x["accepted"] and not x["lint"] and len(x["bits"]) >= 1 and x["fits"])
        a = dict(good)
        a["bits"] = [(good["bits"][0] + 1) % 256] + good["bits"][1:]
        b = dict(good)
        b["lint"] = True
        pth = os.path.join(common.WORK, "C09-selftest-trace.ndjson")
        common.write_ndjson(pth, [good, a, b])
        rj = {l for l, _ in rejected_of(common.tlc_traces("Trace_Literals", "Trace_Literals.cfg", [pth])[0])}
        trace_selftests = {"recording_untouched_accepted": 1 not in rj, "recording_wrong_value_rejected": 2 in rj,
                           "recording_spurious_lint_rejected": 3 in rj}
    else:
        trace_selftests = {}
    # ---- self-test: flipped expectations must be noticed ----------------------------------------
    selftests = {}
    if selftest:
        c = next(c for c in ints if not c["rej"] and c["inrange"] and not c["unca"] and lexlib.limbs_to_int(c["bits"]) > 1)
        src, line = int_program([c])
        o = run_programs([(src, True)], "selftest")[0]
        good = judge_int(c, o, line, o.get("stdout", "").split("\n")[0])
        wrong = dict(c)
        wrong["bits"] = lexlib.int_to_limbs(lexlib.limbs_to_int(c["bits"]) ^ 1, len(c["bits"]))
        flipped = dict(c)
        flipped["inrange"] = False
        rej = dict(c)
        rej["rej"] = 140
        selftests = {
            "unmodified_case_clean": good == [],
            "wrong_value_detected": bool(judge_int(wrong, o, line, o.get("stdout", "").split("\n")[0])),
            "missing_lint_detected": bool(judge_int(flipped, o, line, o.get("stdout", "").split("\n")[0])),
            "missing_rejection_detected": bool(judge_int(rej, o, line, None)),
        }
        s = next(c for c in strs if not c["rej"] and len(c["bytes"]) >= 2 and not c["chr"])
        o = run_programs([(str_program([s])[0], True)], "selftest2")[0]
        bad = dict(s)
        bad["bytes"] = s["bytes"][:-1] + [(s["bytes"][-1] + 1) % 256]
        selftests["wrong_string_byte_detected"] = bool(judge_str(bad, o, o.get("stdout", "").split("\n")[0]))
        selftests["unmodified_string_clean"] = judge_str(s, o, o.get("stdout", "").split("\n")[0]) == []
        selftests.update(trace_selftests)
        selftests.update(c09_audit.selftest(cases))
        log("[selftest] %s" % json.dumps(selftests))
        for name, ok in selftests.items():
            if not ok:
                raise common.ToolError("self-test %s failed" % name)
    # vacuity: the matrix contains every verdict class
    classes = collections.Counter()
    for c in ints:
        classes["E%d" % c["rej"] if c["rej"] else ("inrange" if c["inrange"] else "outofrange")] += 1
    for c in strs:
        classes["sE%d" % c["rej"] if c["rej"] else "sbytes"] += 1
    for need in ("E140", "E141", "inrange", "outofrange", "sbytes", "sE110", "sE160", "sE161", "sE162", "sE163"):
        if not classes[need]:
            raise common.ToolError("vacuity: the enumeration has no case of class %s" % need)
    for sig, n in sigs.most_common():
        log("[deviation] %6d x %s" % (n, sig))
    coverage = {
        "states": r.distinct,
        "transitions": r.generated,
        "traces_validated_against_impl": replayed - sum(sigs.values()),
        "samples": samples,
        "evaluations": replayed,
        "distinct_nontrivial": len(nontrivial),
        "rule": RULE_TEXT,
        "exhaustive": True,
        "cases_emitted": len(cases),
        "integer_cases": len(ints),
        "string_char_cases": len(strs),
        "position_cases": len(poss),
        "dimension_audit": audit_cov,
        "verdict_classes": dict(classes),
        "random_literals_recorded": rand_total,
        "random_literals_accepted_by_tlc": rand_ok,
        "rule_invariants_hold": r.ok,
        "deviation_signatures": dict(sigs),
        "tlc_config": cfg,
        "selftests": selftests,
    }
    return rep.finish("model_checking", coverage, ASSUMPTIONS)


def replay(path):
    d = json.load(open(path))
    print("kind:", d.get("kind"))
    print("key :", d.get("key"))
    det = d.get("detail", {})
    case = det.get("case")
    if not case and det.get("recording"):
        rc = det["recording"]
        print("recorded:", json.dumps({k: rc[k] for k in ("t", "sfx", "neg", "accepted", "lint", "code", "printed")}))
        src = "fn main() -> u8\n{\n\t%s print!(x, \"\\n\");\n\treturn: 0\n}\n" % (det.get("statement") or d["key"].split(" :: ", 1)[1])
        for i, l in enumerate(src.split("\n"), 1):
            print("%3d | %s" % (i, l))
        print("observed now:", json.dumps(run_programs([(src, True)], "replay")[0]))
        return 0
    if not case:
        print(json.dumps(d, indent=1)[:3000])
        return 0
    if case["fam"] in ("posv", "idx", "alen", "strp", "long", "arranged"):
        print("rule   :", json.dumps({k: v for k, v in case.items() if k not in ("lit", "unit", "ubytes")}))
        print("expects:", det.get("expected"))
        print("case   :", c09_audit.describe(case) if case["fam"] != "arranged" else case["what"])
        if case["fam"] in ("posv", "idx", "alen", "strp"):
            parts = {"posv": c09_audit.posv_parts, "idx": c09_audit.idx_parts, "alen": c09_audit.alen_parts,
                     "strp": c09_audit.strp_parts}[case["fam"]](case, 0)
            prelude = DUMP_FN if case.get("at") in ("var", "const") else c09_audit.SHOW_FN if case.get("at") == "chrarg" else ""
            src = c09_audit.program([parts], prelude)
            for i, l in enumerate(src.split("\n"), 1):
                print("%3d | %s" % (i, l))
            print("observed now:", json.dumps(c09_audit.run_raw([src], "replay")[0]))
        else:
            print("observed:", json.dumps(det.get("observed")))
        return 0
    if case["fam"] == "int":
        src, _ = int_program([case])
    elif case["fam"] == "pos":
        src, _ = pos_program(case)
    else:
        src, _ = str_program([case])
    print("rule   :", json.dumps({k: v for k, v in case.items() if k != "lit"}))
    print("expects:", det.get("expected"))
    print("program:")
    for i, l in enumerate(src.split("\n"), 1):
        print("%3d | %s" % (i, l))
    o = run_programs([(src, not case.get("rej"))], "replay")[0]
    print("observed:", json.dumps(o))
    return 0

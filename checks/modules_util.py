"""Helpers shared by the checks of the group "modules" (C11, C12)."""
import concurrent.futures
import json
import os
import re

from . import common
from .common import log

EXE = "pvh_modules"


def pvh(args, timeout=3600, check=True):
    env = {"PVH_THREADS": os.environ.get("PVH_THREADS", "12")}
    return common.pvh(args, timeout=timeout, check=check, env=env, exe_name=EXE)


_probe = None


def probe_fixes():
    """Which of the fixes proposed by this group does the tree under test contain?  Five tiny programs
    are compiled; the answer is handed to TLC through the environment so that the ALGORITHM MODELS
    (never the rules) follow the tree.  Returns a dict of environment variables."""
    global _probe
    if _probe is not None:
        return _probe
    os.makedirs(common.WORK, exist_ok=True)
    graphs = [
        {"kind": ["c", "s"], "val": [[2, 1], [2, 2]], "ptr": [], "perm": [1, 2]},            # E415, not E416
        {"kind": ["c", "s"], "val": [[2, 1]], "ptr": [[1, 2]], "perm": [1, 2]},              # |:&S| accepted
        {"kind": ["s", "s", "s"], "val": [[1, 2], [2, 1]], "ptr": [[3, 1]], "perm": [1, 2, 3]},  # no panic
        # C1 = 1 + |:&[2]S2| (Containers.tla: Flavour(1, 2) = 2 for three declarations), S2 { v1: [2][C1]i32 }: accepted
        {"kind": ["c", "s", "f"], "val": [[2, 1]], "ptr": [[1, 2]], "perm": [1, 2, 3]},
    ]
    cells = [{"fam": "type", "ty": ["arr", "like", "bool"], "pos": "var", "aux": []}]        # [3][]bool rejected
    gp, go = os.path.join(common.WORK, "modules-probe-g.ndjson"), os.path.join(common.WORK, "modules-probe-g.out")
    cp, co = os.path.join(common.WORK, "modules-probe-c.ndjson"), os.path.join(common.WORK, "modules-probe-c.out")
    common.write_ndjson(gp, graphs)
    common.write_ndjson(cp, cells)
    pvh(["replay-graphs", gp, go])
    pvh(["replay-cells", cp, co])
    g = common.read_ndjson(go)
    c = common.read_ndjson(co)
    fixed = {
        "PENNE_FIXED_E416": any(code == 415 for code, _ in g[0]["diags"]) and not any(code == 416 for code, _ in g[0]["diags"]),
        "PENNE_FIXED_SIZEOF_PTR": bool(g[1]["ok"]),
        "PENNE_FIXED_PTR_UNFOUNDED": not g[2].get("panic"),
        "PENNE_FIXED_SIZEOF_PTR_ARRAY": bool(g[3]["ok"]),
        "PENNE_FIXED_LIKE_ELEMENT": not c[0]["ok"] and not c[0].get("panic"),
    }
    _probe = {k: ("1" if v else "0") for k, v in fixed.items()}
    log("[probe] fixes present in the tree under test: %s" % (", ".join(k for k, v in fixed.items() if v) or "none"))
    return _probe


def fixed(name):
    return probe_fixes().get(name) == "1"


def tlc_many(prop, module, cfgs, workers, timeout, heap="6g", parallel=2):
    """Run several MC configurations of one module, `parallel` at a time; returns {cfg: TlcResult}."""
    out = {}
    env = probe_fixes()

    def one(cfg):
        return cfg, common.tlc(module, cfg, workers=workers, timeout=timeout, heap=heap, env=env,
                               tag="%s-mc-%s" % (prop, cfg.replace(".cfg", "")))

    with concurrent.futures.ThreadPoolExecutor(max_workers=parallel) as ex:
        for cfg, r in ex.map(one, cfgs):
            out[cfg] = r
            log("[tlc] %s/%s: %d states generated, %d distinct, %d cases, %.1fs, %s" %
                (module, cfg, r.generated, r.distinct, len(r.cases), r.wall,
                 "no invariant violated" if r.ok else "INVARIANT %s VIOLATED" % r.violated))
    return out


def expect_violation(prop, module, cfg, invariant, workers=2, timeout=600):
    """A configuration that is EXPECTED to violate `invariant` (vacuity guard / design-level finding)."""
    r = common.tlc(module, cfg, workers=workers, timeout=timeout, heap="2g", env=probe_fixes(),
                   tag="%s-guard-%s" % (prop, cfg.replace(".cfg", "")))
    return r.violated == invariant, r


_bad_re = re.compile(r'^<<"([A-Z]+)", (.*)>>$')


def printed(path, tag):
    """Decode the lines <<"TAG", "<json>">> of a TLC output file."""
    out = []
    with open(path, errors="replace") as f:
        for line in f:
            if not line.startswith('<<"' + tag + '"'):
                continue
            m = _bad_re.match(line.rstrip("\n"))
            if not m:
                continue
            try:
                payload = json.loads(m.group(2))
                if isinstance(payload, str):
                    payload = json.loads(payload)
                out.append(payload)
            except ValueError:
                pass
    return out


def split_runs(path, starters=('"ev":"input"', '"ev":"perms"', '"ev":"mods"', '"ev":"split"', '"ev":"hist"')):
    """The runs of a recording: list of (first_line_no (1-based), lines)."""
    runs = []
    with open(path) as f:
        for no, line in enumerate(f, 1):
            if any(s in line for s in starters) or not runs:
                runs.append([no, []])
            runs[-1][1].append(line)
    return runs


def validate_traces(module, cfg, files, on_stuck, max_rounds=6, timeout=1800, parallel=8):
    """Validate recordings; a recording on which TLC gets stuck is cut after the offending run and the
    remainder validated again.  on_stuck(run_lines, unmatched_line) reports the run.
    Returns (runs_accepted, events_matched, outputs)."""
    todo = list(files)
    accepted_runs = 0
    events = 0
    outputs = []
    rounds = 0
    while todo and rounds < max_rounds:
        rounds += 1
        results = common.tlc_traces(module, cfg, todo, timeout=timeout, parallel=parallel, extra_env=probe_fixes())
        todo = []
        for res in results:
            outputs.append(res["output"])
            events += res["matched"]
            runs = split_runs(res["file"])
            if res["accepted"]:
                accepted_runs += len(runs)
                continue
            bad_line = res["matched"] + 1
            idx = 0
            for i, (first, lines) in enumerate(runs):
                if first <= bad_line:
                    idx = i
            accepted_runs += idx
            first, lines = runs[idx]
            unmatched = lines[bad_line - first] if bad_line - first < len(lines) else None
            on_stuck(lines, unmatched)
            rest = [ln for _, ls in runs[idx + 1:] for ln in ls]
            if rest:
                base = res["file"][:-len(".ndjson")]
                new = base + "r.ndjson"
                open(new, "w").writelines(rest)
                todo.append(new)
    return accepted_runs, events, outputs


class Pending:
    """Collects the discrepancies of one part and reports them so that the first reports (the ones that
    get a replay file and a VIOLATION line) cover every distinct (kind, shape tag) before repeating one."""

    def __init__(self, rep):
        self.rep = rep
        self.items = []

    def violation(self, kind, key, detail):
        self.items.append((kind, key, detail))

    def flush(self):
        seen = {}
        first, rest = [], []
        for it in self.items:
            cls = (it[0], it[1].split("]")[0] if it[1].startswith("[") else "")
            seen[cls] = seen.get(cls, 0) + 1
            (first if seen[cls] <= 3 else rest).append(it)
        for kind, key, detail in first + rest:
            self.rep.violation(kind, key, detail)
        self.items = []

"""Work package `syntax`: spec/SyntaxRules.tla (a recogniser for the documented grammar) bound to both parsers.

    run_part(rep, tier, seed, selftest, parts=None) -> dict (coverage numbers for the evidence of the calling check)

R (TLC): for an arbitrary sequence of token classes the verdict  valid | unc | invalid(lo, hi)  (see SyntaxRules.tla).
Hard rules (each a `rep.violation`, kinds prefixed `syntax-`):
  (a) valid   => the first-generation parser stores no error in its tree (no E100/E3xx), the second generation accepts
                 without diagnostics, and both build the same tree                                 [C02 C15 C16]
  (b) invalid => the first generation fails with at least one diagnostic, its parser reports an error, and the FIRST
                 parse error starts inside the window lo..hi (in tokens; both ends are legitimate places)   [C02 C13]
                 -- the window clause is only demanded where nothing but the fixed context follows the offending token
                 (otherwise a later fault may legitimately be the one that is reported); never before the window.
Soft (notes, `rep.note_drift`): the second generation accepts an invalid sequence / the two parsers disagree on
an `unc` sequence / the second generation's diagnostic lies outside the window: no property demands agreement there.

Gen: (1) MC_SyntaxSeq: all class sequences <= K in 7 contexts; (2) MC_SyntaxGrammar: every module a small PenneGrammar
configuration derives (invariant: the recogniser accepts it) with single-token faults; (3) impl -> spec: single-token
mutants of corpus files, the real token stream judged by TLC through Trace_Syntax.tla.
"""
import collections
import glob
import hashlib
import json
import os
import re
import subprocess
import time

from . import common, grammar_cfgs
from .common import log

EXE = "pvh_syntax"
PVH_ENV = {"MALLOC_MMAP_THRESHOLD_": "33554432", "MALLOC_TRIM_THRESHOLD_": "2000000000", "MALLOC_TOP_PAD_": "268435456"}
JAVA_CP = "/opt/veriftools/tla/tla2tools.jar:/opt/veriftools/tla/CommunityModules-deps.jar"
# codes the parsers themselves raise (docs/errors.md: E100 unexpected end of file, E300-E302, E335, E343-E346 missing
# types, E350 compound type, E390 nesting); everything else comes from later stages and is not judged here
SYNTAX_CODES = {100, 300, 301, 302, 335, 343, 344, 346, 350, 390}
LAYOUTS = {"quick": 2, "thorough": 3}
MUTANTS = {"quick": 700, "thorough": 8000}
PARALLEL_TLC = 5          # TLC runs of the fault family at a time, 2 workers each
# every kind of syntax node (spec/PenneAst.tla) must occur in the modules whose faults are judged (vacuity guard)
NODE_TAGS = {"module", "fn", "head", "const", "struct", "opaque struct", "word", "import", "param", "member", "prim", "named", "ptr", "view",
             "tarray", "tarrayc", "slice", "endless", "arraylike", "var", "set", "call", "builtin call", "loop", "goto", "label", "if", "block",
             "bin+", "bin-", "bin*", "bin&", "bin|", "bin<<", "bin..", "as", "cast", "un", "len", "sizeof", "int", "bool", "char", "str",
             "fcall", "builtin fcall", "array", "structural", "field", "paren", "deref", "idx", "mem"}

# ---------------------------------------------------------------------------------------------
# token classes -> tokens (PenneAst records, rendered by harness/src/grammar/render.rs)
# ---------------------------------------------------------------------------------------------
P = lambda s: {"k": "p", "s": s}
KW = lambda s: {"k": "kw", "s": s}
SPELL = {
    "cmp": [P("=="), P("!="), P("<"), P(">"), P("<="), P(">=")],
    "add": [P("+")],
    "mul": [P("*"), P("/"), P("%")],
    "sh": [P("<<"), P(">>")],
    "word": [KW("word64"), KW("word8"), KW("word16"), KW("word32"), KW("word128")],
    "return": [KW("return")],
    "id": [{"k": "id", "s": "x"}, {"k": "id", "s": "main"}, {"k": "id", "s": "foo_1"}, {"k": "id", "s": "S"}],
    "bi": [{"k": "bi", "s": "print"}, {"k": "bi", "s": "abort"}],
    "ty": [{"k": "ty", "s": t} for t in ("i32", "u8", "bool", "usize", "char8", "i128")],
    "void": [{"k": "ty", "s": "void"}],
    "dec": [{"k": "int", "v": "17", "suffix": ""}, {"k": "int", "v": "0", "suffix": ""}, {"k": "int", "v": "3", "suffix": ""}],
    "int": [{"k": "int", "v": "31", "suffix": "", "h": {"base": 16, "digits": [1, 15]}}, {"k": "int", "v": "42", "suffix": "u8"},
            {"k": "int", "v": "5", "suffix": "", "h": {"base": 2, "digits": [1, 0, 1]}}, {"k": "int", "v": "7", "suffix": "usize"}],
    "lit": [{"k": "bool", "v": True}, {"k": "char", "v": 97}, {"k": "bool", "v": False}],
    "str": [{"k": "str", "bytes": [115]}, {"k": "str", "bytes": [97, 46, 112, 110]}],
    "strx": [{"k": "str", "bytes": [97, 255]}],
}
KEYWORDS = {"fn", "var", "const", "if", "goto", "loop", "else", "cast", "as", "import", "pub", "extern", "struct"}
# what the real lexer calls the tokens (harness: Debug name) -> class; must agree with Trace_Syntax.tla ClassOfKind
KIND_CLASS = {
    "ParenLeft": "(", "ParenRight": ")", "BraceLeft": "{", "BraceRight": "}", "BracketLeft": "[", "BracketRight": "]",
    "AngleLeft": "cmp", "AngleRight": "cmp", "Pipe": "|", "Ampersand": "&", "Caret": "^", "Exclamation": "!", "Placeholder": "_",
    "Plus": "add", "Minus": "-", "Times": "mul", "Divide": "mul", "Modulo": "mul", "Colon": ":", "Semicolon": ";", "Dot": ".",
    "Comma": ",", "Assignment": "=", "Equals": "cmp", "DoesNotEqual": "cmp", "IsGE": "cmp", "IsLE": "cmp", "ShiftLeft": "sh",
    "ShiftRight": "sh", "Arrow": "->", "PipeForType": "|:", "Dots": "..", "Fn": "fn", "Var": "var", "Const": "const", "If": "if",
    "Goto": "goto", "Loop": "loop", "Else": "else", "Cast": "cast", "As": "as", "Import": "import", "Pub": "pub", "Extern": "extern",
    "Struct": "struct", "Word8": "word", "Word16": "word", "Word32": "word", "Word64": "word", "Word128": "word",
    "Identifier": "id", "IdReturn": "return", "Builtin": "bi", "NakedDecimal": "dec", "BitInteger": "int", "SuffixedInteger": "int",
    "CharLiteral": "lit", "Bool": "lit", "StringLiteral": "str", "StringLiteralNotUtf8": "strx", "Type": "ty", "TypeVoid": "void", "Error": "err",
}


def token_of(cls, salt):
    if cls in SPELL:
        alts = SPELL[cls]
        return alts[salt % len(alts)]
    if cls in KEYWORDS:
        return KW(cls)
    return P(cls)


def text_of(tok):
    k = tok["k"]
    if k in ("kw", "p", "id", "ty"):
        return tok["s"]
    if k == "bi":
        return tok["s"] + "!"
    if k == "bool":
        return "true" if tok["v"] else "false"
    if k == "char":
        return "'%s'" % chr(tok["v"])
    if k == "str":
        return '"%s"' % "".join(chr(b) if 32 <= b < 127 and b not in (34, 92) else "\\x%02X" % b for b in tok["bytes"])
    if k == "int":
        h = tok.get("h")
        if h:
            return {16: "0x", 2: "0b", 10: ""}[h["base"]] + "".join("%x" % d for d in h["digits"]) + (tok.get("suffix") or "")
        v = tok["v"]
        if isinstance(v, list):
            v = sum(int(b) << (8 * i) for i, b in enumerate(v))
        return str(v) + (tok.get("suffix") or "")
    return "?"


# ---------------------------------------------------------------------------------------------
# TLC (streaming: the thorough tier emits about a million cases)
# ---------------------------------------------------------------------------------------------
def run_tlc(module, cfg, tag, workers=4, timeout=900, heap="4g", coverage=False):
    os.makedirs(common.WORK, exist_ok=True)
    out_path = os.path.join(common.WORK, "syntax-%s-%d.out" % (tag, os.getpid()))
    metadir = os.path.join(common.WORK, "md-syntax-%s-%d" % (tag, os.getpid()))
    subprocess.run(["rm", "-rf", metadir])
    cmd = ["timeout", str(timeout), "java", "-Xss1g", "-Xmx" + heap, "-XX:+UseParallelGC", "-cp", JAVA_CP, "tlc2.TLC",
           "-workers", str(workers), "-metadir", metadir, "-cleanup", "-noGenerateSpecTE"]
    if coverage:
        cmd += ["-coverage", "1"]
    cmd += ["-config", os.path.join(common.SPEC, cfg), os.path.join(common.SPEC, module + ".tla")]
    t0 = time.time()
    with open(out_path, "w") as out:
        p = subprocess.run(cmd, stdout=out, stderr=subprocess.STDOUT, cwd=common.SPEC)
    subprocess.run(["rm", "-rf", metadir])
    res = {"output": out_path, "wall": round(time.time() - t0, 1), "ok": False, "violated": None, "states": 0, "transitions": 0,
           "coverage": {}}
    rx = re.compile(r"^<P_(\w+) line \d+, col \d+ to line \d+, col \d+ of module PenneGrammar>: (\d+):(\d+)")
    tail = []
    with open(out_path, errors="replace") as f:
        for line in f:
            if line.startswith('<<"'):
                continue
            if line.startswith("<P_"):
                m = rx.match(line)
                if m:
                    res["coverage"][m.group(1)] = max(res["coverage"].get(m.group(1), 0), int(m.group(3)))
                continue
            m = re.match(r"^(\d+) states generated, (\d+) distinct states found", line)
            if m:
                res["transitions"], res["states"] = int(m.group(1)), int(m.group(2))
            m = re.match(r"^Error: Invariant (\S+) is violated", line)
            if m:
                res["violated"] = m.group(1)
            if "Model checking completed. No error has been found." in line:
                res["ok"] = True
            if not line.startswith(("  ", "|", "<")):
                tail.append(line.rstrip("\n"))
                if len(tail) > 50:
                    tail.pop(0)
    res["tail"] = "\n".join(tail)
    if p.returncode == 124:
        raise common.ToolError("TLC timed out after %ss on %s/%s" % (timeout, module, cfg))
    if not res["ok"] and res["violated"] is None:
        log(res["tail"])
        raise common.ToolError("TLC failed on %s/%s (exit %s), see %s" % (module, cfg, p.returncode, out_path))
    return res


def scratch(name):
    """scratch files carry the process id: several checks may run this part at the same time"""
    base, ext = os.path.splitext(name)
    return os.path.join(common.WORK, "%s-%d%s" % (base, os.getpid(), ext))


def cleanup():
    for f in glob.glob(os.path.join(common.WORK, "syntax-*-%d.*" % os.getpid())) + glob.glob(os.path.join(common.WORK, "syntax-*-%d.*.ndjson" % os.getpid())):
        try:
            os.remove(f)
        except OSError:
            pass


def iter_prints(path, tag="CASE"):
    head = '<<"%s"' % tag
    with open(path, errors="replace") as f:
        for line in f:
            if line.startswith(head):
                d = common._decode_print(line.rstrip("\n"))
                if not d or not isinstance(d[1], (dict, list)):
                    raise common.ToolError("unreadable %s line in %s" % (tag, path))
                yield d[1]


# ---------------------------------------------------------------------------------------------
# findings: aggregated by (kind, key); a key names a shape, not an input
# ---------------------------------------------------------------------------------------------
class Findings:
    def __init__(self):
        self.by_key = {}
        self.notes = collections.Counter()
        self.note_examples = {}

    def add(self, kind, key, example):
        e = self.by_key.setdefault((kind, key), {"count": 0, "examples": []})
        e["count"] += 1
        if len(e["examples"]) < 3:
            e["examples"].append(example)

    def note(self, key, example=None):
        self.notes[key] += 1
        if example is not None and key not in self.note_examples:
            self.note_examples[key] = example

    def report(self, rep, seed):
        for (kind, key), e in sorted(self.by_key.items()):
            new = rep.violation(kind, key, {"kind": kind, "key": key, "inputs_affected_this_run": e["count"], "seed": seed,
                                            "examples": e["examples"], "how": "bin/check %s --replay <this file>" % rep.prop})
            if not new:
                k = rep.match_known(kind, key)
                if k is not None:
                    rep.known_hits[k["id"]].extend([key] * (e["count"] - 1))


def first_syntax(diags):
    ds = [d for d in diags if d[0] in SYNTAX_CODES]
    return min(ds, key=lambda d: (d[1], d[2])) if ds else None


def judge(fam, case_key, classes, texts, verdict, obs, fnd, stats, strict_after, example):
    """Python only compares: verdict = what TLC decided (v, lo, hi, u), obs = what the real front ends did."""
    v = verdict["v"]
    stats["evaluations"] += 1
    stats[fam + ":" + v] += 1
    if "crash" in obs:
        fnd.add("syntax-crash", "%s | %s" % (obs["crash"], " ".join(texts)[:200]), example("the process died"))
        return
    n = len(classes)
    real = [KIND_CLASS.get(k, "?") for k in obs["k"]]
    if real != classes:
        raise common.ToolError("%s %s: the real token stream %s is not the intended one %s" % (fam, case_key, real, classes))
    ap = obs.get("ap")
    af = obs["af"]
    d = obs["d"]
    if obs.get("app"):
        fnd.add("syntax-alpha-panic", "parse | " + obs["app"][:160], example("the first-generation parser panicked"))
        return
    alpha_accepts = not ap and not obs.get("apx")
    if af.get("p"):
        # same key format as the C02 check (file | message), so that its open known findings apply
        stats["alpha_later_stage_panics"] += 1
        loc, _, msg = str(af["p"]).partition(" | ")
        fnd.add("panic", "%s | %s | syntax part" % (loc, re.sub(r"\d+", "N", msg)[:120]),
                example("the first generation panics after the parse stage (stage %s)" % af.get("stage")))
    if d["o"] == "panic":
        fnd.add("syntax-delta-panic", str(d.get("p"))[:160], example("the second-generation front end panicked"))
    if v == "valid":
        if not alpha_accepts:
            code = (ap or [[obs.get("apx")]])[0][0]
            at = (ap or [[0, 1]])[0][1]
            fnd.add("syntax-alpha-rejects-valid", "E%s at `%s`" % (code, " ".join(classes[max(0, at - 3):at])),
                    example("R: valid; the first-generation parser reports a syntax error"))
        elif d["o"] == "rej":
            at = d["d"][0][1] if d["d"] else 1
            fnd.add("syntax-delta-rejects-valid", "E%s at `%s`" % (d["d"][0][0] if d["d"] else "?", " ".join(classes[max(0, at - 3):at])),
                    example("R: valid; the second-generation parser rejects"))
        elif d["o"] == "ok":
            if obs.get("teq") is False:
                fnd.add("syntax-trees-differ", common_diff(obs.get("ta"), obs.get("td")), example("R: valid; both accept but build different trees"))
            else:
                stats["valid_both_accept_same_tree"] += 1
        return
    if v == "unc":
        u = verdict["u"]
        site = "`%s [%s]`" % (" ".join(classes[max(0, u - 3):u - 1]), classes[u - 1] if 0 < u <= n else "EOF")
        stats["unc_alpha_%s_delta_%s" % ("accepts" if alpha_accepts else "rejects", d["o"])] += 1
        if alpha_accepts != (d["o"] == "ok"):
            fnd.note("unconstrained sequence: first generation %s, second generation %s: extension at %s" %
                     ("accepts" if alpha_accepts else "rejects", d["o"], site), {"source_tokens": " ".join(texts)[:300]})
        return
    # ---- invalid ----------------------------------------------------------------------------------------
    lo, hi = verdict["lo"], verdict["hi"]
    # the grammar position names the shape: what was expected after which two tokens (classes), not the individual input
    key_shape = "after `%s` expected %s" % (" ".join(classes[max(0, hi - 3):hi - 1]), verdict["exp"])
    if verdict["exp"] == "Module":
        key_shape = "at module level expected a declaration"
    if alpha_accepts:
        if af["ok"]:
            fnd.add("syntax-alpha-accepts-invalid", key_shape, example("R: invalid; the first generation compiles it"))
        else:
            fnd.add("syntax-alpha-no-syntax-error", key_shape, example("R: invalid; the first-generation parser stores no error (the failure comes from a later stage)"))
    else:
        if not af["ok"] and not af["d"] and not af.get("p"):
            fnd.add("syntax-alpha-silent", key_shape, example("R: invalid; the compilation fails with an empty list of diagnostics"))
        f = first_syntax(ap)
        if f is None:
            fnd.add("syntax-alpha-no-syntax-error", key_shape, example("R: invalid; no diagnostic of the syntax family"))
        elif f[2] < lo:
            fnd.add("syntax-alpha-location", "E%d ends before the window | %s" % (f[0], key_shape),
                    example("R: invalid at token %d, window %d..%d; the first syntax diagnostic covers tokens %d..%d" % (hi, lo, hi, f[1], f[2])))
        elif f[1] > hi:
            if strict_after and not verdict.get("soft"):
                fnd.add("syntax-alpha-location", "E%d starts after the window | %s" % (f[0], key_shape),
                        example("R: invalid at token %d, window %d..%d; the first syntax diagnostic covers tokens %d..%d" % (hi, lo, hi, f[1], f[2])))
            else:
                stats["alpha_later_fault_reported"] += 1
        else:
            stats["alpha_in_window"] += 1
    # second generation: no property demands rejection or a location -> notes
    if d["o"] == "ok":
        stats["delta_accepts_invalid"] += 1
        fnd.note("second generation accepts an invalid sequence: expected %s, got %s" % (verdict["exp"], classes[hi - 1] if hi <= n else "EOF"),
                 {"source_tokens": " ".join(texts), "window": [lo, hi]})
    elif d["o"] == "rej":
        f = min(d["d"], key=lambda x: (x[1], x[2])) if d["d"] else None
        if f is not None and f[2] >= lo and f[1] <= hi:
            stats["delta_in_window"] += 1
        elif f is not None and (f[2] < lo or (strict_after and not verdict.get("soft"))):
            fnd.note("second generation reports E%d %s the window: expected %s, got %s" %
                     (f[0], "before" if f[2] < lo else "after", verdict["exp"], classes[hi - 1] if hi <= n else "EOF"),
                     {"source_tokens": " ".join(texts), "window": [lo, hi], "diagnostic_tokens": f[1:]})


def common_diff(a, b):
    from . import grammar_common as gc
    try:
        return gc.diff_signature(a, b) or "?"
    except Exception:           # pragma: no cover
        return "?"


def read_obs(path):
    with open(path) as f:
        for line in f:
            if line.strip():
                yield json.loads(line)


def expand_layouts(o):
    first = o["o"][0]
    return [first if x == "=" else x for x in o["o"]]


# ---------------------------------------------------------------------------------------------
# (1) all class sequences in contexts
# ---------------------------------------------------------------------------------------------
def part_sequences(rep, tier, seed, fnd, stats):
    k = LAYOUTS[tier]
    r = run_tlc("MC_SyntaxSeq", "MC_SyntaxSeq_%s.cfg" % tier, "seq-%s" % tier, timeout={"quick": 300, "thorough": 1200}[tier])
    if not r["ok"]:
        raise common.ToolError("MC_SyntaxSeq: invariant %s violated (the specification is inconsistent)" % r["violated"])
    ctxs = None
    for c in iter_prints(r["output"], "CTX"):
        ctxs = {x["name"]: x for x in c}
    if not ctxs:
        raise common.ToolError("MC_SyntaxSeq printed no contexts")
    cases_path = scratch("syntax-seq-cases.ndjson")
    verdicts = []
    with open(cases_path, "w") as out:
        for i, c in enumerate(iter_prints(r["output"])):
            ctx = ctxs[c["c"]]
            classes = list(ctx["pre"]) + list(c["s"]) + list(ctx["suf"])
            toks = [token_of(cl, seed + i + 7 * j) for j, cl in enumerate(classes)]
            out.write(json.dumps({"id": i, "toks": toks}, separators=(",", ":")) + "\n")
            verdicts.append((c["c"], len(c["s"]), c["v"], c["lo"], c["hi"], c["u"], c["exp"], c["soft"], classes))
    total = len(verdicts)
    os.remove(r["output"])
    obs_path = scratch("syntax-seq-obs.ndjson")
    common.pvh(["replay", cases_path, obs_path, k, seed], exe_name=EXE, env=PVH_ENV)
    n = 0
    samples = []
    with open(cases_path) as cf:
        for case_line, o in zip(cf, read_obs(obs_path)):
            ctx, slen, v, lo, hi, u, exp, soft, classes = verdicts[n]
            n += 1
            if "toolerror" in o:
                raise common.ToolError("renderer: %s" % o["toolerror"])
            case = json.loads(case_line)
            texts = [text_of(t) for t in case["toks"]]
            np_ = len(ctxs[ctx]["pre"])
            # nothing at all follows the offending token (otherwise a later fault may legitimately be the one reported)
            strict_after = hi >= len(classes)
            verdict = {"v": v, "lo": lo, "hi": hi, "u": u, "exp": exp, "soft": soft}
            layouts = [{"crash": o["crash"]}] if "crash" in o else expand_layouts(o)
            for j, ob in enumerate(layouts):
                ex = lambda msg, j=j, ob=ob: {"family": "sequences", "context": ctx, "case": case, "layout": j, "source_tokens": " ".join(texts),
                                              "verdict": verdict, "observation": {kk: vv for kk, vv in ob.items() if kk != "k"}, "message": msg}
                judge("seq", n, classes, texts, verdict, ob, fnd, stats, strict_after, ex)
            if len(samples) < 3 and v != "invalid" and slen == 3:
                samples.append({"context": ctx, "source_tokens": " ".join(texts), "verdict": v})
    if n != total:
        raise common.ToolError("replay returned %d observations for %d cases" % (n, total))
    log("[syntax] sequences: %d cases x %d layouts (TLC %d states, %.1fs)" % (total, k, r["states"], r["wall"]))
    return {"states": r["states"], "transitions": r["transitions"], "cases": total, "layouts": k, "samples": samples}


# ---------------------------------------------------------------------------------------------
# (2) single-token faults of the modules PenneGrammar derives
# ---------------------------------------------------------------------------------------------
def apply_fault(toks, ks, fl, salt):
    i = fl["i"] - 1
    if fl["f"] == "del":
        return toks[:i] + toks[i + 1:], ks[:i] + ks[i + 1:]
    if fl["f"] == "dup":
        return toks[:i + 1] + [toks[i]] + toks[i + 1:], ks[:i + 1] + [ks[i]] + ks[i + 1:]
    return toks[:i] + [token_of(fl["k"], salt)] + toks[i + 1:], ks[:i] + [fl["k"]] + ks[i + 1:]


def part_faults(rep, tier, seed, fnd, stats):
    import concurrent.futures
    from . import syntax_cfgs
    k = 1
    layout_arg = {"quick": 100, "thorough": 101}[tier]        # quick: single spaces; thorough: one seeded random layout
    t_start = time.time()
    foci = syntax_cfgs.foci(tier)
    timeout = {"quick": 300, "thorough": 1500}[tier]
    with concurrent.futures.ThreadPoolExecutor(max_workers=PARALLEL_TLC) as ex:
        results = dict(zip(foci, ex.map(lambda f: run_tlc("MC_SyntaxGrammar", "MC_SyntaxGrammar_%s_%s.cfg" % (f, tier),
                                                          "gr-%s-%s" % (f, tier), workers=2, timeout=timeout, heap="2g"), foci)))
    log("[syntax] faults: TLC on %d foci took %.1fs" % (len(foci), time.time() - t_start))
    states = transitions = modules = faults = 0
    t_replay = t_judge = 0.0
    coverage = collections.Counter()
    per_focus = {}
    samples = []
    for focus in foci:
        r = results[focus]
        if not r["ok"]:
            log(r["tail"][-1500:])
            raise common.ToolError("MC_SyntaxGrammar focus %s: invariant %s violated -- a module PenneGrammar derives is not accepted "
                                   "by the recogniser (or a token has no class): the specification is inconsistent" % (focus, r["violated"]))
        states += r["states"]
        transitions += r["transitions"]
        cases_path = scratch("syntax-gr-cases.ndjson")
        meta = []
        nmod = 0
        with open(cases_path, "w") as out:
            for c in iter_prints(r["output"]):
                nmod += 1
                for tag in c["tags"]:
                    coverage[tag] += 1
                ks = list(c["ks"])
                for fl in sorted(c["faults"], key=lambda x: (x["i"], x["f"], x["k"])):
                    toks, classes = apply_fault(c["toks"], ks, fl, seed + len(meta))
                    out.write(json.dumps({"id": len(meta), "toks": toks}, separators=(",", ":")) + "\n")
                    meta.append((fl, classes))
        os.remove(r["output"])
        obs_path = scratch("syntax-gr-obs.ndjson")
        t1 = time.time()
        common.pvh(["replay", cases_path, obs_path, layout_arg, seed], exe_name=EXE, env=PVH_ENV)
        t_replay += time.time() - t1
        t1 = time.time()
        n = 0
        with open(cases_path) as cf:
            for case_line, o in zip(cf, read_obs(obs_path)):
                fl, classes = meta[n]
                n += 1
                if "toolerror" in o:
                    raise common.ToolError("renderer: %s" % o["toolerror"])
                case = json.loads(case_line)
                texts = [text_of(t) for t in case["toks"]]
                verdict = {kk: fl[kk] for kk in ("v", "lo", "hi", "u", "exp", "soft")}
                layouts = [{"crash": o["crash"]}] if "crash" in o else expand_layouts(o)
                for j, ob in enumerate(layouts):
                    ex_ = lambda msg, j=j, ob=ob: {"family": "faults", "focus": focus, "fault": {"i": fl["i"], "f": fl["f"], "k": fl["k"]}, "case": case,
                                                   "layout": layout_arg - 100, "source_tokens": " ".join(texts), "verdict": verdict,
                                                   "observation": {kk: vv for kk, vv in ob.items() if kk != "k"}, "message": msg}
                    judge("fault", n, classes, texts, verdict, ob, fnd, stats, True, ex_)
                if len(samples) < 3 and fl["v"] == "unc":
                    samples.append({"focus": focus, "fault": fl["f"], "source_tokens": " ".join(texts), "verdict": "unc"})
        if n != len(meta):
            raise common.ToolError("replay returned %d observations for %d cases" % (n, len(meta)))
        t_judge += time.time() - t1
        per_focus[focus] = {"modules": nmod, "faults": len(meta), "states": r["states"], "tlc_wall": r["wall"]}
        modules += nmod
        faults += len(meta)
    missing = sorted(t for t in NODE_TAGS if coverage.get(t, 0) == 0)
    if missing:
        raise common.ToolError("vacuity: kinds of syntax nodes that occur in no module of the fault family: %s" % missing)
    log("[syntax] faults: replay %.1fs, comparison %.1fs" % (t_replay, t_judge))
    log("[syntax] faults: %d derived modules all accepted by the recogniser (invariant Accepted), %d single-token faults x %d layouts" % (modules, faults, k))
    return {"states": states, "transitions": transitions, "modules": modules, "cases": faults, "layouts": k, "per_focus": per_focus,
            "modules_per_node_kind": dict(coverage), "samples": samples}


# ---------------------------------------------------------------------------------------------
# (3) impl -> spec: single-token mutants of corpus files, judged by TLC over the real token stream
# ---------------------------------------------------------------------------------------------
CHUNK = 512     # Trace_Syntax.tla Chunk


def corpus_files():
    files = []
    for pat in ("tests/samples/**/*.pn", "examples/**/*.pn", "core/**/*.pn", "vendor/**/*.pn"):
        files += glob.glob(os.path.join(common.REPO, pat), recursive=True)
    out = []
    for f in sorted(set(files)):
        try:
            open(f, encoding="utf-8").read()        # (two samples are deliberately not UTF-8: lexical subject)
            out.append(f)
        except UnicodeDecodeError:
            pass
    return out


def trace_record(m):
    """what Trace_Syntax.tla reads: the real token stream and the digest of the observation (data shaping only)"""
    o = m["o"]
    ap = o.get("ap") or []
    f = first_syntax(ap)
    af = o["af"]
    acc = not ap and not o.get("apx") and not o.get("app")
    fail = (not af["ok"]) and bool(af["d"])
    # a panic after the parse stage is C02's subject: the clause `fails with a diagnostic` is then not judged here
    if af.get("p") and ap:
        fail = True
    teq = "na" if "teq" not in o else ("yes" if o["teq"] else "no")
    strict = bool(m.get("base_ok")) and m["mut"]["op"] in ("del", "dup", "rep", "ins")
    return {"id": m["id"], "k": o["k"], "a": {"acc": acc, "fail": fail, "t": [f[1], f[2]] if f else []}, "d": {"o": o["d"]["o"]},
            "teq": teq, "strict": strict}


def steps_of(rec):
    return (len(rec["k"]) + CHUNK - 1) // CHUNK + 2


def validate(records, tag, chunks):
    """-> (verdicts by id, ids of rejected runs)"""
    verdicts, rejected = {}, []
    if not records:
        return verdicts, rejected
    chunks = max(1, min(chunks, len(records)))
    todo = []
    for i in range(chunks):
        part = records[i::chunks]
        path = os.path.join(common.WORK, "syntax-trace-%s-%d.%d.ndjson" % (tag, os.getpid(), i))
        common.write_ndjson(path, part)
        todo.append((path, part))
    rounds = 0
    while todo:
        rounds += 1
        if rounds > 40:
            raise common.ToolError("trace validation does not come to an end")
        results = {r["file"]: r for r in common.tlc_traces("Trace_Syntax", "Trace_Syntax.cfg", [f for f, _ in todo], parallel=8)}
        nxt = []
        for path, part in todo:
            res = results[path]
            for v in iter_prints(res["output"], "V"):
                verdicts[v["id"]] = v
            os.remove(res["output"])
            if res["accepted"]:
                continue
            m = res["matched"]
            idx = 0
            while idx < len(part) and m >= steps_of(part[idx]):
                m -= steps_of(part[idx])
                idx += 1
            if idx >= len(part):
                raise common.ToolError("Trace_Syntax: not accepted but every run matched (%s)" % path)
            rejected.append(part[idx]["id"])
            rest = part[idx + 1:]
            if rest:
                new = path[:-len(".ndjson")] + "r.ndjson"
                common.write_ndjson(new, rest)
                nxt.append((new, rest))
        todo = nxt
    return verdicts, rejected


def part_corpus(rep, tier, seed, fnd, stats, selftest):
    files = corpus_files()
    if len(files) < 50:
        raise common.ToolError("only %d corpus files under %s" % (len(files), common.REPO))
    lst = scratch("syntax-corpus.list")
    open(lst, "w").write("\n".join(files) + "\n")
    out = scratch("syntax-mutants.ndjson")
    n = MUTANTS[tier]
    common.pvh(["mutate", lst, out, n, seed], exe_name=EXE, env=PVH_ENV)
    out_files = scratch("syntax-files.ndjson")
    common.pvh(["files", lst, out_files], exe_name=EXE, env=PVH_ENV)
    mutants = {}
    records = []
    both = list(read_obs(out))
    for m in read_obs(out_files):
        if "id" in m:
            m["id"] = "f%d" % m["id"]
        both.append(m)
    for m in both:
        if "toolerror" in m:
            raise common.ToolError("mutate: %s" % m["toolerror"])
        if "crash" in m:
            fnd.add("syntax-crash", "%s | corpus mutant %s" % (m["crash"], m.get("index")), {"family": "corpus", "index": m.get("index"), "seed": seed,
                                                                                            "message": "the process died", "source_tokens": ""})
            continue
        mutants[m["id"]] = m
        records.append(trace_record(m))
    verdicts, rejected = validate(records, "c", {"quick": 8, "thorough": 24}[tier])
    rejected = set(rejected)
    by = collections.Counter()
    samples = []
    for rec in records:
        m = mutants[rec["id"]]
        v = verdicts.get(rec["id"])
        if v is None:
            raise common.ToolError("Trace_Syntax printed no verdict for run %s" % rec["id"])
        by[v["v"]] += 1
        if v["v"] == "lexical":
            stats["corpus:lexical"] += 1
            continue
        o = m["o"]
        rel = os.path.relpath(m["file"], common.REPO)
        classes = [KIND_CLASS.get(x, "?") for x in o["k"]]
        # the spellings are not recorded (files are long): the classes name the shape
        ex = lambda msg, m=m, v=v, rel=rel: {"family": "corpus", "file": rel, "mut": m["mut"], "verdict": v, "message": msg,
                                               "source_tokens": "%s %s" % (rel, json.dumps(m["mut"])),
                                               "observation": {kk: vv for kk, vv in m["o"].items() if kk != "k"}}
        before = len(fnd.by_key), sum(e["count"] for e in fnd.by_key.values())
        judge("corpus", rec["id"], classes, classes, v, o, fnd, stats, rec["strict"], ex)
        after = len(fnd.by_key), sum(e["count"] for e in fnd.by_key.values())
        python_says_bad = after != before and not o.get("af", {}).get("p") and o["d"]["o"] != "panic"
        tlc_says_bad = rec["id"] in rejected
        if tlc_says_bad and after == before:
            raise common.ToolError("Trace_Syntax rejects run %s (%s %s) but the comparison finds nothing: %s" % (rec["id"], rel, m["mut"], v))
        if python_says_bad and not tlc_says_bad:
            raise common.ToolError("the comparison reports run %s (%s %s) but Trace_Syntax accepts it: %s" % (rec["id"], rel, m["mut"], v))
        if len(samples) < 3 and v["v"] == "invalid" and m["mut"]["op"] != "none":
            samples.append({"file": rel, "mut": m["mut"], "tokens": len(classes), "verdict": {kk: v[kk] for kk in ("v", "lo", "hi", "exp")}})
    untouched = [r for r in records if mutants[r["id"]]["mut"]["op"] == "none"]
    log("[syntax] corpus: %d mutants of %d files judged by TLC over the real token stream: %s; %d runs rejected by Trace_Syntax" %
        (len(records), len(files), dict(by), len(rejected)))
    res = {"mutants": len(records), "files": len(files), "verdicts": dict(by), "rejected_by_tlc": len(rejected), "accepted_by_tlc": len(records) - len(rejected),
           "samples": samples, "unmutated_files_judged": len(untouched)}
    if selftest:
        res["selftests"] = corpus_selftests(records, verdicts, rejected)
    return res


def corpus_selftests(records, verdicts, rejected):
    """corrupt recorded observations: Trace_Syntax must reject exactly the corrupted runs"""
    out = {}
    good = [r for r in records if r["id"] not in rejected and len(r["k"]) < 1500]
    val = [r for r in good if verdicts[r["id"]]["v"] == "valid"][:2]
    inv = [r for r in good if verdicts[r["id"]]["v"] == "invalid" and r["strict"] and not verdicts[r["id"]]["soft"]][:3]
    if len(val) < 2 or len(inv) < 3:
        raise common.ToolError("self-test: not enough accepted runs to corrupt (%d valid, %d invalid)" % (len(val), len(inv)))
    tests = [
        ("valid_but_second_generation_rejects", dict(val[0], id="st1", d={"o": "rej"})),
        ("valid_but_trees_differ", dict(val[1], id="st2", teq="no")),
        ("invalid_but_accepted", dict(inv[0], id="st3", a={"acc": True, "fail": False, "t": []})),
        ("diagnostic_one_token_late", dict(inv[1], id="st4", a=dict(inv[1]["a"], t=[verdicts[inv[1]["id"]]["hi"] + 1, verdicts[inv[1]["id"]]["hi"] + 1]))),
        ("diagnostic_before_the_window", dict(inv[2], id="st5", a=dict(inv[2]["a"], t=[max(0, verdicts[inv[2]["id"]]["lo"] - 2)] * 2))),
        ("intact_run_accepted", dict(inv[0], id="st6")),
    ]
    recs = [t[1] for t in tests]
    _, rej = validate(recs, "selftest", 1)
    for name, rec in tests:
        out[name] = (rec["id"] in rej) if name != "intact_run_accepted" else (rec["id"] not in rej)
    return out


# ---------------------------------------------------------------------------------------------
# the part as a whole: computed once per (tier, seed, tree under test, sources of the part), reported per property
# ---------------------------------------------------------------------------------------------
PROPERTY_KINDS = {
    # first generation accepts what is valid / fails with diagnostics on what is not / does not die
    "C02": {"syntax-alpha-rejects-valid", "syntax-alpha-accepts-invalid", "syntax-alpha-no-syntax-error", "syntax-alpha-silent",
            "syntax-alpha-panic", "panic", "syntax-crash"},
    # the first syntax diagnostic covers the offending text
    "C13": {"syntax-alpha-location"},
    # second generation: every well-formed module is accepted without diagnostics, no panic
    "C15": {"syntax-delta-rejects-valid", "syntax-delta-panic", "syntax-crash"},
    # second generation: every syntactically valid module is accepted, same tree as the first generation
    "C16": {"syntax-delta-rejects-valid", "syntax-trees-differ"},
}
ALL_KINDS = set().union(*PROPERTY_KINDS.values())
SOURCES = ["spec/SyntaxRules.tla", "spec/MC_SyntaxSeq.tla", "spec/MC_SyntaxGrammar.tla", "spec/Trace_Syntax.tla", "spec/PenneGrammar.tla",
           "spec/PenneAst.tla", "spec/MC_PenneGrammar.tla", "checks/syntax_part.py", "checks/syntax_cfgs.py", "checks/grammar_cfgs.py",
           "harness/src/bin/pvh_syntax.rs", "harness/src/syntax/observe.rs", "harness/src/grammar/render.rs",
           "harness/src/grammar/alphaproj.rs", "harness/src/grammar/xml.rs", "harness/src/grammar/pstr.rs", "harness/src/alpha.rs"]


def repo_state():
    def git(*a):
        return subprocess.run(["git", "-C", common.REPO] + list(a), stdout=subprocess.PIPE, stderr=subprocess.DEVNULL, text=True).stdout
    head = git("rev-parse", "HEAD").strip()
    return head[:12] + "-" + hashlib.sha1((git("diff", "HEAD") + git("ls-files", "--others", "--exclude-standard")).encode()).hexdigest()[:10]


def sources_state():
    h = hashlib.sha1()
    for rel in SOURCES + sorted(glob.glob(os.path.join(common.SPEC, "MC_Syntax*.cfg"))):
        h.update(open(os.path.join(common.VERIF, rel), "rb").read())
    return h.hexdigest()[:10]


def compute(tier, seed, selftest, parts):
    fnd = Findings()
    stats = collections.Counter()
    cov = {}
    state0 = repo_state()
    t0 = time.time()
    if "seq" in parts:
        cov["sequences"] = part_sequences(None, tier, seed, fnd, stats)
    if "faults" in parts:
        cov["faults"] = part_faults(None, tier, seed, fnd, stats)
    if "corpus" in parts:
        cov["corpus"] = part_corpus(None, tier, seed, fnd, stats, selftest)
        for name, ok in cov["corpus"].get("selftests", {}).items():
            if not ok:
                raise common.ToolError("self-test %s failed: Trace_Syntax does not detect a corrupted observation" % name)
    if selftest:
        cov["selftests"] = dict(cov.get("corpus", {}).get("selftests", {}), **compare_selftests())
    if repo_state() != state0:
        raise common.ToolError("the repository under test changed during the run: run the check again")
    vac = vacuity(stats, parts)
    if vac:
        raise common.ToolError("vacuity: " + "; ".join(vac))
    return {"findings": [[kind, key, e["count"], e["examples"]] for (kind, key), e in sorted(fnd.by_key.items())],
            "notes": dict(fnd.notes), "note_examples": fnd.note_examples, "stats": dict(stats), "cov": cov, "parts": sorted(parts),
            "selftested": bool(selftest), "wall": round(time.time() - t0, 1), "repo_state": state0}


def vacuity(stats, parts):
    """every rule must have been exercised in every family that ran"""
    out = []
    for fam in [f for f, p in (("seq", "seq"), ("fault", "faults"), ("corpus", "corpus")) if p in parts]:
        for v in ("valid", "invalid", "unc"):
            if stats.get("%s:%s" % (fam, v), 0) == 0:
                out.append("no %s case in family %s" % (v, fam))
    if stats.get("valid_both_accept_same_tree", 0) == 0:
        out.append("no valid case accepted by both parsers with equal trees")
    if stats.get("alpha_in_window", 0) == 0:
        out.append("no invalid case with a diagnostic inside the window")
    return out


def compare_selftests():
    """the comparison itself: corrupted verdicts / observations must be reported under the right kind"""
    texts = "fn f ( ) { goto x }".split()
    classes = ["fn", "id", "(", ")", "{", "goto", "id", "}"]
    good = {"k": ["Fn", "Identifier", "ParenLeft", "ParenRight", "BraceLeft", "Goto", "Identifier", "BraceRight"], "n": 8,
            "ap": [[300, 8, 8]], "af": {"ok": False, "stage": "resolve", "d": [[300, 8, 8]]}, "d": {"o": "rej", "d": [[300, 8, 8]]}}
    verdict = {"v": "invalid", "lo": 7, "hi": 8, "u": 0, "exp": ";", "soft": False}
    ok_obs = dict(good, ap=[], af={"ok": True, "stage": "resolve", "d": []}, d={"o": "ok", "d": []}, teq=True)

    def kinds(v, o, strict=True):
        f = Findings()
        judge("selftest", 0, classes, texts, v, o, f, collections.Counter(), strict, lambda msg: {"message": msg})
        return {k for k, _ in f.by_key}
    return {
        "intact_invalid_case_clean": kinds(verdict, good) == set(),
        "missing_semicolon_accepted_is_reported": kinds(verdict, ok_obs) == {"syntax-alpha-accepts-invalid"},
        "diagnostic_one_token_late_is_reported": kinds(verdict, dict(good, ap=[[300, 9, 9]])) == {"syntax-alpha-location"},
        "diagnostic_before_window_is_reported": kinds(verdict, dict(good, ap=[[300, 5, 6]])) == {"syntax-alpha-location"},
        "later_fault_tolerated_when_more_text_follows": kinds(verdict, dict(good, ap=[[300, 9, 9]]), strict=False) == set(),
        "silent_failure_is_reported": "syntax-alpha-silent" in kinds(verdict, dict(good, af={"ok": False, "stage": "resolve", "d": []})),
        "valid_rejected_by_first_generation_is_reported": kinds(dict(verdict, v="valid"), good) == {"syntax-alpha-rejects-valid"},
        "valid_rejected_by_second_generation_is_reported": kinds(dict(verdict, v="valid"), dict(ok_obs, d={"o": "rej", "d": [[300, 8, 8]]})) == {"syntax-delta-rejects-valid"},
        "different_trees_are_reported": kinds(dict(verdict, v="valid"), dict(ok_obs, teq=False, ta={"decls": []}, td={"decls": [1]})) == {"syntax-trees-differ"},
        "flipped_verdict_is_reported": kinds(dict(verdict, v="valid"), good) != set() and kinds(verdict, ok_obs) != set(),
    }


def cached(tier, seed, selftest, parts):
    os.makedirs(common.WORK, exist_ok=True)
    prefix = "syntax-cache-%s-s%d-%s-" % (tier, seed, hashlib.sha1(os.path.realpath(common.REPO).encode()).hexdigest()[:6])
    name = prefix + "%s-%s-%s.json" % (repo_state(), sources_state(), "".join(sorted(p[0] for p in parts)))
    path = os.path.join(common.WORK, name)
    if os.path.exists(path):
        try:
            d = json.load(open(path))
            if d.get("selftested") or not selftest:
                log("[syntax] re-using the run of this tree %s (%.0fs when it was computed)" % (name, d["wall"]))
                d["cached"] = True
                return d
        except ValueError:
            pass
    import fcntl
    with open(os.path.join(common.WORK, prefix + "lock"), "w") as lock:
        fcntl.flock(lock, fcntl.LOCK_EX)        # another check may be computing the same run right now
        if os.path.exists(path):
            d = json.load(open(path))
            if d.get("selftested") or not selftest:
                log("[syntax] re-using the run another check has just computed (%s)" % name)
                d["cached"] = True
                return d
        try:
            d = compute(tier, seed, selftest, parts)
        finally:
            cleanup()
        return store(d, path, prefix)


def store(d, path, prefix):
    for old in os.listdir(common.WORK):
        if old.startswith(prefix) and old.endswith(".json"):
            os.remove(os.path.join(common.WORK, old))
    tmp = path + ".%d.tmp" % os.getpid()
    json.dump(d, open(tmp, "w"))
    os.replace(tmp, path)
    d["cached"] = False
    return d


def soft_baseline():
    path = os.path.join(common.VERIF, "checks", "syntax_soft_baseline.json")
    try:
        return set(json.load(open(path))["shapes"])
    except (OSError, ValueError, KeyError):
        return set()


def run_part(rep, tier, seed, selftest, parts=None, kinds=None):
    """Runs (or re-uses) the part and reports, through `rep`, the discrepancies that belong to rep.prop (PROPERTY_KINDS; `kinds`
    overrides).  parts: subset of {"seq", "faults", "corpus"}.  Returns coverage numbers for the evidence of the calling check:
    {states, transitions, cases, traces_accepted, evaluations, violations_reported, notes, sequences, faults, corpus, stats}."""
    selftest = selftest or tier == "thorough"
    common.build_harness(EXE)
    parts = set(parts or ("seq", "faults", "corpus"))
    kinds = set(kinds) if kinds is not None else PROPERTY_KINDS.get(rep.prop, ALL_KINDS)
    d = cached(tier, seed, selftest, parts)
    reported = 0
    for kind, key, count, examples in d["findings"]:
        if kind not in kinds:
            continue
        reported += 1
        new = rep.violation(kind, key, {"kind": kind, "key": key, "inputs_affected_this_run": count, "seed": seed, "tier": tier, "part": "syntax",
                                        "examples": examples, "how": "bin/check %s --replay <this file>" % rep.prop})
        if not new:
            k = rep.match_known(kind, key)
            if k is not None:
                rep.known_hits[k["id"]].extend([key] * (count - 1))
    # soft observations: no property demands agreement there.  Shapes not seen on the unchanged tree are named first.
    soft = collections.Counter()
    baseline = soft_baseline()
    new_shapes = sorted(k for k in d["notes"] if k.startswith("second generation") and k not in baseline)
    for key in new_shapes[:2]:
        rep.note_drift("syntax (soft) NEW shape, not in checks/syntax_soft_baseline.json: %s (%d inputs), e.g. %s" %
                       (key, d["notes"][key], json.dumps(d["note_examples"].get(key, {}).get("source_tokens", ""))[:160]))
    for key, cnt in d["notes"].items():
        soft[re.sub(r": (expected|extension at) .*$", "", key)] += cnt
    if soft:
        # one line (the report prints only its first few notes)
        rep.note_drift("syntax (soft: no property demands agreement there; shapes in the evidence): " +
                       "; ".join("%s (%d)" % kv for kv in soft.most_common(6)))
    cov = d["cov"]
    out = {
        "rule": "spec/SyntaxRules.tla: pushdown recogniser of the documented grammar over token classes, verdict valid | unc | invalid(lo, hi); "
                "valid => no syntax error in the first-generation tree, second generation accepts, equal trees; invalid => first generation "
                "fails with diagnostics and its first syntax diagnostic covers a token of the window",
        "states": sum(cov.get(p, {}).get("states", 0) for p in ("sequences", "faults")),
        "transitions": sum(cov.get(p, {}).get("transitions", 0) for p in ("sequences", "faults")),
        "cases_replayed": sum(cov.get(p, {}).get("cases", 0) * cov.get(p, {}).get("layouts", 1) for p in ("sequences", "faults")),
        "traces_accepted": cov.get("corpus", {}).get("accepted_by_tlc", 0),
        "evaluations": d["stats"].get("evaluations", 0),
        "verdicts": {k: v for k, v in d["stats"].items() if ":" in k},
        "stats": d["stats"],
        "derived_modules_accepted_by_the_recogniser": cov.get("faults", {}).get("modules", 0),
        "discrepancies_of_this_property": reported,
        "discrepancies_all_properties": len(d["findings"]),
        "soft_notes": dict(soft),
        "soft_shapes_not_in_baseline": new_shapes,
        "soft_shapes_second_generation": {k: v for k, v in sorted(d["notes"].items(), key=lambda kv: -kv[1]) if k.startswith("second generation")},
        "selftests": cov.get("selftests", {}),
        "samples": [x for p in ("sequences", "faults", "corpus") for x in cov.get(p, {}).get("samples", [])][:6],
        "per_focus": cov.get("faults", {}).get("per_focus", {}),
        "corpus": {k: v for k, v in cov.get("corpus", {}).items() if k not in ("samples", "selftests")},
        "reused_run": bool(d.get("cached")),
        "wall_when_computed": d["wall"],
    }
    log("[syntax] %s: %d discrepancies for this property (%d in all), %d evaluations, soft notes %s" %
        (rep.prop, reported, len(d["findings"]), out["evaluations"], dict(soft)))
    return out


def replay(path):
    """bin/check Cxx --replay <file> for replay files written by this part (detail.part == "syntax")"""
    d = json.load(open(path))
    det = d["detail"]
    print("property %s   kind=%s\nkey=%s\ninputs affected in that run: %s" % (d["property"], d["kind"], d["key"], det.get("inputs_affected_this_run")))
    common.build_harness(EXE)
    for ex in det.get("examples", []):
        print("=" * 100)
        print(ex.get("message", ""))
        print("verdict of spec/SyntaxRules.tla (token indices, 1-based; n+1 = end of file):", json.dumps(ex.get("verdict")))
        if ex.get("family") == "corpus":
            print("corpus file %s, mutation %s" % (ex["file"], json.dumps(ex["mut"])))
            print(common.pvh(["showmut", os.path.join(common.REPO, ex["file"]), json.dumps(ex["mut"])], exe_name=EXE).stdout)
        elif ex.get("case"):
            tmp = os.path.join(common.WORK, "syntax-replay-case.json")
            json.dump(ex["case"], open(tmp, "w"))
            print(common.pvh(["show", tmp, ex.get("layout") or 0, det.get("seed", 1)], exe_name=EXE).stdout)
        else:
            print(json.dumps(ex, indent=1)[:4000])
    return 0

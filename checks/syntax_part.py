"""Work package `syntax`: spec/SyntaxRules.tla (a recogniser for the documented grammar) bound to both parsers.

    run_part(rep, tier, seed, selftest, parts=None) -> dict (coverage numbers for the evidence of the calling check)

R (TLC): for an arbitrary sequence of token classes the verdict  valid | unc | invalid(lo, hi)  (see SyntaxRules.tla).
Hard rules (each a `rep.violation`, kinds prefixed `syntax-`):
  (a) valid   => the first-generation parser stores no error in its tree (no E100/E3xx), the second generation accepts
                 without diagnostics, and both build the same tree                                 [C02 C15 C16]
  (b) invalid => the first generation fails with at least one diagnostic, its parser reports an error, and the FIRST
                 parse error starts inside the window lo..hi (in tokens; both ends are legitimate places)   [C02 C13]
                 -- the window clause is only demanded where nothing but the fixed context follows the offending token
                 (otherwise a later fault may legitimately be the one that is reported); never before the window.
Soft (notes, `rep.note_drift`): the second generation accepts an invalid sequence / the two parsers disagree on
an `unc` sequence / the second generation's diagnostic lies outside the window: no property demands agreement there.

Gen: (1) MC_SyntaxSeq: all class sequences <= K in 7 contexts; (2) MC_SyntaxGrammar: every module a small PenneGrammar
configuration derives (invariant: the recogniser accepts it) with single-token faults; (3) impl -> spec: single-token
mutants of corpus files, the real token stream judged by TLC through Trace_Syntax.tla.
"""
import collections
import glob
import hashlib
import json
import os
import random
import re
import subprocess
import time

from . import common, grammar_cfgs
from .common import log

EXE = "pvh_syntax"
PVH_ENV = {"MALLOC_MMAP_THRESHOLD_": "33554432", "MALLOC_TRIM_THRESHOLD_": "2000000000", "MALLOC_TOP_PAD_": "268435456"}
JAVA_CP = "/opt/veriftools/tla/tla2tools.jar:/opt/veriftools/tla/CommunityModules-deps.jar"
# codes the parsers themselves raise (docs/errors.md: E100 unexpected end of file, E300-E302, E335, E343-E346 missing
# types, E350 compound type, E390 nesting); everything else comes from later stages and is not judged here
SYNTAX_CODES = {100, 300, 301, 302, 335, 343, 344, 346, 350, 390}
LAYOUTS = {"quick": 2, "thorough": 3}
MUTANTS = {"quick": 700, "thorough": 12000}

# ---------------------------------------------------------------------------------------------
# token classes -> tokens (PenneAst records, rendered by harness/src/grammar/render.rs)
# ---------------------------------------------------------------------------------------------
P = lambda s: {"k": "p", "s": s}
KW = lambda s: {"k": "kw", "s": s}
SPELL = {
    "cmp": [P("=="), P("!="), P("<"), P(">"), P("<="), P(">=")],
    "add": [P("+")],
    "mul": [P("*"), P("/"), P("%")],
    "sh": [P("<<"), P(">>")],
    "word": [KW("word64"), KW("word8"), KW("word16"), KW("word32"), KW("word128")],
    "return": [KW("return")],
    "id": [{"k": "id", "s": "x"}, {"k": "id", "s": "main"}, {"k": "id", "s": "foo_1"}, {"k": "id", "s": "S"}],
    "bi": [{"k": "bi", "s": "print"}, {"k": "bi", "s": "abort"}],
    "ty": [{"k": "ty", "s": t} for t in ("i32", "u8", "bool", "usize", "char8", "i128")],
    "void": [{"k": "ty", "s": "void"}],
    "dec": [{"k": "int", "v": "17", "suffix": ""}, {"k": "int", "v": "0", "suffix": ""}, {"k": "int", "v": "3", "suffix": ""}],
    "int": [{"k": "int", "v": "31", "suffix": "", "h": {"base": 16, "digits": [1, 15]}}, {"k": "int", "v": "42", "suffix": "u8"},
            {"k": "int", "v": "5", "suffix": "", "h": {"base": 2, "digits": [1, 0, 1]}}, {"k": "int", "v": "7", "suffix": "usize"}],
    "lit": [{"k": "bool", "v": True}, {"k": "char", "v": 97}, {"k": "bool", "v": False}],
    "str": [{"k": "str", "bytes": [115]}, {"k": "str", "bytes": [97, 46, 112, 110]}],
}
KEYWORDS = {"fn", "var", "const", "if", "goto", "loop", "else", "cast", "as", "import", "pub", "extern", "struct"}
# what the real lexer calls the tokens (harness: Debug name) -> class; must agree with Trace_Syntax.tla ClassOfKind
KIND_CLASS = {
    "ParenLeft": "(", "ParenRight": ")", "BraceLeft": "{", "BraceRight": "}", "BracketLeft": "[", "BracketRight": "]",
    "AngleLeft": "cmp", "AngleRight": "cmp", "Pipe": "|", "Ampersand": "&", "Caret": "^", "Exclamation": "!", "Placeholder": "_",
    "Plus": "add", "Minus": "-", "Times": "mul", "Divide": "mul", "Modulo": "mul", "Colon": ":", "Semicolon": ";", "Dot": ".",
    "Comma": ",", "Assignment": "=", "Equals": "cmp", "DoesNotEqual": "cmp", "IsGE": "cmp", "IsLE": "cmp", "ShiftLeft": "sh",
    "ShiftRight": "sh", "Arrow": "->", "PipeForType": "|:", "Dots": "..", "Fn": "fn", "Var": "var", "Const": "const", "If": "if",
    "Goto": "goto", "Loop": "loop", "Else": "else", "Cast": "cast", "As": "as", "Import": "import", "Pub": "pub", "Extern": "extern",
    "Struct": "struct", "Word8": "word", "Word16": "word", "Word32": "word", "Word64": "word", "Word128": "word",
    "Identifier": "id", "IdReturn": "return", "Builtin": "bi", "NakedDecimal": "dec", "BitInteger": "int", "SuffixedInteger": "int",
    "CharLiteral": "lit", "Bool": "lit", "StringLiteral": "str", "Type": "ty", "TypeVoid": "void", "Error": "err",
}


def token_of(cls, salt):
    if cls in SPELL:
        alts = SPELL[cls]
        return alts[salt % len(alts)]
    if cls in KEYWORDS:
        return KW(cls)
    return P(cls)


def text_of(tok):
    k = tok["k"]
    if k in ("kw", "p", "id", "ty"):
        return tok["s"]
    if k == "bi":
        return tok["s"] + "!"
    if k == "bool":
        return "true" if tok["v"] else "false"
    if k == "char":
        return "'%s'" % chr(tok["v"])
    if k == "str":
        return '"%s"' % bytes(tok["bytes"]).decode("latin-1")
    if k == "int":
        h = tok.get("h")
        if h:
            return {16: "0x", 2: "0b", 10: ""}[h["base"]] + "".join("%x" % d for d in h["digits"]) + (tok.get("suffix") or "")
        v = tok["v"]
        if isinstance(v, list):
            v = sum(int(b) << (8 * i) for i, b in enumerate(v))
        return str(v) + (tok.get("suffix") or "")
    return "?"


# ---------------------------------------------------------------------------------------------
# TLC (streaming: the thorough tier emits about a million cases)
# ---------------------------------------------------------------------------------------------
def run_tlc(module, cfg, tag, workers=4, timeout=900, heap="4g", coverage=False):
    os.makedirs(common.WORK, exist_ok=True)
    out_path = os.path.join(common.WORK, "syntax-%s.out" % tag)
    metadir = os.path.join(common.WORK, "md-syntax-%s" % tag)
    subprocess.run(["rm", "-rf", metadir])
    cmd = ["timeout", str(timeout), "java", "-Xss1g", "-Xmx" + heap, "-XX:+UseParallelGC", "-cp", JAVA_CP, "tlc2.TLC",
           "-workers", str(workers), "-metadir", metadir, "-cleanup", "-noGenerateSpecTE"]
    if coverage:
        cmd += ["-coverage", "1"]
    cmd += ["-config", os.path.join(common.SPEC, cfg), os.path.join(common.SPEC, module + ".tla")]
    t0 = time.time()
    with open(out_path, "w") as out:
        p = subprocess.run(cmd, stdout=out, stderr=subprocess.STDOUT, cwd=common.SPEC)
    subprocess.run(["rm", "-rf", metadir])
    res = {"output": out_path, "wall": round(time.time() - t0, 1), "ok": False, "violated": None, "states": 0, "transitions": 0,
           "coverage": {}}
    rx = re.compile(r"^<P_(\w+) line \d+, col \d+ to line \d+, col \d+ of module PenneGrammar>: (\d+):(\d+)")
    tail = []
    with open(out_path, errors="replace") as f:
        for line in f:
            if line.startswith('<<"'):
                continue
            if line.startswith("<P_"):
                m = rx.match(line)
                if m:
                    res["coverage"][m.group(1)] = max(res["coverage"].get(m.group(1), 0), int(m.group(3)))
                continue
            m = re.match(r"^(\d+) states generated, (\d+) distinct states found", line)
            if m:
                res["transitions"], res["states"] = int(m.group(1)), int(m.group(2))
            m = re.match(r"^Error: Invariant (\S+) is violated", line)
            if m:
                res["violated"] = m.group(1)
            if "Model checking completed. No error has been found." in line:
                res["ok"] = True
            if not line.startswith(("  ", "|", "<")):
                tail.append(line.rstrip("\n"))
                if len(tail) > 50:
                    tail.pop(0)
    res["tail"] = "\n".join(tail)
    if p.returncode == 124:
        raise common.ToolError("TLC timed out after %ss on %s/%s" % (timeout, module, cfg))
    if not res["ok"] and res["violated"] is None:
        log(res["tail"])
        raise common.ToolError("TLC failed on %s/%s (exit %s), see %s" % (module, cfg, p.returncode, out_path))
    return res


def iter_prints(path, tag="CASE"):
    head = '<<"%s"' % tag
    with open(path, errors="replace") as f:
        for line in f:
            if line.startswith(head):
                d = common._decode_print(line.rstrip("\n"))
                if not d or not isinstance(d[1], (dict, list)):
                    raise common.ToolError("unreadable %s line in %s" % (tag, path))
                yield d[1]


# ---------------------------------------------------------------------------------------------
# findings: aggregated by (kind, key); a key names a shape, not an input
# ---------------------------------------------------------------------------------------------
class Findings:
    def __init__(self):
        self.by_key = {}
        self.notes = collections.Counter()
        self.note_examples = {}

    def add(self, kind, key, example):
        e = self.by_key.setdefault((kind, key), {"count": 0, "examples": []})
        e["count"] += 1
        if len(e["examples"]) < 3:
            e["examples"].append(example)

    def note(self, key, example=None):
        self.notes[key] += 1
        if example is not None and key not in self.note_examples:
            self.note_examples[key] = example

    def report(self, rep, seed):
        for (kind, key), e in sorted(self.by_key.items()):
            new = rep.violation(kind, key, {"kind": kind, "key": key, "inputs_affected_this_run": e["count"], "seed": seed,
                                            "examples": e["examples"], "how": "bin/check %s --replay <this file>" % rep.prop})
            if not new:
                k = rep.match_known(kind, key)
                if k is not None:
                    rep.known_hits[k["id"]].extend([key] * (e["count"] - 1))


def shape(toks_text, hi, radius=2):
    """the offending token and its neighbours (spellings of a class are representative, so this names a shape)"""
    n = len(toks_text)
    lo = max(0, hi - 1 - radius)
    part = toks_text[lo:min(n, hi + radius)]
    out = []
    for i, t in enumerate(part, start=lo + 1):
        out.append("[%s]" % t if i == hi else t)
    if hi == n + 1:
        out.append("[EOF]")
    return " ".join(out)


def first_syntax(diags):
    ds = [d for d in diags if d[0] in SYNTAX_CODES]
    return min(ds, key=lambda d: (d[1], d[2])) if ds else None


def judge(fam, case_key, classes, texts, verdict, obs, fnd, stats, strict_after, example):
    """Python only compares: verdict = what TLC decided (v, lo, hi, u), obs = what the real front ends did."""
    v = verdict["v"]
    stats["evaluations"] += 1
    stats[fam + ":" + v] += 1
    if "crash" in obs:
        fnd.add("syntax-crash", "%s | %s" % (obs["crash"], " ".join(texts)[:200]), example("the process died"))
        return
    n = len(classes)
    real = [KIND_CLASS.get(k, "?") for k in obs["k"]]
    if real != classes:
        raise common.ToolError("%s %s: the real token stream %s is not the intended one %s" % (fam, case_key, real, classes))
    ap = obs.get("ap")
    af = obs["af"]
    d = obs["d"]
    if obs.get("app"):
        fnd.add("syntax-alpha-panic", "parse | " + obs["app"][:160], example("the first-generation parser panicked"))
        return
    alpha_accepts = not ap and not obs.get("apx")
    if af.get("p"):
        stats["alpha_later_stage_panics"] += 1
        fnd.note("first generation panics after the parse stage (left to C02): %s" % str(af["p"])[:120], example(""))
    if d["o"] == "panic":
        fnd.add("syntax-delta-panic", str(d.get("p"))[:160], example("the second-generation front end panicked"))
    if v == "valid":
        if not alpha_accepts:
            code = (ap or [[obs.get("apx")]])[0][0]
            fnd.add("syntax-alpha-rejects-valid", "E%s %s" % (code, shape(texts, (ap or [[0, 1]])[0][1])),
                    example("R: valid; the first-generation parser reports a syntax error"))
        elif d["o"] == "rej":
            fnd.add("syntax-delta-rejects-valid", "E%s %s" % (d["d"][0][0] if d["d"] else "?", shape(texts, d["d"][0][1] if d["d"] else 1)),
                    example("R: valid; the second-generation parser rejects"))
        elif d["o"] == "ok":
            if obs.get("teq") is False:
                fnd.add("syntax-trees-differ", common_diff(obs.get("ta"), obs.get("td")), example("R: valid; both accept but build different trees"))
            else:
                stats["valid_both_accept_same_tree"] += 1
        return
    if v == "unc":
        if alpha_accepts != (d["o"] == "ok"):
            fnd.note("unconstrained sequence: first generation %s, second generation %s" % ("accepts" if alpha_accepts else "rejects", d["o"]))
        return
    # ---- invalid ----------------------------------------------------------------------------------------
    lo, hi = verdict["lo"], verdict["hi"]
    key_shape = "expected %s at %s" % (verdict["exp"], shape(texts, hi))
    if alpha_accepts:
        if af["ok"]:
            fnd.add("syntax-alpha-accepts-invalid", key_shape, example("R: invalid; the first generation compiles it"))
        else:
            fnd.add("syntax-alpha-no-syntax-error", key_shape, example("R: invalid; the first-generation parser stores no error (the failure comes from a later stage)"))
    else:
        if not af["ok"] and not af["d"] and not af.get("p"):
            fnd.add("syntax-alpha-silent", key_shape, example("R: invalid; the compilation fails with an empty list of diagnostics"))
        f = first_syntax(ap)
        if f is None:
            fnd.add("syntax-alpha-no-syntax-error", key_shape, example("R: invalid; no diagnostic of the syntax family"))
        elif f[2] < lo:
            fnd.add("syntax-alpha-location", "E%d ends %d token(s) before the window | %s" % (f[0], lo - f[2], key_shape),
                    example("R: invalid at token %d, window %d..%d; the first syntax diagnostic covers tokens %d..%d" % (hi, lo, hi, f[1], f[2])))
        elif f[1] > hi:
            if strict_after and not verdict.get("soft"):
                fnd.add("syntax-alpha-location", "E%d starts %d token(s) after the window | %s" % (f[0], f[1] - hi, key_shape),
                        example("R: invalid at token %d, window %d..%d; the first syntax diagnostic covers tokens %d..%d" % (hi, lo, hi, f[1], f[2])))
            else:
                stats["alpha_later_fault_reported"] += 1
        else:
            stats["alpha_in_window"] += 1
    # second generation: no property demands rejection or a location -> notes
    if d["o"] == "ok":
        stats["delta_accepts_invalid"] += 1
        fnd.note("second generation accepts an invalid sequence: expected %s, got %s" % (verdict["exp"], classes[hi - 1] if hi <= n else "EOF"),
                 {"source_tokens": " ".join(texts), "window": [lo, hi]})
    elif d["o"] == "rej":
        f = min(d["d"], key=lambda x: (x[1], x[2])) if d["d"] else None
        if f is not None and f[2] >= lo and f[1] <= hi:
            stats["delta_in_window"] += 1
        elif f is not None and (f[2] < lo or (strict_after and not verdict.get("soft"))):
            fnd.note("second generation reports E%d %s the window: expected %s, got %s" %
                     (f[0], "before" if f[2] < lo else "after", verdict["exp"], classes[hi - 1] if hi <= n else "EOF"),
                     {"source_tokens": " ".join(texts), "window": [lo, hi], "diagnostic_tokens": f[1:]})


def common_diff(a, b):
    from . import grammar_common as gc
    try:
        return gc.diff_signature(a, b) or "?"
    except Exception:           # pragma: no cover
        return "?"


def read_obs(path):
    with open(path) as f:
        for line in f:
            if line.strip():
                yield json.loads(line)


def expand_layouts(o):
    first = o["o"][0]
    return [first if x == "=" else x for x in o["o"]]


# ---------------------------------------------------------------------------------------------
# (1) all class sequences in contexts
# ---------------------------------------------------------------------------------------------
def part_sequences(rep, tier, seed, fnd, stats):
    k = LAYOUTS[tier]
    r = run_tlc("MC_SyntaxSeq", "MC_SyntaxSeq_%s.cfg" % tier, "seq-%s" % tier, timeout={"quick": 300, "thorough": 1200}[tier])
    if not r["ok"]:
        raise common.ToolError("MC_SyntaxSeq: invariant %s violated (the specification is inconsistent)" % r["violated"])
    ctxs = None
    for c in iter_prints(r["output"], "CTX"):
        ctxs = {x["name"]: x for x in c}
    if not ctxs:
        raise common.ToolError("MC_SyntaxSeq printed no contexts")
    cases_path = os.path.join(common.WORK, "syntax-seq-cases.ndjson")
    verdicts = []
    with open(cases_path, "w") as out:
        for i, c in enumerate(iter_prints(r["output"])):
            ctx = ctxs[c["c"]]
            classes = list(ctx["pre"]) + list(c["s"]) + list(ctx["suf"])
            toks = [token_of(cl, seed + i + 7 * j) for j, cl in enumerate(classes)]
            out.write(json.dumps({"id": i, "toks": toks}, separators=(",", ":")) + "\n")
            verdicts.append((c["c"], len(c["s"]), c["v"], c["lo"], c["hi"], c["u"], c["exp"], c["soft"], classes))
    total = len(verdicts)
    os.remove(r["output"])
    obs_path = os.path.join(common.WORK, "syntax-seq-obs.ndjson")
    common.pvh(["replay", cases_path, obs_path, k, seed], exe_name=EXE, env=PVH_ENV)
    n = 0
    samples = []
    with open(cases_path) as cf:
        for case_line, o in zip(cf, read_obs(obs_path)):
            ctx, slen, v, lo, hi, u, exp, soft, classes = verdicts[n]
            n += 1
            if "toolerror" in o:
                raise common.ToolError("renderer: %s" % o["toolerror"])
            case = json.loads(case_line)
            texts = [text_of(t) for t in case["toks"]]
            np_ = len(ctxs[ctx]["pre"])
            # nothing at all follows the offending token (otherwise a later fault may legitimately be the one reported)
            strict_after = hi >= len(classes)
            verdict = {"v": v, "lo": lo, "hi": hi, "u": u, "exp": exp, "soft": soft}
            layouts = [{"crash": o["crash"]}] if "crash" in o else expand_layouts(o)
            for j, ob in enumerate(layouts):
                ex = lambda msg, j=j, ob=ob: {"family": "sequences", "context": ctx, "case": case, "layout": j, "source_tokens": " ".join(texts),
                                              "verdict": verdict, "observation": {kk: vv for kk, vv in ob.items() if kk != "k"}, "message": msg}
                judge("seq", n, classes, texts, verdict, ob, fnd, stats, strict_after, ex)
            if len(samples) < 3 and v != "invalid" and slen == 3:
                samples.append({"context": ctx, "source_tokens": " ".join(texts), "verdict": v})
    if n != total:
        raise common.ToolError("replay returned %d observations for %d cases" % (n, total))
    log("[syntax] sequences: %d cases x %d layouts (TLC %d states, %.1fs)" % (total, k, r["states"], r["wall"]))
    return {"states": r["states"], "transitions": r["transitions"], "cases": total, "layouts": k, "samples": samples}


# ---------------------------------------------------------------------------------------------
# (2) single-token faults of the modules PenneGrammar derives
# ---------------------------------------------------------------------------------------------
def apply_fault(toks, ks, fl, salt):
    i = fl["i"] - 1
    if fl["f"] == "del":
        return toks[:i] + toks[i + 1:], ks[:i] + ks[i + 1:]
    if fl["f"] == "dup":
        return toks[:i + 1] + [toks[i]] + toks[i + 1:], ks[:i + 1] + [ks[i]] + ks[i + 1:]
    return toks[:i] + [token_of(fl["k"], salt)] + toks[i + 1:], ks[:i] + [fl["k"]] + ks[i + 1:]


def part_faults(rep, tier, seed, fnd, stats):
    import concurrent.futures
    from . import syntax_cfgs
    k = {"quick": 1, "thorough": 2}[tier]
    foci = list(syntax_cfgs.FOCI)
    timeout = {"quick": 300, "thorough": 1500}[tier]
    with concurrent.futures.ThreadPoolExecutor(max_workers=4) as ex:
        results = dict(zip(foci, ex.map(lambda f: run_tlc("MC_SyntaxGrammar", "MC_SyntaxGrammar_%s_%s.cfg" % (f, tier),
                                                          "gr-%s-%s" % (f, tier), workers=2, timeout=timeout, heap="3g", coverage=True), foci)))
    states = transitions = modules = faults = 0
    coverage = collections.Counter()
    per_focus = {}
    samples = []
    for focus in foci:
        r = results[focus]
        if not r["ok"]:
            log(r["tail"][-1500:])
            raise common.ToolError("MC_SyntaxGrammar focus %s: invariant %s violated -- a module PenneGrammar derives is not accepted "
                                   "by the recogniser (or a token has no class): the specification is inconsistent" % (focus, r["violated"]))
        states += r["states"]
        transitions += r["transitions"]
        for prod, cnt in r["coverage"].items():
            coverage[prod] += cnt
        cases_path = os.path.join(common.WORK, "syntax-gr-cases.ndjson")
        meta = []
        nmod = 0
        with open(cases_path, "w") as out:
            for c in iter_prints(r["output"]):
                nmod += 1
                ks = list(c["ks"])
                for fl in sorted(c["faults"], key=lambda x: (x["i"], x["f"], x["k"])):
                    toks, classes = apply_fault(c["toks"], ks, fl, seed + len(meta))
                    out.write(json.dumps({"id": len(meta), "toks": toks}, separators=(",", ":")) + "\n")
                    meta.append((fl, classes))
        os.remove(r["output"])
        obs_path = os.path.join(common.WORK, "syntax-gr-obs.ndjson")
        common.pvh(["replay", cases_path, obs_path, k, seed], exe_name=EXE, env=PVH_ENV)
        n = 0
        with open(cases_path) as cf:
            for case_line, o in zip(cf, read_obs(obs_path)):
                fl, classes = meta[n]
                n += 1
                if "toolerror" in o:
                    raise common.ToolError("renderer: %s" % o["toolerror"])
                case = json.loads(case_line)
                texts = [text_of(t) for t in case["toks"]]
                verdict = {kk: fl[kk] for kk in ("v", "lo", "hi", "u", "exp", "soft")}
                layouts = [{"crash": o["crash"]}] if "crash" in o else expand_layouts(o)
                for j, ob in enumerate(layouts):
                    ex_ = lambda msg, j=j, ob=ob: {"family": "faults", "focus": focus, "fault": {"i": fl["i"], "f": fl["f"], "k": fl["k"]}, "case": case,
                                                   "layout": j, "source_tokens": " ".join(texts), "verdict": verdict,
                                                   "observation": {kk: vv for kk, vv in ob.items() if kk != "k"}, "message": msg}
                    judge("fault", n, classes, texts, verdict, ob, fnd, stats, True, ex_)
                if len(samples) < 3 and fl["v"] == "unc":
                    samples.append({"focus": focus, "fault": fl["f"], "source_tokens": " ".join(texts), "verdict": "unc"})
        if n != len(meta):
            raise common.ToolError("replay returned %d observations for %d cases" % (n, len(meta)))
        per_focus[focus] = {"modules": nmod, "faults": len(meta), "states": r["states"], "tlc_wall": r["wall"]}
        modules += nmod
        faults += len(meta)
    missing = [p for p in grammar_cfgs.ALL if coverage.get(p, 0) == 0]
    if missing:
        raise common.ToolError("vacuity: productions of PenneGrammar never applied in the fault family: %s" % missing)
    log("[syntax] faults: %d derived modules all accepted by the recogniser (invariant Accepted), %d single-token faults x %d layouts" % (modules, faults, k))
    return {"states": states, "transitions": transitions, "modules": modules, "cases": faults, "layouts": k, "per_focus": per_focus,
            "production_coverage": dict(coverage), "samples": samples}


# ---------------------------------------------------------------------------------------------
def run_part(rep, tier, seed, selftest, parts=None):
    """parts: subset of {"seq", "faults", "corpus"} (default: all)."""
    common.build_harness(EXE)
    os.makedirs(common.WORK, exist_ok=True)
    parts = set(parts or ("seq", "faults", "corpus"))
    fnd = Findings()
    stats = collections.Counter()
    cov = {}
    if "seq" in parts:
        cov["sequences"] = part_sequences(rep, tier, seed, fnd, stats)
    if "faults" in parts:
        cov["faults"] = part_faults(rep, tier, seed, fnd, stats)
    fnd.report(rep, seed)
    for key, cnt in fnd.notes.most_common():
        rep.note_drift("syntax: %s (%d)" % (key, cnt))
    cov["stats"] = dict(stats)
    cov["notes"] = dict(fnd.notes)
    return cov

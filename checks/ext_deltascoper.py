"""EXTENSION, no listed property (DESIGN.md 12.5): the symbol table of the second generation (src/delta/scoper/top_level.rs)
against spec/DeltaScoper.tla.  TLC (1) compares the model of the code with the laws of a symbol table (Agree: expected to be
REFUTED, that is the finding) and (2) emits every call sequence up to the bound with the result each call must have; the
real object is driven through every sequence (pvh_delta scoper) and compared call by call.  Ids are compared relationally:
`ok` of a declaration = an id no earlier call returned, `ok` of a use = the id call number k returned.

    python3 -m checks.ext_deltascoper        (from /verif; prints EXT-FINDING lines, writes work/ext-deltascoper.json, exit 0)
"""
import collections
import json
import os
import sys

from . import common
from .common import log


def classify(calls, results):
    """first discrepancy of one sequence -> (signature, detail) or None"""
    returned = []
    for i, c in enumerate(calls):
        if i >= len(results):
            return None                      # the sequence ended with a panic that was already reported
        r, e = results[i], c["expect"]
        what = "%s %s" % (c["op"], c["s"]) if c["op"] != "member" else "member"
        if r["t"] == "panic":
            return ("L1 panic in `%s` where the law says %s" % (what, e["t"]), r.get("msg", ""))
        if e["t"] == "ok" and c["op"] == "use":
            if r["t"] != "ok":
                return ("L3 `%s` of a declared name answers %s" % (what, r["t"]), "")
            if r["id"] != returned[e["id"] - 1]:
                return ("L3 `%s` resolves to another id than the declaration returned" % what,
                        "declaration (call %d) returned %s, use returned %s" % (e["id"], returned[e["id"] - 1], r["id"]))
        elif e["t"] == "ok":
            if r["t"] != "ok":
                return ("L2 `%s` of a new name answers %s" % (what, r["t"]), "")
            if r["id"] in [x for x in returned if x is not None]:
                return ("L5 `%s` returns an id that an earlier call returned" % what, "id %s" % r["id"])
        elif e["t"] == "dup":
            if r["t"] != "dup":
                return ("L2/L4 `%s` of a name that is already declared answers %s" % (what, r["t"]), "")
            if r["previous"] != e["previous"]:
                return ("L2/L4 `%s`: DuplicateDeclaration names another previous declaration" % what,
                        "previous = call %s, the law says call %s" % (r["previous"], e["previous"]))
        elif r["t"] != e["t"]:
            return ("L3 `%s` of an undeclared name answers %s, the law says %s" % (what, r["t"], e["t"]), "")
        returned.append(r["id"] if (r["t"] == "ok" and c["op"] != "use") else None)
    return None


def main():
    common.build_harness("pvh_delta")
    r = common.tlc("MC_DeltaScoper", "MC_DeltaScoper_agree.cfg", workers=4, timeout=600, tag="ext-deltascoper-agree", keep_output=False)
    design = r.violated
    log("[tlc] DeltaScoper Agree (model of the code against the laws): %s" %
        ("REFUTED at design level (%s)" % design if design else "holds"))
    r = common.tlc("MC_DeltaScoper", "MC_DeltaScoper.cfg", workers=8, timeout=900, tag="ext-deltascoper", keep_output=False)
    if not r.ok or not r.cases:
        raise common.ToolError("MC_DeltaScoper: %s" % (r.violated or "no cases"))
    log("[tlc] MC_DeltaScoper: %d states, %d call sequences" % (r.distinct, len(r.cases)))
    cases = os.path.join(common.WORK, "ext-deltascoper-cases.ndjson")
    out = os.path.join(common.WORK, "ext-deltascoper-out.ndjson")
    common.write_ndjson(cases, [{"calls": c["calls"]} for c in r.cases])
    common.pvh(["scoper", cases, out], exe_name="pvh_delta", timeout=900)
    sigs = collections.Counter()
    example = {}
    model_off = 0
    with open(out) as f:
        for c, line in zip(r.cases, f):
            res = json.loads(line)["results"]
            d = classify(c["calls"], res)
            # the model of the code predicts the KIND of every answer
            for k, x in enumerate(res):
                if x["t"] != c["calls"][k]["model"]:
                    model_off += 1
                    break
            if d:
                sigs[d[0]] += 1
                example.setdefault(d[0], {"calls": ["%s %s %s" % (x["op"], x["s"], x["n"]) for x in c["calls"]], "detail": d[1]})
    for s, n in sigs.most_common():
        print("EXT-FINDING: DeltaScoper %s (%d of %d sequences; e.g. %s %s)" % (s, n, len(r.cases), example[s]["calls"], example[s]["detail"]))
    log("[replay] %d sequences on the real TopLevelScoper: %d obey the laws, %d do not; the model of the code mispredicts %d" %
        (len(r.cases), len(r.cases) - sum(sigs.values()), sum(sigs.values()), model_off))
    json.dump({"sequences": len(r.cases), "states": r.distinct, "design_level": design, "signatures": dict(sigs), "examples": example,
               "model_mispredictions": model_off}, open(os.path.join(common.WORK, "ext-deltascoper.json"), "w"), indent=1)
    os.remove(cases)
    os.remove(out)
    return 0


if __name__ == "__main__":
    sys.exit(main())

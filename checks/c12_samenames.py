"""C12, family `same names` (spec/SameNames.tla): modules of one compilation that declare PRIVATE items of the same name with
different contents; every module reads its own.  TLC enumerates the cells and computes the exit status; the programs are
compiled as `penne <files in the order of the cell>` does and executed."""
import json
import os

from . import common
from .common import log


def module_text(m, cell, nmods):
    kind, use, v = cell["kind"], cell["use"], cell["vals"][m]
    name = "main.pn" if m == 0 else "lib%d.pn" % m
    out = []
    if m == 0 and cell["link"] == "imports":
        out += ['import "lib%d.pn";' % i for i in range(1, nmods)]
    if kind == "int":
        out.append("const ITEM: i32 = %d;" % v)
        read = "\treturn: ITEM"
    elif kind == "array":
        out.append("const ITEM: [3]i32 = [%d, %d, %d];" % (v + 10, v, v + 20))
        if use == "index":
            read = "\treturn: ITEM[1]"
        elif use == "rtindex":
            read = "\tvar i: usize = 1;\n\treturn: ITEM[i]"
        else:
            out.append("fn pick(xs: []i32) -> i32\n{\n\treturn: xs[1]\n}")
            read = "\treturn: pick(ITEM)"
    elif kind == "array2":
        out.append("const ITEM: [2][2]i32 = [[%d, %d], [%d, %d]];" % (v + 10, v + 11, v, v + 12))
        read = "\treturn: ITEM[1][0]" if use == "index" else "\tvar i: usize = 1;\n\treturn: ITEM[i][0]"
    elif kind in ("struct", "word"):
        # (the TYPES have names of their own: same-named private structures are another, known, matter)
        ty = ("Rec%d" if kind == "struct" else "Wd%d") % m
        out.append("%s %s\n{\n\ta: i32,\n\tb: i32,\n}" % ("struct" if kind == "struct" else "word64", ty))
        out.append("const ITEM: %s = %s { a: %d, b: %d };" % (ty, ty, v + 10, v))
        read = "\treturn: ITEM.b" if use == "member" else "\tvar r: %s = ITEM;\n\treturn: r.b" % ty
    else:
        out.append("fn item() -> i32\n{\n\treturn: %d\n}" % v)
        read = "\treturn: item()"
    out.append("%sfn get%d() -> i32\n{\n%s\n}" % ("" if m == 0 else "pub ", m, read))
    if m == 0:
        terms = ["get0()"]
        if cell["link"] == "imports":
            terms += ["%d * get%d()" % (7 ** i, i) for i in range(1, nmods)]
        out.append("fn main() -> i32\n{\n\treturn: %s\n}" % " + ".join(terms))
    return name, "\n".join(out) + "\n"


def render(cell):
    nmods = cell["libs"] + 1
    return [list(module_text(m, cell, nmods)) for m in cell["order"]]


def key_of(cell):
    return "same-names %s/%s libs=%d %s order=%s" % (cell["kind"], cell["use"], cell["libs"], cell["link"], "".join(str(x) for x in cell["order"]))


def run_part(rep, tier, selftest):
    r = common.tlc("SameNames", "SameNames_%s.cfg" % tier, workers=4, timeout=600, tag="c12-samenames-%d" % os.getpid(), keep_output=False)
    if not r.ok or not r.cases:
        raise common.ToolError("SameNames: %s" % (r.violated or "no cases"))
    cells = sorted(r.cases, key=lambda c: json.dumps(c, sort_keys=True))
    inp = os.path.join(common.WORK, "c12-samenames-%d.ndjson" % os.getpid())
    out = os.path.join(common.WORK, "c12-samenames-%d-out.ndjson" % os.getpid())
    common.write_ndjson(inp, [{"files": render(c)} for c in cells])
    common.build_harness("pvh_machine")
    common.pvh(["run-files", inp, out], exe_name="pvh_machine", timeout=1800)
    results = [json.loads(l) for l in open(out)]
    os.remove(inp)
    os.remove(out)
    bad = 0
    noticed = False
    for c, o in zip(cells, results):
        if o.get("toolerror"):
            raise common.ToolError("same-names: %s" % o["toolerror"])
        if selftest and not noticed and o.get("exit") == c["exit"]:
            # a corrupted expectation must be noticed by the very comparison used below
            noticed = o.get("exit") != c["exit"] + 1
        if o.get("exit") != c["exit"]:
            bad += 1
            got = ("exit %s" % o["exit"]) if "exit" in o else json.dumps({k: o[k] for k in o if k not in ("i", "ir")})[:300]
            rep.violation("same-names", key_of(c), {"part": "same-names", "cell": c, "files": render(c), "observed": o,
                                                    "message": "every module reads its OWN private item: the program must return %d, observed %s" % (c["exit"], got)})
    if selftest and not noticed:
        raise common.ToolError("same-names self-test: no cell had the expected exit status to corrupt")
    log("[same-names] %d cells of SameNames.tla (private items of the same name in 2-3 modules, every file order) compiled and run: %d violations%s" %
        (len(cells), bad, "; self-test: a corrupted expectation is noticed" if selftest else ""))
    return {"cells": len(cells), "states": r.distinct, "generated": r.generated, "violations": bad,
            "kinds": sorted(set("%s/%s" % (c["kind"], c["use"]) for c in cells))}


def replay(detail):
    print(json.dumps(detail["cell"]))
    for name, src in detail["files"]:
        print("---- %s\n%s" % (name, src))
    print("rule: exit status %d; observed: %s" % (detail["cell"]["exit"], json.dumps({k: v for k, v in detail["observed"].items() if k != "ir"})))
    return 0

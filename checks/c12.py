"""C12 -- imports expose exactly the public interface and modules compose (spec/Modules.tla).

  1. TLC: every program of <= 3 modules x <= 2 declarations x pub/private x import relation (self- and mutual
     imports, hence every file order) x every splice order: the visible sets are the rule's (confluence as
     sets).  Confluence of the declaration SEQUENCES is checked by a separate configuration that is expected
     to fail (hash-order dependent IR text: C13) and only noted.
  2. spec -> impl: every input through expander::expand + scoper with one probe per (module, declared
     name): visible names, flags of imported items, E401/E402/E405 for everything that must not be visible.
  3. impl -> spec: random larger module sets (sub-directory, relative imports, unresolved imports) with the
     splice hook events, validated by TLC (Trace_Modules.tla) at rule level and strictly.
  4. generated programs partitioned into 2-4 files, compiled + linked + executed in every file order against
     the single file; a module alone / after an unrelated module through the same Compiler.  TLC evaluates
     the records (TSplit, THist).
"""
import json
import os
import random

from . import common
from . import modules_util as mu
from .common import log

# q41: four modules with one declaration each, at most one of them private, every import relation without self-imports
# (chains of three imports, diamonds, every file order), spliced in the order of the code
MC = {"quick": ["MC_Modules_q31.cfg", "MC_Modules_q22.cfg", "MC_Modules_q41.cfg"],
      "thorough": ["MC_Modules_t32.cfg", "MC_Modules_q31.cfg", "MC_Modules_q22.cfg", "MC_Modules_q41.cfg"]}
SEQ_GUARD = ("MC_Modules_seq.cfg", "SequencesConfluent")
RECORD = {"quick": {"mods": (1500, 6), "splits": (90, 120, 6)},
          "thorough": {"mods": (20000, 10), "splits": (1200, 1500, 12)}}

RULE = ("TLC enumerates every program of <= 3 modules with <= 1 declaration each, <= 2 modules with <= 2 (import lines at every "
        "position, also written twice) and 4 modules with one declaration each (thorough: <= 3 x <= 2); declarations are functions, "
        "function heads, constants, structures / words, every second one extern; x pub/private x every import relation incl. self- "
        "and mutual imports x every order in which the "
        "expander may splice the import pairs, and checks that each ends with exactly Visible(m) = Own(m) + public "
        "declarations of directly imported modules, imported items being non-public signatures. Every input is run through "
        "the real expander and scoper with a probe per (module, name): invisible names must be rejected with E401/E402/E405. "
        "Random larger sets (<= 5 modules, sub-directories, relative and unresolved imports) are validated by TLC from the "
        "recorded splice events; generated programs split into 2-4 files are executed in every file order against the single "
        "file, and modules are compiled alone and after an unrelated module. Non-trivial = inputs with at least one "
        "import pair between different modules / splits with >= 2 files.")
ASSUMPTIONS = [
    "names are unique in the whole program (clashes are C11's duplicates); one declaration or probe per source line",
    "TLC's evaluation of the rule R (Modules.tla) is the oracle; the algorithm model only yields MODEL-DRIFT notes",
    "the order of spliced declarations (hence the IR text) is NOT compared: it depends on HashSet iteration order (C13)",
    "a split is 'the corresponding pub/import declarations' when every name a file mentions is visible in it; both the "
    "minimal split and the one closed under the definitions of all imported public constants/structures are run",
    "histories compare verdict, diagnostics, lints and executed behaviour of module B; IR text equality is only noted",
]


def canon(case):
    key = "flags=%s imports=%s" % (
        "|".join("".join("P" if f else "p" for f in fl) if fl else "" for fl in case["flags"]),
        "|".join(",".join(str(j) for j in im) for im in case["imports"]))
    # where the import lines stand among the declarations (only named when it is not "first", so that the keys of
    # the sets with leading imports stay what they were)
    if any(case.get("ipos", [])):
        key += " ipos=%s" % "|".join(str(x) for x in case["ipos"])
    return key


UNDEF = {"fn": 401, "const": 402, "struct": 405}
LLVM_VERIFIER = ("Invalid InsertValueInst operands", "Broken module found", "Broken function found")


def compare(case, obs):
    if obs.get("panic"):
        return [("crash", "the compiler panicked: %s" % obs["panic"])]
    out = []
    kinds = {d["n"]: d["k"] for ds in case["decls"] for d in ds}
    for i, m in enumerate(obs["modules"]):
        seen = {d["n"]: d for d in case["seen"][i]}
        names = [d["n"] for d in m["decls"]]
        if sorted(names) != sorted(case["visible"][i]):
            out.append(("visible-set", "module %d holds %s after expansion, the rule says %s" %
                        (i + 1, sorted(names), sorted(case["visible"][i]))))
            continue
        for d in m["decls"]:
            want = seen[d["n"]]
            if (d["pub"], d["body"], d["k"], d.get("ext", False)) != (want["pub"], want["body"], want["k"], want.get("ext", False)):
                out.append(("imported-item-flags", "module %d sees %s as %s, the rule says %s" % (i + 1, d["n"], d, want)))
        for p in m["probes"]:
            visible = p["n"] in case["visible"][i]
            if visible and p["codes"]:
                out.append(("visible-name-rejected", "module %d: %s is visible but its use is rejected with %s" %
                            (i + 1, p["n"], p["codes"])))
            if not visible and UNDEF[kinds[p["n"]]] not in p["codes"]:
                out.append(("invisible-name-accepted", "module %d: %s must not be visible (private or imported by an "
                                                       "import) but its use gives %s, not E%d" %
                            (i + 1, p["n"], p["codes"], UNDEF[kinds[p["n"]]])))
        if m["other"]:
            out.append(("unexpected-diagnostic", "module %d: %s" % (i + 1, m["other"])))
    return out


def part_on(name):
    """C12_PARTS=replay,mods,splits restricts the check to some parts while developing (default: all)."""
    only = os.environ.get("C12_PARTS")
    return not only or name in only.split(",")


def run(rep, tier, seed, selftest):
    selftest = selftest or tier == "thorough"
    common.build_harness()
    os.makedirs(common.WORK, exist_ok=True)
    mc_cfgs = MC[tier] if part_on("replay") else ["MC_Modules_q22.cfg"]
    # ---- 1. model checking ---------------------------------------------------------------------
    res = mu.tlc_many("C12", "MC_Modules", mc_cfgs, workers=6 if tier == "quick" else 8,
                      timeout=900 if tier == "quick" else 3400, heap="8g", parallel=2 if tier == "quick" else 1)
    states = transitions = 0
    model_ok = True
    groups = {}
    for cfg in mc_cfgs:
        r = res[cfg]
        states += r.distinct
        transitions += r.generated
        if not r.ok:
            model_ok = False
            log("[tlc] counterexample tail:\n" + r.tail[-2500:])
        for c in r.cases:
            g = groups.setdefault(canon(c), {"case": c, "finals": set()})
            g["finals"].add(json.dumps(c["final"]))
    if not groups:
        raise common.ToolError("TLC emitted no module sets")
    seq_violated, rs = mu.expect_violation("C12", "MC_Modules", SEQ_GUARD[0], SEQ_GUARD[1], workers=4)
    log("[tlc] %s: confluence of the declaration SEQUENCES %s (expected to fail on the pinned tree: the order of spliced "
        "heads follows HashSet iteration order; belongs to C13 determinism, not reported here)" %
        (SEQ_GUARD[0], "is violated" if seq_violated else "HOLDS"))
    keys = sorted(groups)
    cases = [groups[k]["case"] for k in keys]
    # ---- 2. replay -----------------------------------------------------------------------------
    cases_path = os.path.join(common.WORK, "C12-cases.ndjson")
    obs_path = os.path.join(common.WORK, "C12-obs.ndjson")
    common.write_ndjson(cases_path, cases)
    mu.pvh(["replay-mods", cases_path, obs_path])
    observations = common.read_ndjson(obs_path)
    if len(observations) != len(cases):
        raise common.ToolError("replay returned %d observations for %d inputs" % (len(observations), len(cases)))
    agree = 0
    nontrivial = 0
    for k, case, obs in zip(keys, cases, observations):
        if any(j != i + 1 for i, im in enumerate(case["imports"]) for j in im):
            nontrivial += 1
        for problem, msg in compare(case, obs):
            rep.violation("modules/" + problem, k, {"part": "modules", "case": case, "observed": obs, "problem": problem,
                                                     "message": msg, "how": "bin/check C12 --replay <this file>"})
        if not obs.get("panic"):
            final = json.dumps([[d["n"] for d in m["decls"]] for m in obs["modules"]])
            if final in groups[k]["finals"]:
                agree += 1
            else:
                rep.note_drift("%s: declaration order after expansion %s is none of the %d orders the model allows" %
                               (k, final, len(groups[k]["finals"])))
    log("[replay] %d inputs (%d terminal states of the model) through the real expander + scoper, %d violations, "
        "declaration sequences allowed by the model %d/%d" %
        (len(cases), sum(len(g["finals"]) for g in groups.values()), len(rep.violations), agree, len(cases)))
    selftests = {}
    if selftest:
        i = next(i for i, c in enumerate(cases) if any(len(v) > len(d) for v, d in zip(c["visible"], c["decls"])))
        c = json.loads(json.dumps(cases[i]))
        m = next(m for m in range(len(c["visible"])) if len(c["visible"][m]) > len(c["decls"][m]))
        gone = next(n for n in c["visible"][m] if n not in [d["n"] for d in c["decls"][m]])
        c["visible"][m].remove(gone)
        selftests["visible_name_removed_detected"] = bool(compare(c, observations[i]))
        j = next(i for i, c in enumerate(cases) if any(len(v) < sum(len(d) for d in c["decls"]) for v in c["visible"]))
        c = json.loads(json.dumps(cases[j]))
        m = next(m for m in range(len(c["visible"])) if len(c["visible"][m]) < sum(len(d) for d in c["decls"]))
        extra = next(d["n"] for ds in c["decls"] for d in ds if d["n"] not in c["visible"][m])
        c["visible"][m].append(extra)
        selftests["invisible_name_added_detected"] = bool(compare(c, observations[j]))
    # ---- 3. trace validation of random module sets ---------------------------------------------
    count, chunks = RECORD[tier]["mods"] if part_on("mods") else (8, 1)
    prefix = os.path.join(common.WORK, "C12-mtrace")
    mu.pvh(["record-mods", count, seed, prefix, chunks])
    files = [f for f in ("%s.%d.ndjson" % (prefix, c) for c in range(chunks)) if os.path.exists(f)]
    for f in files:
        for line in open(f):
            if '"ev":"toolerror"' in line:
                raise common.ToolError("recorder: " + line[:400])

    def on_stuck(lines, unmatched):
        inp = json.loads(lines[0])
        key = "trace " + json.dumps(inp.get("mods"), separators=(",", ":"), sort_keys=True)
        rep.violation("modules-trace/stuck", key,
                      {"part": "modules-trace", "mods": inp.get("mods"), "unmatched_event": unmatched and json.loads(unmatched),
                       "recording": [json.loads(x) for x in lines],
                       "message": "the recorded behaviour of the real expander/scoper is not one the rule allows (a splice that is "
                                  "no import pair or has the wrong count, wrong visible set or flags, a probe accepted/rejected "
                                  "against visibility, or a crash)"})

    before = len(rep.violations)
    ok_runs, events, _ = mu.validate_traces("Trace_Modules", "Trace_Modules_rule.cfg", files, on_stuck)
    strict = common.tlc_traces("Trace_Modules", "Trace_Modules_strict.cfg", files, parallel=8)
    strict_ok = sum(1 for s in strict if s["accepted"])
    for s in strict:
        if not s["accepted"]:
            rep.note_drift("strict trace validation of module sets stops at line %d of %s" % (s["matched"] + 1, s["file"]))
    log("[trace] %d random module sets (%d events) validated against the rule: %d accepted, %d violations; strict "
        "(sequences of the logged splice order): %d/%d files" %
        (count, events, ok_runs, len(rep.violations) - before, strict_ok, len(files)))
    if selftest and files:
        selftests.update(trace_selftest(files[0]))
    # ---- 4. split programs in every file order; histories --------------------------------------
    nsplit, nhist, chunks = RECORD[tier]["splits"] if part_on("splits") else (3, 8, 1)
    prefix = os.path.join(common.WORK, "C12-strace")
    mu.pvh(["record-splits", nsplit, nhist, seed, prefix, chunks], timeout=3300)
    sfiles = [f for f in ("%s.%d.ndjson" % (prefix, c) for c in range(chunks)) if os.path.exists(f)]
    orders_run = 0
    split_records = 0
    ir_same = ir_total = 0
    for f in sfiles:
        for line in open(f):
            r = json.loads(line)
            if r["ev"] == "split":
                orders_run += len(r["runs"])
                split_records += 1 if len(r["runs"]) >= 2 else 0
            else:
                ir_total += 1
                ir_same += 1 if r.get("same_ir_text") else 0

    def on_stuck_split(lines, unmatched):
        r = json.loads(lines[0])
        what = {k: r.get(k) for k in ("alone", "after", "linked", "died")}
        for v in what.values():
            if isinstance(v, dict) and "out" in v:
                v["out"] = v["out"][:200]
        tag = ""
        if r["ev"] == "hist" and r.get("died") and r.get("shared_structs") and any(sig in r["died"] for sig in LLVM_VERIFIER):
            tag = "[same-named-structures] "          # the input class of a known finding: both modules declare a structure S<n>
        rep.violation("%s/%s" % (r["ev"], "crash" if r.get("died") else "differs"), "%sseed=%s prog=%s" % (tag, r.get("seed"), r.get("prog")),
                      {"part": r["ev"], "seed": r.get("seed"), "prog": r.get("prog"), "observed": what,
                       "message": "TLC (Trace_Modules.THist) rejects this record: module B does not give the same verdict, "
                                  "diagnostics, lints and behaviour alone, after an unrelated module, and linked with it",
                       "how": "bin/check C12 --replay <this file>"})

    before = len(rep.violations)
    ok_records, _, outputs = mu.validate_traces("Trace_Modules", "Trace_Modules_rule.cfg", sfiles, on_stuck_split,
                                                max_rounds=10)
    bad = [b for o in outputs for b in mu.printed(o, "BAD")]
    for b in bad:
        runs = [x for x in b["badruns"] if "ok" in x]
        for problem in b["problems"]:
            tag = None
            mine = [x for x in runs if (x["died"] != "") == (problem == "died") and (problem != "rejected" or not x["ok"])]
            if problem == "rejected" and "pub-definition-needs-invisible" in b["tags"] and not b["closed"] and \
                    all(any(d[0] in (401, 402, 405, 583) for d in x["diags"]) for x in mine):
                # (583: an array literal whose elements mention the invisible constant has no type any more)
                tag = "pub-definition-needs-invisible"
            if problem == "died" and "imported-nested-structure" in b["tags"] and \
                    all(any(sig in x["died"] for sig in LLVM_VERIFIER) for x in mine):
                tag = "imported-nested-structure"
            # private structures of one NAME in two files (extended splits): the same shared table of named LLVM types
            if problem == "died" and tag is None and "same-named-private-structures" in b["tags"] and \
                    all(any(sig in x["died"] for sig in LLVM_VERIFIER) for x in mine):
                tag = "same-named-private-structures"
            # ... or, in other file orders, a program that runs with the layout of the other file's structure
            if problem == "differs" and tag is None and "same-named-private-structures" in b["tags"]:
                tag = "same-named-private-structures"
            rep.violation("split/" + problem,
                          "%sseed=%s prog=%s closed=%s" % ("[%s] " % tag if tag else "", b["seed"], b["prog"], str(b["closed"]).lower()),
                          {"part": "split", "seed": b["seed"], "prog": b["prog"], "closed": b["closed"], "nmods": b["nmods"],
                           "problem": problem, "tags": b["tags"],
                           "runs": [dict(x, out=x.get("out", "")[:200]) for x in b["badruns"]],
                           "message": "TLC (Trace_Modules.TSplit): some file order of this split program does not behave like "
                                      "the single file (%s)" % problem,
                           "how": "bin/check C12 --replay <this file>"})
    ok_records -= len(bad)
    log("[trace] %d split programs x 2 partition modes (%d file orders compiled, linked and executed) and %d histories "
        "validated by TLC: %d records accepted, %d splits with a deviating order, %d violations; IR text of B identical "
        "in %d/%d histories" %
        (nsplit, orders_run, nhist, ok_records, len(bad), len(rep.violations) - before, ir_same, ir_total))
    if ir_same != ir_total:
        rep.note_drift("the IR text of a module differs after an unrelated module in %d/%d histories" % (ir_total - ir_same, ir_total))
    if selftest and sfiles:
        selftests.update(split_selftest(sfiles))
    if selftest:
        log("[selftest] %s" % json.dumps(selftests))
        for name, ok in selftests.items():
            if not ok:
                raise common.ToolError("self-test %s failed: the binding does not detect a corrupted input" % name)
    rnd = random.Random(seed)
    idx = sorted(rnd.sample(range(len(cases)), min(4, len(cases))))
    samples = [{"case": {k: cases[i][k] for k in ("flags", "imports", "visible")},
                "observed": [[d["n"] for d in m["decls"]] for m in observations[i]["modules"]]} for i in idx]
    if files:
        with open(files[0]) as f:
            samples.append({"trace_head": [json.loads(next(f)) for _ in range(2)]})
    # ---- private items of the SAME NAME in several modules, every file order, executed (spec/SameNames.tla)
    from . import c12_samenames
    sn = c12_samenames.run_part(rep, tier, selftest or tier == "thorough")
    from . import c12_importpaths
    ip = c12_importpaths.run_part(rep, tier, selftest or tier == "thorough")
    coverage = {
        "states": states + sn["states"] + ip["states"], "transitions": transitions + sn["generated"] + ip["generated"],
        "same_names": sn, "import_paths": ip,
        "traces_validated_against_impl": len(cases) + ok_runs + ok_records + sn["cells"],
        "samples": samples,
        "evaluations": len(cases) + count + orders_run + 3 * nhist,
        "distinct_nontrivial": nontrivial + split_records,
        "rule": RULE, "exhaustive": True,
        "model_invariants_hold": model_ok,
        "sequence_confluence_violated_as_expected": seq_violated,
        "cases_replayed": len(cases),
        "model_terminal_states": sum(len(g["finals"]) for g in groups.values()),
        "sequences_allowed_by_model": "%d/%d" % (agree, len(cases)),
        "random_module_sets_recorded": count, "random_module_sets_accepted_rule_level": ok_runs,
        "trace_events_matched": events, "strict_trace_files_accepted": "%d/%d" % (strict_ok, len(files)),
        "split_programs": nsplit, "file_orders_executed": orders_run, "histories": nhist,
        "split_and_history_records_accepted": ok_records,
        "tlc_config": MC[tier], "selftests": selftests,
    }
    return rep.finish("model_checking", coverage, ASSUMPTIONS)


def trace_selftest(path):
    """A dropped splice event and a probe verdict flipped must both stop the validation."""
    lines = open(path).read().splitlines()
    out = {}
    tests = []
    sidx = next((i for i, l in enumerate(lines) if '"ev":"splice"' in l), None)
    if sidx is not None:
        tests.append(("modules_dropped_splice_rejected", lines[:sidx] + lines[sidx + 1:]))
    for i, l in enumerate(lines):
        if '"ev":"final"' in l and '"codes":[40' in l:
            o = json.loads(l)
            done = False
            for m in o["modules"]:
                for p in m["probes"]:
                    if p["codes"] and not done:
                        p["codes"] = []
                        done = True
            tests.append(("modules_leaked_name_rejected", lines[:i] + [json.dumps(o, separators=(",", ":"))] + lines[i + 1:]))
            break
    files = []
    for name, ls in tests:
        p = os.path.join(common.WORK, "selftest-C12-%s.ndjson" % name)
        open(p, "w").write("\n".join(ls) + "\n")
        files.append((name, p))
    res = {r["file"]: r for r in common.tlc_traces("Trace_Modules", "Trace_Modules_rule.cfg", [p for _, p in files])}
    for name, p in files:
        out[name] = not res[p]["accepted"]
    return out


def split_selftest(sfiles):
    out = {}
    split = hist = None
    for f in sfiles:
        for line in open(f):
            r = json.loads(line)
            if r["ev"] == "split" and split is None and len(r["runs"]) >= 2 and not r.get("died"):
                split = r
            if r["ev"] == "hist" and hist is None and not r.get("died"):
                hist = r
    files = []
    if split:
        split["runs"][1]["out"] += "x"
        p = os.path.join(common.WORK, "selftest-C12-split.ndjson")
        open(p, "w").write(json.dumps(split, separators=(",", ":")) + "\n")
        files.append(("split_different_output_reported", p))
    if hist:
        hist["after"]["exit"] += 1
        p = os.path.join(common.WORK, "selftest-C12-hist.ndjson")
        open(p, "w").write(json.dumps(hist, separators=(",", ":")) + "\n")
        files.append(("history_different_exit_rejected", p))
    res = {r["file"]: r for r in common.tlc_traces("Trace_Modules", "Trace_Modules_rule.cfg", [p for _, p in files])}
    for name, p in files:
        if "reported" in name:
            out[name] = any("differs" in b["problems"] for b in mu.printed(res[p]["output"], "BAD"))
        else:
            out[name] = not res[p]["accepted"]
    return out


def replay(path):
    d = json.load(open(path))
    detail = d.get("detail", {})
    print("kind:", d.get("kind"), " key:", d.get("key"))
    part = detail.get("part", "")
    if part == "import-paths":
        from . import c12_importpaths
        return c12_importpaths.replay(detail)
    if part == "same-names":
        from . import c12_samenames
        return c12_samenames.replay(detail)
    if part == "modules":
        p = mu.pvh(["show-mods", json.dumps(detail["case"])])
        print(p.stdout)
        print("rule (TLC): visible =", json.dumps(detail["case"]["visible"]))
    elif part == "modules-trace":
        p = mu.pvh(["show-mods", json.dumps({"mods": detail["mods"]})])
        print(p.stdout)
        print("unmatched event:", json.dumps(detail.get("unmatched_event")))
    elif part == "split":
        p = mu.pvh(["split-one", detail["seed"], detail["prog"], "1" if detail["closed"] else "0", "verbose"], check=False)
        print(p.stdout)
    elif part == "hist":
        p = mu.pvh(["hist-one", detail["seed"], detail["prog"], "verbose"], check=False)
        print(p.stdout)
    else:
        print(json.dumps(d, indent=1))
        return 0
    print("problem:", detail.get("problem"), "-", detail.get("message"))
    return 0

"""C14, dimension audit: texts whose SIZE is the dimension (spec/MC_LexBig.tla).

TLC checks the two scaling lemmas (RepLemma, GrowLemma) on the small texts and emits, per case, the items of the
parts and what one more copy adds.  This module only EXPANDS those items to the sizes the specification names
(offset / count / length targets), lets pvh_lex build the texts and run both real lexers, and compares with
lexlib (the same comparator as for the enumerated texts).  Nothing here decides what a token is.
"""
import json
import os

from . import common, lexlib
from .common import log

E103 = 103


def shift_item(raw, j, db, dc, dl):
    """PenneLex item (exchange format) moved behind j copies of a filler -- MC_LexBig!Shift"""
    it = list(raw)
    col = dl == 0 and it[5] == 1
    it[1] += j * db
    it[2] += j * db
    it[3] += j * dc
    it[4] += j * dc
    it[5] += j * dl
    if col:
        it[6] += j * db
        it[7] += j * dc
    if len(it) > 11:
        it[12] += j * db
        it[13] += j * db
        it[14] += j * dc
        it[15] += j * dc
    return it


def rep_expected(case, g, n, q):
    db, dc, dl = case["db"], case["dc"], case["dl"]
    fill = case["dfill" if g == "delta" else "afill"]
    tail = case["dtail" if g == "delta" else "atail"][q]
    out = []
    for j in range(n):
        for raw in fill:
            out.append(shift_item(raw, j, db, dc, dl))
    for raw in tail:
        out.append(shift_item(raw, n, db, dc, dl))
    return out


def grow_item(e, m):
    """item at n = base + m -- MC_LexBig!GrowLemma"""
    it = list(e["it"])
    d = e["d"]
    for k in range(7):
        it[1 + k] += m * d[k]
    by = e["by"]
    grown = list(by["pre"]) + list(by["unit"]) * m + list(by["suf"])
    if len(it) > 11:
        for k in range(4):
            it[12 + k] += m * d[7 + k]
        it[11] = grown
    else:
        it[10] = grown
    return it


def grow_expected(case, g, n):
    return [grow_item(e, n - case["base"]) for e in case["d" if g == "delta" else "a"]]


def rep_runs(case, tier, heavy):
    """[(n, q, why)]: the sizes of MC_LexBig (OffsetTargets, CountTargets) that this (fill, tail) is run at"""
    db = case["db"]
    runs = []
    quick = tier == "quick"
    for T in sorted(case["offsets"]):
        if T > 5000 and not heavy:
            continue
        for why, P in (("first tail token ends at %d" % T, T - (case["te"] - case["ts"])), ("first tail token starts at %d" % T, T),
                       ("first tail token ends at %d" % (T + 1), T + 1 - (case["te"] - case["ts"]))):
            P -= case["ts"]
            n, q = P // db, P % db
            if P >= 0 and q <= 2 and not (quick and T > 5000 and "ends at %d" % T not in why):
                runs.append((n, q, why))
    for c in sorted(case["counts"]):
        if c > 2000 and (not heavy or (quick and c not in (65536, 65537))):
            continue
        runs.append((c, 0, "%d copies" % c))
    return runs


def grow_runs(case, tier):
    """[(n, why)] so that the growing lexeme (or the offset behind the growing blanks) crosses MC_LexBig!LengthTargets"""
    items = case["d"]
    grow = next((e for e in items if (e["d"][1] - e["d"][0]) > 0 or (len(e["it"]) > 11 and e["d"][8] - e["d"][7] > 0)), None)
    runs = []
    for L in sorted(case["lengths"]):
        if grow is not None:
            it, d = grow["it"], grow["d"]
            if len(it) > 11:
                len0, dlen = it[13] - it[12], d[8] - d[7]
            else:
                len0, dlen = it[2] - it[1], d[1] - d[0]
            m = -(-(L - len0) // dlen)          # smallest m with length >= L
            what = "lexeme of >= %d bytes" % L
        else:
            mover = next((e for e in items if e["d"][0] > 0), None)
            if mover is None:
                continue
            m = -(-(L - mover["it"][1]) // mover["d"][0])
            what = "token behind %d blanks" % L
        if m >= 0:
            runs.append((case["base"] + m, what))
    return sorted(set(runs))


def select(cases, tier):
    """which (case, run) are executed: thorough = every case at every cheap size and every case at the 2^16 class;
    quick = every fill with two tails (every tail occurs) at the cheap sizes, eight fills at the 2^16 class; all grow cases."""
    reps = [c for c in cases if c["fam"] == "rep"]
    grows = [c for c in cases if c["fam"] == "grow"]
    fills = []
    for c in reps:
        if c["fill"] not in fills:
            fills.append(c["fill"])
    tails = []
    for c in reps:
        if c["tail"] not in tails:
            tails.append(c["tail"])
    out = []
    for c in reps:
        fi, ti = fills.index(c["fill"]), tails.index(c["tail"])
        if tier == "thorough":
            heavy = ti == fi % len(tails)
            out.append((c, rep_runs(c, tier, heavy)))
        else:
            if ti not in (fi % len(tails), (fi * 5 + 3) % len(tails)):
                continue
            heavy = ti == fi % len(tails) and fi in (0, 4, 6, 9, 11, 12)
            out.append((c, rep_runs(c, tier, heavy)))
    return out, grows


def run(rep, tier, tally, judge_text, selftest=False):
    """judge_text(rep, tally, text, utf8, exp_d, exp_a, obs, origin) is c14.judge_text"""
    r = common.tlc("MC_LexBig", "MC_LexBig.cfg", workers=4, timeout=900, heap="4g", tag="C14-mc-big", keep_output=False)
    log("[tlc] MC_LexBig: %d states, %d cases, %.1fs, %s" %
        (r.distinct, len(r.cases), r.wall, "scaling lemmas hold (RepLemma n<=3 q<=2, GrowLemma base..base+2)" if r.ok
         else "LEMMA VIOLATED: %s" % r.violated))
    if not r.ok:
        raise common.ToolError("a scaling lemma of MC_LexBig does not hold for the reference lexer itself:\n%s" % r.tail[-2500:])
    reps, grows = select(r.cases, tier)
    jobs = []          # (parts, case, kind, params)
    for c, runs in reps:
        for n, q, why in runs:
            jobs.append(([[c["fill"], n], [[32], q], [c["tail"], 1]], c, "rep", (n, q, why)))
    for c in grows:
        for n, why in grow_runs(c, tier):
            jobs.append(([[c["head"], 1], [c["unit"], n], [c["rest"], 1]], c, "grow", (n, why)))
    stats = {"runs": 0, "bytes": 0, "max_bytes": 0, "max_items": 0, "e103_cells": 0, "beyond_100_errors": 0, "max_line": 0}
    # in chunks, so that the observations of the 2^16 class do not sit in memory all at once
    chunk = 40
    for k in range(0, len(jobs), chunk):
        part = jobs[k:k + chunk]
        inp = os.path.join(common.WORK, "C14-big-in-%d.ndjson" % os.getpid())
        outp = os.path.join(common.WORK, "C14-big-out-%d.ndjson" % os.getpid())
        with open(inp, "w") as f:
            for parts, _, _, _ in part:
                f.write(json.dumps({"parts": parts}, separators=(",", ":")) + "\n")
        common.pvh(["replay", inp, outp], exe_name="pvh_lex")
        with open(outp) as f:
            for (parts, c, kind, params), line in zip(part, f):
                o = json.loads(line)
                text = b"".join(bytes(u) * n for u, n in parts)
                if kind == "rep":
                    n, q, why = params
                    exp_d = rep_expected(c, "delta", n, q)
                    exp_a = rep_expected(c, "alpha", n, q) if c["u"] else []
                    origin = "scaled text: fill x %d + %d blank(s) + tail (%s)" % (n, q, why)
                    cap = c["tokcap"]
                else:
                    n, why = params
                    exp_d = grow_expected(c, "delta", n)
                    exp_a = grow_expected(c, "alpha", n) if c["u"] else []
                    origin = "scaled text: head + unit x %d + rest (%s)" % (n, why)
                    cap = 65536
                if c["u"] != o["u"]:
                    raise common.ToolError("UTF-8 validity: spec says %s, Rust says %s (%s)" % (c["u"], o["u"], origin))
                stats["runs"] += 1
                stats["bytes"] += len(text)
                stats["max_bytes"] = max(stats["max_bytes"], len(text))
                stats["max_items"] = max(stats["max_items"], len(exp_d))
                stats["max_line"] = max(stats["max_line"], exp_d[-1][5] if exp_d else 0)
                nerr = sum(1 for it in exp_d if len(it) > 11 and it[8] != 0)
                if nerr > lexlib.MAX_DELTA_ERRORS:
                    stats["beyond_100_errors"] += 1
                dt = o["d"].get("t")
                if len(exp_d) > cap and dt is not None and len(dt) == 1 and dt[0][0] == "Error" and dt[0][5] == E103:
                    # unconstrained: above TokCap tokens the second generation may answer E103 (docs give no number)
                    stats["e103_cells"] += 1
                    tally.texts += 1
                    tally.evaluations += 1
                    tally.matched += 1
                    if c["u"]:
                        tally.evaluations += 1
                        devs = lexlib.check_lexer(exp_a, o["a"], "alpha", text)
                        if not devs:
                            tally.matched += 1
                        for sig, detail in devs:
                            tally.sigs[sig] += 1
                            rep.violation("lex", "%s :: %s" % (sig, origin + " " + lexlib.esc(text[:40])),
                                          {"parts": parts, "generation": "alpha", "problem": sig, "detail": detail, "origin": origin})
                    continue
                tally.texts += 1
                tally.nontrivial.add(("big", kind, json.dumps(parts)))
                judge_text(rep, tally, BigText(text, parts, origin), c["u"], exp_d, exp_a, o, origin)
        for pth in (inp, outp):
            os.remove(pth)
    log("[replay] %d scaled texts (%.1f MB, largest %d bytes / %d items / line %d) lexed by both real lexers; %d E103 cells "
        "(unconstrained above %d tokens), %d texts with more than 100 lexical errors" %
        (stats["runs"], stats["bytes"] / 1e6, stats["max_bytes"], stats["max_items"], stats["max_line"], stats["e103_cells"], 65536,
         stats["beyond_100_errors"]))
    if selftest and jobs:
        # the expansion is bound to the code: an expected item moved by one byte / one line must be noticed
        parts, c, kind, params = next(j for j in jobs if j[2] == "rep" and j[3][0] >= 100 and j[1]["dl"] == 1)
        inp = os.path.join(common.WORK, "C14-big-in-%d.ndjson" % os.getpid())
        outp = os.path.join(common.WORK, "C14-big-out-%d.ndjson" % os.getpid())
        common.write_ndjson(inp, [{"parts": parts}])
        common.pvh(["replay", inp, outp], exe_name="pvh_lex")
        o = common.read_ndjson(outp)[0]
        text = b"".join(bytes(u) * n for u, n in parts)
        exp = rep_expected(c, "delta", params[0], params[1])
        bad1 = [list(x) for x in exp]
        bad1[len(bad1) // 2][2] += 1
        bad2 = [list(x) for x in exp]
        bad2[-1][5] += 1
        stats["selftests"] = {"scaled_text_clean": lexlib.check_lexer(exp, o["d"], "delta", text) == [],
                              "scaled_span_off_by_one_detected": bool(lexlib.check_lexer(bad1, o["d"], "delta", text)),
                              "scaled_line_off_by_one_detected": bool(lexlib.check_lexer(bad2, o["d"], "delta", text))}
        for pth in (inp, outp):
            os.remove(pth)
    stats["tlc_states"] = r.distinct
    stats["tlc_generated"] = r.generated
    stats["cases"] = len(r.cases)
    return stats


class BigText(bytes):
    """the text of a scaled case: bytes, plus the recipe (keys and replay files name the recipe, not a megabyte of text)"""

    def __new__(cls, text, parts, origin):
        self = super().__new__(cls, text)
        self.parts = parts
        self.origin = origin
        return self

"""Shared driver for the three flat-body properties C04, C05, C06:
  1. TLC model-checks A |= R on every body up to the bound and emits one CASE per body;
  2. every CASE is replayed on the real compiler (spec -> impl) and compared with the rule;
  3. random larger bodies are recorded with hook events and validated by TLC (impl -> spec),
     at rule level (decides VIOLATION) and strictly against the algorithm model (MODEL-DRIFT only).
"""
import concurrent.futures
import json
import os
import random

from . import common
from .common import log


def canon(case):
    parts = list(case["b"])
    if case.get("consts"):
        parts = ["const:" + ",".join(case["consts"])] + parts
    if case.get("params"):
        parts = ["param:" + ",".join(case["params"])] + parts
    if case.get("layout"):
        # the layout names the input class too (a defect that needs a layout must be keyed by it)
        lay = case["layout"]
        parts = ["layout:" + ",".join(k if lay[k] is True else "%s=%s" % (k, json.dumps(lay[k], sort_keys=True, separators=(",", ":")))
                                      for k in sorted(lay))] + parts
    return " ".join(parts)


def run_flat(rep, tier, seed, selftest, cfg):
    """cfg: dict with keys
       module, mc_cfg{tier}, workers, timeout,
       compare(case, obs) -> list of (kind, msg) property-level discrepancies; drift(case, obs) -> list of str
       trace_module, trace_cfg_rule, trace_cfg_strict, record_prop, record_count{tier}
       nontrivial(case) -> bool
    """
    common.build_harness()
    os.makedirs(common.WORK, exist_ok=True)
    prop = rep.prop
    # ---- 1. model checking + case emission --------------------------------------
    mc_cfgs = cfg["mc_cfg"][tier]
    if isinstance(mc_cfgs, str):
        mc_cfgs = [mc_cfgs]
    r = None
    # the first configuration is the big one; the further (small) ones run beside it with two workers each
    def run_mc(i_mc):
        i, mc = i_mc
        return common.tlc(cfg["module"], mc, workers=cfg.get("workers", 8) if i == 0 else (2 if tier == "quick" else 4),
                          timeout=cfg.get("timeout", {"quick": 900, "thorough": 3400})[tier],
                          heap=cfg.get("heap", "12g") if i == 0 else "3g",
                          tag="%s-mc-%s-%d" % (prop, mc.replace(".cfg", ""), os.getpid()))
    with concurrent.futures.ThreadPoolExecutor(max_workers=4) as pool:
        mc_results = list(pool.map(run_mc, enumerate(mc_cfgs)))
    for mc, r1 in zip(mc_cfgs, mc_results):
        log("[tlc] %s/%s: %d states generated, %d distinct, %d cases, %.1fs, %s" %
            (cfg["module"], mc, r1.generated, r1.distinct, len(r1.cases), r1.wall,
             "no invariant violated" if r1.ok else "INVARIANT %s VIOLATED" % r1.violated))
        if not r1.ok:
            # The algorithm model disagrees with the rule on some input: a candidate defect.  The
            # emitted cases are still replayed; whether the real compiler shows the same
            # disagreement is decided by the replay below.
            log("[tlc] counterexample tail:\n" + r1.tail[-3000:])
        if r is None:
            r = r1
        else:
            r.generated += r1.generated
            r.distinct += r1.distinct
            r.cases += r1.cases
            r.ok = r.ok and r1.ok
            r.violated = r.violated or r1.violated
            r.wall += r1.wall
    model_ok = r.ok
    cases = r.cases
    if "prepare" in cfg:
        cases = [cfg["prepare"](c) for c in cases]
    if not cases:
        raise common.ToolError("TLC emitted no cases")
    # ---- 2. replay every case on the real compiler ------------------------------
    cases_path = os.path.join(common.WORK, "%s-cases-%d.ndjson" % (prop, os.getpid()))
    obs_path = os.path.join(common.WORK, "%s-obs-%d.ndjson" % (prop, os.getpid()))
    common.write_ndjson(cases_path, cases)
    common.pvh(["replay-flat", cases_path, obs_path])
    observations = common.read_ndjson(obs_path)
    if len(observations) != len(cases):
        raise common.ToolError("replay returned %d observations for %d cases" % (len(observations), len(cases)))
    nontrivial = set()
    agree_model = 0
    for case, obs in zip(cases, observations):
        key = canon(case)
        if cfg["nontrivial"](case):
            nontrivial.add(key)
        problems = cfg["compare"](case, obs)
        for kind, msg in problems:
            rep.violation("flat", key, {"case": case, "observed": obs, "problem": kind, "message": msg,
                                        "how": "bin/check %s --replay <this file>" % prop})
        d = cfg["drift"](case, obs)
        if d:
            rep.note_drift("%s: %s" % (key, "; ".join(d)))
        else:
            agree_model += 1
    log("[replay] %d cases replayed on the real compiler, %d violations, model agreement %d/%d" %
        (len(cases), len(rep.violations), agree_model, len(cases)))
    # ---- 2a. the same cases as the SECOND module of a compilation -----------------
    # (pvh::alpha::PREMODULE goes through the same Compiler first, as `penne pre.pn case.pn` does: labels, variables,
    # parameters, constants, blocks and a loop leave behind whatever the stages keep per module; the rule knows nothing of
    # other modules, so the verdict is the same).  Quick: every third case; thorough: every case.
    step = 3 if tier == "quick" else 1
    sub = list(range(0, len(cases), step))
    cases2_path = os.path.join(common.WORK, "%s-cases2-%d.ndjson" % (prop, os.getpid()))
    obs2_path = os.path.join(common.WORK, "%s-obs2-%d.ndjson" % (prop, os.getpid()))
    common.write_ndjson(cases2_path, [cases[i] for i in sub])
    common.pvh(["replay-flat", cases2_path, obs2_path], env={"PVH_PREMODULE": "1"})
    second = common.read_ndjson(obs2_path)
    if len(second) != len(sub):
        raise common.ToolError("replay (second module) returned %d observations for %d cases" % (len(second), len(sub)))
    n2 = 0
    for i, obs2 in zip(sub, second):
        problems2 = cfg["compare"](cases[i], obs2)
        if problems2 and not cfg["compare"](cases[i], observations[i]):
            n2 += 1
            for kind, msg in problems2:
                rep.violation("flat", canon(cases[i]) + " ^second-module",
                              {"case": cases[i], "observed": obs2, "observed_alone": observations[i], "problem": kind,
                               "message": msg + " (as the second module of a compilation; alone the case behaves as the rule says)",
                               "how": "bin/check %s --replay <this file>" % prop})
    log("[replay] %d of the cases as the second module of a compilation: %d differ from the rule only there" % (len(sub), n2))
    # ---- 2a'. the same cases with the whole module on ONE source line ----------------
    # (line breaks are no part of any rule: the codes reported must be the same multiset as for the one-item-per-line text)
    common.pvh(["replay-flat", cases2_path, obs2_path], env={"PVH_FLAT_JOINED": "1"})
    joined = common.read_ndjson(obs2_path)
    if len(joined) != len(sub):
        raise common.ToolError("replay (one line) returned %d observations for %d cases" % (len(joined), len(sub)))
    n3 = 0
    for i, obsj in zip(sub, joined):
        a = sorted(d[0] for d in observations[i].get("diags", []))
        b = sorted(d[0] for d in obsj.get("diags", []))
        if (a != b or bool(observations[i].get("panic")) != bool(obsj.get("panic"))) and not cfg["compare"](cases[i], observations[i]):
            n3 += 1
            rep.violation("flat", canon(cases[i]) + " ^one-line",
                          {"case": cases[i], "observed": obsj, "observed_one_item_per_line": observations[i], "problem": "layout",
                           "message": "written on one source line the module is diagnosed with %s, one item per line with %s" % (b, a),
                           "how": "bin/check %s --replay <this file>" % prop})
    log("[replay] %d of the cases on one source line: %d are diagnosed differently" % (len(sub), n3))
    for f in (cases2_path, obs2_path):
        if os.path.exists(f):
            os.remove(f)
    if not model_ok and not rep.violations and not rep.known_hits:
        # model says A violates R but the code satisfies R on all emitted cases: the model drifted
        rep.note_drift("TLC reports %s violated but no replayed case shows it on the real code" % r.violated)
    # ---- 2b. self-test of the binding (spec -> impl) ------------------------------
    selftests = {}
    if selftest:
        flipped = dict(cases[len(cases) // 2])
        flipped["ok"] = not flipped["ok"]
        selftests["flipped_verdict_detected"] = bool(cfg["compare"](flipped, observations[len(cases) // 2]))
    if selftest and "vacuity" in cfg:
        vm, vc, vinv = cfg["vacuity"]
        rv = common.tlc(vm, vc, workers=4, timeout=600, tag="%s-vacuity-%d" % (prop, os.getpid()))
        selftests["defective_model_violates_" + vinv] = (rv.violated == vinv)
    # ---- 3. trace validation of random larger bodies ----------------------------
    count = cfg["record_count"][tier]
    chunks = max(1, min(12, count // 150))
    prefix = os.path.join(common.WORK, "%s-trace-%d" % (prop, os.getpid()))
    common.pvh(["record-flat", cfg["record_prop"], count, seed, prefix, chunks])
    files = [f for f in ("%s.%d.ndjson" % (prefix, c) for c in range(chunks)) if os.path.exists(f)]
    traces_ok = 0
    trace_events = 0
    trace_samples = []
    for f in files:
        for line in open(f):
            if '"ev":"toolerror"' in line or '"ev": "toolerror"' in line:
                raise common.ToolError("recorder: " + line[:400])
    # A rejected recording is cut after the rejected run and the remainder validated again, so that
    # one rejection never leaves the rest of a file unexamined (at most 8 rejections per file).
    todo = list(files)
    rounds = 0
    while todo and rounds < 8:
        rounds += 1
        results = common.tlc_traces(cfg["trace_module"], cfg["trace_cfg_rule"], todo)
        todo = []
        for res in results:
            trace_events += res["matched"]
            ncases, bad = split_trace(res["file"], res["matched"] if not res["accepted"] else None)
            if res["accepted"]:
                traces_ok += ncases
                continue
            traces_ok += bad["index"]
            # a crash of the code under test also ends up here (no outcome event)
            key = " ".join(bad["input_key"])
            rep.violation("trace", key, {"trace_file": res["file"], "first_unmatched_line": res["matched"] + 1,
                                         "unmatched_event": bad["event"], "input": bad["input"],
                                         "message": "recorded behaviour of the real scoper/analyzer is not a behaviour the rule allows"})
            rest = remainder(res["file"], bad["index"] + 1)
            if rest:
                todo.append(rest)
    strict = common.tlc_traces(cfg["trace_module"], cfg["trace_cfg_strict"], files)
    strict_ok = sum(1 for s in strict if s["accepted"])
    for s in strict:
        if not s["accepted"]:
            rep.note_drift("strict trace validation stops at line %d of %s" % (s["matched"] + 1, s["file"]))
    log("[trace] %d recorded runs (%d events) validated against the rule: %d accepted; strict (algorithm) mode: %d/%d files" %
        (count, trace_events, traces_ok, strict_ok, len(files)))
    if selftest and files:
        selftests.update(trace_selftest(cfg, files[0]))
        log("[selftest] %s" % json.dumps(selftests))
        for name, ok in selftests.items():
            if not ok:
                raise common.ToolError("self-test %s failed: the binding does not detect a corrupted recording" % name)
    if files:
        with open(files[0]) as f:
            trace_samples = [json.loads(next(f)) for _ in range(3)]
    rnd = random.Random(seed)
    sample_idx = sorted(rnd.sample(range(len(cases)), min(5, len(cases))))
    coverage = {
        "states": r.distinct,
        "transitions": r.generated,
        "traces_validated_against_impl": len(cases) + traces_ok,
        "samples": [{"case": cases[i], "observed": observations[i]} for i in sample_idx] +
                   [{"trace_head": trace_samples}],
        "evaluations": len(cases) + count,
        "distinct_nontrivial": len(nontrivial),
        "rule": cfg["rule_text"],
        "exhaustive": True,
        "model_invariants_hold": model_ok,
        "violated_invariant": r.violated,
        "cases_replayed": len(cases),
        "model_agreement": "%d/%d" % (agree_model, len(cases)),
        "random_traces_recorded": count,
        "random_traces_accepted_rule_level": traces_ok,
        "trace_events_matched": trace_events,
        "strict_trace_files_accepted": "%d/%d" % (strict_ok, len(files)),
        "tlc_config": mc_cfgs,
        "selftests": selftests,
    }
    if cfg.get("extra"):
        # a part of its own of the check (e.g. the same cases through the real command line tool)
        coverage.update(cfg["extra"](rep, tier, seed, cases))
    return rep.finish("model_checking", coverage, cfg["assumptions"])


def split_trace(path, matched):
    """Number of cases in a trace file; if `matched` is given, locate the case containing line matched+1."""
    n = 0
    cur_input = None
    bad = None
    with open(path) as f:
        for lineno, line in enumerate(f, 1):
            o = json.loads(line)
            if o.get("ev") == "input":
                n += 1
                cur_input = o
            if matched is not None and lineno == matched + 1:
                b = cur_input.get("b", [])
                bad = {"index": n - 1, "event": o, "input": cur_input,
                       "input_key": [(x["k"] + x["n"]) if isinstance(x, dict) else x for x in b]}
    if matched is not None and bad is None:
        bad = {"index": n, "event": None, "input": cur_input, "input_key": ["<end of trace>"]}
    return n, bad


def remainder(path, first_case):
    """Write the runs of a recording from run number `first_case` (0-based) on into a new file."""
    out = []
    n = -1
    with open(path) as f:
        for line in f:
            if '"ev":"input"' in line:
                n += 1
            if n >= first_case:
                out.append(line)
    if not out:
        return None
    base = path[:-len(".ndjson")] if path.endswith(".ndjson") else path
    new = base + "r.ndjson"
    open(new, "w").writelines(out)
    return new


def trace_selftest(cfg, path):
    """Corrupt a copy of a recording in two ways; both must be rejected."""
    lines = open(path).read().splitlines()
    out = {}
    # (a) drop the first hook event that carries a line number
    idx = next((i for i, l in enumerate(lines) if '"line"' in l and '"ev":"outcome"' not in l and '"ev":"input"' not in l), None)
    # (b) flip the verdict of the first outcome
    odx = next((i for i, l in enumerate(lines) if '"ev":"outcome"' in l), None)
    tests = []
    if idx is not None:
        tests.append(("dropped_event_rejected", lines[:idx] + lines[idx + 1:]))
    if odx is not None:
        flipped = []
        for ln in lines:
            if '"ev":"outcome"' in ln:
                o = json.loads(ln)
                o["ok"] = not o["ok"]
                ln = json.dumps(o, separators=(",", ":"))
            flipped.append(ln)
        tests.append(("flipped_outcome_rejected", flipped))
    files = []
    for name, ls in tests:
        p = os.path.join(common.WORK, "selftest-%s-%s.ndjson" % (cfg["record_prop"], name))
        open(p, "w").write("\n".join(ls) + "\n")
        files.append((name, p))
    res = common.tlc_traces(cfg["trace_module"], cfg["trace_cfg_rule"], [p for _, p in files])
    by = {r["file"]: r for r in res}
    for name, p in files:
        out[name] = not by[p]["accepted"]
    return out

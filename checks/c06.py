"""C06 -- loop and if-branches only appear where the language allows them (spec/Placement.tla)."""
import json
import zlib

from . import common, flatcheck

FAMILY = (800, 801, 840)


def to_items(case):
    """token kinds of the spec -> renderable items: gotos target the final label z, labels get unique names"""
    out = []
    for i, k in enumerate(case["b"]):
        if k == "G":
            out.append("Gz")
        elif k == "L":
            out.append("Lq%d" % i)
        elif k == "V":
            out.append("Vw%d" % i)      # a declaration statement with a name of its own
        else:
            out.append(k)
    # (the label the gotos target ends the body; without gotos the LAST token is the last statement of the function)
    return out + (["Lz"] if "G" in case["b"] else [])


# Layouts (no part of the rule, docs/notes-flat.md): result type + `return: x` as the END of every body, a parameter,
# comments at the end of every line, no newline at the end of the file
LAYOUTS = [
    {},
    {"ret": True},
    {"comments": True, "nonl": True},
    {"pparam": True, "ret": True, "comments": True},
    {"nonl": True},
    {"paren_cond": True},
    {"paren_cond": True, "ret": True},
]
_state = {"seed": 0}


def prepare(case):
    c = dict(case)
    c["tokens"] = case["b"]
    c["b"] = to_items(case)
    lay = dict(LAYOUTS[(zlib.crc32(" ".join(case["b"]).encode()) + _state["seed"]) % len(LAYOUTS)])
    if "F" in case["b"] and "G" in case["b"]:
        # every function but the last ends with the label the gotos target (on the line of the F item); without gotos
        # the last statement of a function is whatever the body ends with
        lay["end_label"] = "z"
    if lay:
        c["layout"] = lay
    return c


def compare(case, obs):
    out = []
    if obs.get("panic"):
        return [("crash", "the compiler panicked: %s" % obs["panic"])]
    fam = sorted([line - obs["off"], c] for c, line in obs["diags"] if c in FAMILY)
    other = [[c, line] for c, line in obs["diags"] if c not in FAMILY]
    want = sorted([list(e) for e in case["errs"]])
    if fam != want:
        out.append(("E8xx", "E800/E801/E840 reported as %s (item, code), the rule demands %s" % (fam, want)))
    if not other:
        if case["ok"] and not obs["ok"]:
            out.append(("rejected-valid", "a body with only legal placements is rejected: %s" % obs["diags"]))
        if not case["ok"] and obs["ok"]:
            out.append(("accepted-invalid", "a body with an illegal placement is accepted"))
    if obs["ok"] and case["ok"]:
        lints = sorted(line - obs["off"] for c, line in obs["lints"] if c == 1800)
        if lints != sorted(case["lints"]):
            out.append(("L1800", "L1800 raised at items %s, the rule demands %s" % (lints, sorted(case["lints"]))))
    return out


def drift(case, obs):
    return []


def nontrivial(c):
    b = c["tokens"] if "tokens" in c else c["b"]
    return ("I" in b or "O" in b) and ("LP" in b or "I" in b)


CFG = {
    "module": "MC_Placement",
    # quick: every body up to 6 tokens, and every body up to 8 tokens that begins with an if statement (no goto / label tokens):
    # `if c { s } else { loop }` has 8 tokens
    # dimension audit (docs/notes-flat.md): fns = modules of two (thorough: three) function bodies (the linter lives as long
    # as the compiler, the syntax analyzer is made per declaration); kinds = call and declaration statements in every place;
    # faulty = statements that also carry an error of a LATER analysis (E511, E512/E513, E530) in every place: the misplaced
    # ones still get E840 (seventh round of seeded changes)
    "mc_cfg": {"quick": ["MC_Placement_quick.cfg", "MC_Placement_ifelse_quick.cfg", "MC_Placement_fns_quick.cfg",
                         "MC_Placement_kinds_quick.cfg", "MC_Placement_faulty_quick.cfg"],
               "thorough": ["MC_Placement_thorough.cfg", "MC_Placement_fns_thorough.cfg", "MC_Placement_kinds_thorough.cfg",
                            "MC_Placement_faulty_thorough.cfg"]},
    "workers": 8,
    "prepare": prepare,
    "compare": compare,
    "drift": drift,
    "nontrivial": nontrivial,
    "trace_module": "Trace_Placement",
    "trace_cfg_rule": "Trace_Placement_rule.cfg",
    "trace_cfg_strict": "Trace_Placement_strict.cfg",
    "record_prop": "C06",
    "record_count": {"quick": 600, "thorough": 12000},
    "vacuity": ("MC_Placement", "MC_Placement_defect.cfg", "Agree"),
    "rule_text": "TLC enumerates every well-formed statement-token sequence over {assignment, goto, loop, label, block, "
                 "if with a naked or braced then-branch, else with a naked or braced branch} up to MaxLen tokens / nesting 4 "
                 "(grammar stack of Placement.tla), checks the model of the syntax analyzer's three flags and of the linter's "
                 "two flags against the structural rule, and emits every sequence; each is rendered (one token per line) and "
                 "compiled; E800/E801/E840 (item, code) sets, the verdict and the L1800 lints are compared with the rule. "
                 "Random statement trees (<= 30 statements, depth 5) are recorded with `visit` events and validated by TLC. "
                 "Dimension audit: modules of two / three function bodies (token F; the linter's flags are threaded through the module), "
                 "call and declaration statements in every place (tokens M, V), statements that also carry an error of a later analysis -- "
                 "call with an excess argument, call without address-of, assignment to a constant -- in every place (tokens MX, MY, SX), no label after the last statement unless a goto needs it "
                 "(the LAST statement of a function body is every kind of statement), layouts (result type with `return: x` as last "
                 "statement, parameter, comments, no final newline); every third random run has 1-3 functions, calls, declarations, nesting up to 8. "
                 "Non-trivial = distinct sequences containing an if or a block together with a loop or an if.",
    "assumptions": [
        "every goto targets a label appended at the end of its function body (only when the body has a goto), labels have unique names: only placement can be wrong",
        "a statement rejected with E840 is not examined further (cascade policy): diagnostics inside it are neither demanded nor allowed",
        "lints are observable only for accepted programs (the driver takes lints after a successful resolve)",
    ],
}


FILLER = "fn filler(a: i32) -> i32\n{\n\treturn: a\n}\n"


def cli_pass(rep, tier, seed, cases):
    """The accepted bodies once more through the REAL command line tool, as one of TWO modules of a compilation (the eighth
    round of seeded changes: the tool took the lints once, after its loop over the modules, and only those of the last module
    were left).  `penne emit case.pn filler.pn` and `penne emit filler.pn case.pn`: exit status 0 and as many `[L1800]` as the
    rule demands, wherever the module stands."""
    import os
    import random
    from . import c02, pipeline_common as pc
    penne = pc.build_penne()
    rnd = random.Random(seed)
    # (one function per module; the statements that carry an error of a later analysis are legally PLACED but do not compile)
    plain = lambda c: c.get("ok") and not set(c.get("tokens", [])) & {"F", "MX", "MY", "SX"}
    linted = [c for c in cases if plain(c) and c.get("lints")]
    clean = [c for c in cases if plain(c) and not c.get("lints")]
    chosen = rnd.sample(linted, min(len(linted), 150 if tier == "quick" else 1500)) + rnd.sample(clean, min(len(clean), 30 if tier == "quick" else 300))
    if not chosen or not linted:
        raise common.ToolError("C06 command line pass: no accepted case with an L1800 lint to run")
    items = os.path.join(common.WORK, "c06-cli-%d-items.ndjson" % os.getpid())
    rendered = os.path.join(common.WORK, "c06-cli-%d-cases.ndjson" % os.getpid())
    common.write_ndjson(items, [{"id": "cli%d" % i, "b": c["b"]} for i, c in enumerate(chosen)])
    common.build_harness(pc.EXE)
    pc.pvh(["render-flat", items, rendered])
    srcs = [json.loads(l)["mods"][0]["src"] for l in open(rendered)]
    os.remove(items)
    os.remove(rendered)
    root = os.path.join(common.WORK, "c06-cli-%d" % os.getpid())
    bad = 0
    runs = 0
    noticed = False
    for i, (c, src) in enumerate(zip(chosen, srcs)):
        for order in ("first", "last"):
            mods = [{"name": "case.pn", "src": src}, {"name": "filler.pn", "src": FILLER}]
            if order == "last":
                mods.reverse()
            res = c02.emit_one(penne, root, {"id": "c%d%s" % (i, order), "mods": mods}, 60)
            runs += 1
            got = (res["stderr"] + res["stdout"]).count("[L1800]")
            want = len(c["lints"])
            if res["rc"] == 0 and got == want and want > 0 and not noticed:
                noticed = got != want - 1          # the comparison below notices a corrupted expectation
            if res["rc"] != 0 or got != want:
                bad += 1
                rep.violation("cli-L1800", "%s as the %s of two modules :: %s" % (" ".join(c["tokens"]), order, "rc=%s" % res["rc"] if res["rc"] != 0 else "%d/%d" % (got, want)),
                              {"case": c, "order": order, "source": src, "rc": res["rc"], "stderr": res["stderr"][-1500:],
                               "message": "`penne emit` with the body as the %s of two modules: exit status %s, %d x [L1800]; the rule demands exit status 0 and %d" %
                                          (order, res["rc"], got, want)})
    import shutil
    shutil.rmtree(root, ignore_errors=True)
    if not noticed:
        raise common.ToolError("C06 command line pass: no run showed the expected lints (self-test)")
    common.log("[cli] %d accepted bodies (%d with L1800) x 2 positions among two modules through the real `penne emit`: %d runs, %d violations" %
               (len(chosen), sum(1 for c in chosen if c["lints"]), runs, bad))
    return {"cli_runs": runs, "cli_violations": bad}


CFG["extra"] = cli_pass


def run(rep, tier, seed, selftest):
    _state["seed"] = seed
    return flatcheck.run_flat(rep, tier, seed, selftest or tier == "thorough", CFG)


def replay(path):
    d = json.load(open(path))
    case = d["detail"].get("case")
    if case is None:
        print(json.dumps(d, indent=1))
        return 0
    p = common.pvh(["show-flat", json.dumps({"b": case["b"]})])
    print(p.stdout)
    print("rule:", json.dumps({k: case[k] for k in case if k != "b"}))
    return 0

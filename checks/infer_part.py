"""Type INFERENCE (spec/Inference.tla), a part of C01 and C07: `run_part(rep, tier, seed, selftest)`.

 1. design level: TLC enumerates every body of the MC_Inference configurations (unannotated declarations,
    naked literals, assignments, operators, comparisons, calls, casts, index, return), evaluates the rule R
    (Inference.tla: constraint system, solution by propagation, verdict) and the model A of typer.rs
    (InferenceAlg.tla: three passes, contextual type, put_symbol) on each, checks A |= R (R1, R-undet, R2) and
    emits one CASE per body;
 2. spec -> impl: EVERY case is rendered and compiled by the real front end (pvh_infer replay); accept / reject
    and the resolved type of every unannotated declaration and naked literal (resolved tree) are compared with
    R (VIOLATION `infer-*`) and with A (MODEL-DRIFT); a seeded sample of the accepted cases is executed together
    with its fully annotated twin (the solved program): identical output; a few twins are validated by
    Trace_Machine (Machine.tla is the oracle of the twin);
 3. impl -> spec: random programs of the C01 generator with annotations / suffixes erased at random are
    compiled and run with their twins; Trace_Inference.tla (TLC) decides each recorded line.
Python only compares.  Standalone: `python3 -m checks.infer_part --tier quick [--selftest] [--seed N]`.
"""
import collections
import json
import os
import random
import re
import sys
import time

from . import common

T0 = time.time()


def log(msg):
    common.log("[infer %5.1fs] %s" % (time.time() - T0, msg))


EXE = "pvh_infer"
WIDTH = {"u8": 1, "i8": 1, "u16": 2, "i16": 2, "u32": 4, "i32": 4, "u64": 8, "i64": 8, "usize": 8, "u128": 16, "i128": 16,
         "bool": 1, "char8": 1}
NOT_A_TYPE = ("unc", "conflict", "undet")

MC_CFGS = {
    "quick": ["MC_Inference_pairs_quick.cfg", "MC_Inference_triples_quick.cfg"],
    "thorough": ["MC_Inference_pairs_thorough.cfg", "MC_Inference_triples_thorough.cfg", "MC_Inference_forms_thorough.cfg",
                 "MC_Inference_chains_thorough.cfg"],
}
EXEC_SAMPLE = {"quick": 600, "thorough": 3000}
MACHINE_SAMPLE = {"quick": 30, "thorough": 300}
RANDOM = {"quick": (200, 3), "thorough": (1600, 4)}       # programs, max erased sites


def tag(name):
    return "infer-%s-%d" % (name, os.getpid())


def threads():
    return os.environ.get("PVH_THREADS", "6")


# ---------------------------------------------------------------------------
# case -> program, text, twin
# ---------------------------------------------------------------------------
def assemble(case, note):
    decl = [it["x"] for it in case["b"] if it["k"] == "V" and "ty" not in it]
    body = note["pre"] + case["b"] + [{"k": "P", "e": {"k": "var", "x": x}} for x in decl] + [{"k": "L", "n": "end"}]
    if len(body) != case["n"]:
        raise common.ToolError("assembled body has %d items, TLC's has %d" % (len(body), case["n"]))
    run = {"name": "run", "params": [], "body": body,
           "ret": {"k": "void"} if case["ret"] == "void" else {"k": "prim", "t": case["ret"]}, "res": case["res"]}
    if case["ret"] == "void":
        mbody = [{"k": "CALL", "f": "run", "args": [], "d": ""}]
    else:
        mbody = [{"k": "V", "x": "r", "ty": {"k": "prim", "t": case["ret"]}, "e": {"k": "call", "f": "run", "args": []}},
                 {"k": "P", "e": {"k": "var", "x": "r"}}]
    main = {"name": "main", "params": [], "ret": {"k": "prim", "t": "u8"}, "res": {"k": "lit", "t": "u8", "v": [0]}, "body": mbody}
    return {"structs": [], "consts": [], "fns": note["helpers"] + [run, main]}


def show_expr(e):
    k = e["k"]
    if k == "lit":
        return str(sum(b << (8 * i) for i, b in enumerate(e["v"][:16]))) + (e.get("t") or "")
    if k == "var":
        return e["x"]
    if k == "bin":
        return "%s%s%s" % (show_expr(e["l"]), e["op"], show_expr(e["r"]))
    if k == "as":
        return "(%s) as %s" % (show_expr(e["e"]), e["t"])
    if k == "call":
        return "%s(%s)" % (e["f"], ",".join(show_expr(a) for a in e["args"]))
    if k == "idx":
        return "%s[%s]" % (e["x"], show_expr(e["i"]))
    if k == "len":
        return "|%s|" % e.get("x", "r")
    if k == "paren":
        return "(%s)" % show_expr(e["e"])
    return "<%s>" % k


def show_item(it):
    if it["k"] == "V":
        return "var %s%s = %s;" % (it["x"], (": " + it["ty"]["t"]) if "ty" in it and it["ty"]["k"] == "prim" else "", show_expr(it["e"]))
    if it["k"] == "S":
        return "%s = %s;" % (it["x"], show_expr(it["e"]))
    if it["k"] == "IG":
        return "if %s == %s goto end;" % (show_expr(it["c"]["l"]), show_expr(it["c"]["r"]))
    return it["k"]


def case_text(case):
    s = " ".join(show_item(i) for i in case["b"])
    if case["ret"] != "void":
        s += " return(%s): %s" % (case["ret"], show_expr(case["res"]))
    return s


def shape_expr(e, untyped):
    """an expression with its atoms abstracted: N naked literal, S suffixed literal, T typed variable, U unannotated variable"""
    k = e["k"]
    if k == "lit":
        return "S" if "t" in e else "N"
    if k == "var":
        return "U" if e["x"] in untyped else "T"
    if k == "bin":
        return "%s%s%s" % (shape_expr(e["l"], untyped), e["op"], shape_expr(e["r"], untyped))
    if k == "as":
        return "(%s)as" % shape_expr(e["e"], untyped)
    if k == "call":
        return "h(%s)" % shape_expr(e["args"][0], untyped)
    if k == "idx":
        return "arr[%s]" % shape_expr(e["i"], untyped)
    if k == "len":
        return "T"
    return "?"


def shape_item(it, untyped):
    if it["k"] == "V":
        return "var %s = %s" % ("D" if "ty" in it else "U", shape_expr(it["e"], untyped))
    if it["k"] == "S":
        return "%s = %s" % ("U" if it["x"] in untyped else "T", shape_expr(it["e"], untyped))
    if it["k"] == "IG":
        return "if %s == %s" % (shape_expr(it["c"]["l"], untyped), shape_expr(it["c"]["r"], untyped))
    return it["k"]


def has_variable_index(case):
    """`arr[a]` with a computed index may be out of bounds (undefined behaviour): such bodies are compiled, not executed"""
    def idx(e):
        if e["k"] == "idx" and e["i"]["k"] != "lit":
            return True
        return any(idx(e[f]) for f in ("l", "r", "e", "i") if f in e and isinstance(e[f], dict)) or any(idx(a) for a in e.get("args", []))
    for it in case["b"]:
        if "e" in it and idx(it["e"]):
            return True
        if "c" in it and (idx(it["c"]["l"]) or idx(it["c"]["r"])):
            return True
    return False


def sol_map(case):
    return {s[0]: {"c": s[1], "d": s[2], "lit": s[3], "hint": s[4]} for s in case["sol"]}


def fill_expr(e, sol):
    """the annotated twin of an expression: every naked literal gets the type the rule computed"""
    k = e["k"]
    if k == "lit":
        if "t" in e:
            return e
        t = sol[e["id"]]["c"]
        v = list(e["v"]) + [0] * (WIDTH[t] - len(e["v"]))
        return {"k": "lit", "t": t, "v": v[:WIDTH[t]]}
    out = dict(e)
    for f in ("l", "r", "e", "i"):
        if f in e and isinstance(e[f], dict):
            out[f] = fill_expr(e[f], sol)
    if "args" in e:
        out["args"] = [fill_expr(a, sol) for a in e["args"]]
    return out


def twin_of(program, sol):
    """the solved program (only for cases in which every class is a type)"""
    p = json.loads(json.dumps(program))
    main = p["fns"][-2]       # the function under test, `run`
    body = []
    for it in main["body"]:
        it = dict(it)
        if it["k"] == "V" and "ty" not in it:
            it["ty"] = {"k": "prim", "t": sol[it["x"]]["c"]}
        if "e" in it:
            it["e"] = fill_expr(it["e"], sol)
        if "c" in it:
            it["c"] = {"op": it["c"]["op"], "l": fill_expr(it["c"]["l"], sol), "r": fill_expr(it["c"]["r"], sol)}
        body.append(it)
    main["body"] = body
    if main["ret"]["k"] != "void":
        main["res"] = fill_expr(main["res"], sol)
    return p


# ---------------------------------------------------------------------------
# comparison with the rule (Python only compares)
# ---------------------------------------------------------------------------
FAMILY = set(range(330, 336)) | set(range(500, 600))


def compare_case(case, obs):
    """-> list of (kind, what, message); `case` carries R's verdict v and solution sol"""
    out = []
    if obs.get("panic"):
        return [("infer-panic", "panic=" + obs["panic"], "the compiler panicked: %s" % obs["panic"])]
    if obs.get("silent"):
        return [("infer-silent", "silent", "compilation failed without any diagnostic")]
    v = case["v"]
    if obs["ok"]:
        if v == "reject":
            out.append(("infer-accepted-illtyped", "accepted-illtyped",
                        "the constraints of this body are unsatisfiable (or the solved program breaks an operator rule), yet it is accepted"))
        elif v == "undet":
            out.append(("infer-accepted-undetermined", "accepted-undetermined",
                        "nothing determines the type of some declaration / literal (errors.md E581/E582), yet the body is accepted"))
        types = obs.get("types", {}).get("run", {})
        for n, s in sol_map(case).items():
            if s["c"] not in NOT_A_TYPE and types.get(n) != s["c"]:
                out.append(("infer-wrong-type", "wrong-type %s:%s!=%s" % (n, types.get(n), s["c"]),
                            "node %s resolved as %s, the unique solution is %s" % (n, types.get(n), s["c"])))
        for f, sfx, t in obs.get("sfxbad", []):
            out.append(("infer-suffix-ignored", "suffix-ignored %s->%s" % (sfx, t), "a literal with suffix %s resolved as %s" % (sfx, t)))
    else:
        codes = sorted(set(c for c, _ in obs["diags"]))
        if v == "accept":
            out.append(("infer-rejected-determined", "rejected-determined",
                        "every type is determined within the documented propagation distance and the solved program is well typed, "
                        "yet the body is rejected: %s" % obs["diags"]))
        elif v in ("reject", "undet") and not (set(codes) & FAMILY):
            out.append(("infer-wrong-code", "wrong-code %s" % codes, "rejected, but with no E33x/E5xx diagnostic: %s" % obs["diags"]))
    return out


def diag_tags(case, obs, nhelpers, npre):
    """where the diagnostics of a rejected body are, as statement shapes (for narrow known-finding keys)"""
    untyped = set(it["x"] for it in case["b"] if it["k"] == "V" and "ty" not in it)
    first = 4 * nhelpers + 3 + npre          # source line of the first generated statement
    tags = []
    for code, line in obs.get("diags", []):
        i = line - first
        if 0 <= i < len(case["b"]):
            tags.append("E%d@%s" % (code, shape_item(case["b"][i], untyped)))
        elif i == len(case["b"]) + len(untyped) + 1:
            tags.append("E%d@return %s" % (code, shape_expr(case["res"], untyped)))
        else:
            tags.append("E%d@line%d" % (code, line))
    sol = sol_map(case)

    def hints(e):
        if e["k"] == "as":
            inner = e["e"]
            t = None
            if inner["k"] == "var" and inner["x"] in sol:
                t = sol[inner["x"]]["c"]
            elif inner["k"] == "lit" and "id" in inner:
                t = sol[inner["id"]]["c"]
            elif inner["k"] == "bin" and inner["l"]["k"] == "var" and inner["l"]["x"] in sol:
                t = sol[inner["l"]["x"]]["c"]
            if t is not None and t != e["t"]:
                return True
        return any(hints(e[f]) for f in ("l", "r", "e", "i") if f in e and isinstance(e[f], dict)) or \
            any(hints(a) for a in e.get("args", []))
    exprs = []
    for it in case["b"]:
        if "e" in it:
            exprs.append(it["e"])
        if "c" in it:
            exprs += [it["c"]["l"], it["c"]["r"]]
    if any(hints(e) for e in exprs):
        tags.append("[casthint]")
    return sorted(set(tags))


def drift_case(case, obs):
    if obs.get("panic") or obs.get("silent"):
        return None
    if case["mok"] != obs["ok"]:
        return "model %s (%s), compiler %s %s" % ("accepts" if case["mok"] else "rejects", case["mwhy"],
                                                  "accepts" if obs["ok"] else "rejects", obs["diags"])
    if obs["ok"]:
        types = obs.get("types", {}).get("run", {})
        for n, t in case["mt"]:
            if types.get(n) != t:
                return "model resolves %s as %s, compiler as %s" % (n, t, types.get(n))
    return None


# ---------------------------------------------------------------------------
# 1 + 2: model checking, replay of every case
# ---------------------------------------------------------------------------
def mc_and_replay(rep, tier, seed, selftest, stats):
    rnd = random.Random(seed)
    totals = collections.Counter()
    verdicts = collections.Counter()
    nontrivial = set()
    samples = []
    selftests = {}
    agree = modelled = 0
    invariants_ok = True
    exec_jobs = []          # (case, program, twin)
    states = transitions = 0
    for cfg in MC_CFGS[tier]:
        r = common.tlc("MC_Inference", cfg, workers=4, timeout={"quick": 300, "thorough": 1500}[tier], heap="4g",
                       tag=tag(cfg[len("MC_Inference_"):-4]), keep_output=False)
        states += r.distinct
        transitions += r.generated
        log("[tlc] MC_Inference/%s: %d states, %d cases, %.1fs, %s" %
            (cfg, r.distinct, len(r.cases), r.wall, "A |= R1, R-undet, R2 on every body" if r.ok else "INVARIANT %s VIOLATED" % r.violated))
        if not r.ok:
            invariants_ok = False
            log("[tlc] counterexample tail:\n" + r.tail[-2000:])
        notes = [n[1] for n in r.notes if n[0] == "NOTE"]
        if not notes or not r.cases:
            raise common.ToolError("TLC emitted no cases / no prelude note for %s" % cfg)
        note = notes[0]
        cases = r.cases
        del r
        inp = os.path.join(common.WORK, tag("cases") + ".ndjson")
        outp = os.path.join(common.WORK, tag("obs") + ".ndjson")
        with open(inp, "w") as f:
            for c in cases:
                f.write(json.dumps({"p": assemble(c, note)}, separators=(",", ":")) + "\n")
        common.pvh(["replay", inp, outp], exe_name=EXE, env={"PVH_THREADS": threads()})
        observations = common.read_ndjson(outp)
        if len(observations) != len(cases):
            raise common.ToolError("replay returned %d observations for %d cases" % (len(observations), len(cases)))
        nh, npre = len(note["helpers"]), len(note["pre"])
        before = len(rep.violations)
        for c, o in zip(cases, observations):
            verdicts[c["v"]] += 1
            totals["accepted" if o["ok"] else "rejected"] += 1
            text = case_text(c)
            if c["v"] != "accept" or any(s[2] > 1 for s in c["sol"]):
                nontrivial.add(text)
            if o["ok"] and not o.get("litok", True):
                raise common.ToolError("literal positions of the resolved tree do not match the rendering: %s (%s)" % (text, o.get("litcount")))
            for kind, what, msg in compare_case(c, o):
                key = "%s :: %s" % (text, what)
                if what == "rejected-determined":
                    # where the diagnostics are (statement shapes) and which candidate repair of the algorithm model
                    # (InferenceAlg.tla, fx) would make the model accept: known findings are matched by that label
                    key += " " + " ".join(diag_tags(c, o, nh, npre)) + " [repair:%s]" % (c.get("fix") or "?")
                rep.violation(kind, key, {"case": c, "note": note, "observed": o, "message": msg,
                                          "how": "python3 -m checks.infer_part --replay <this file>"})
            modelled += 1
            d = drift_case(c, o)
            if d:
                rep.note_drift("%s: %s" % (text, d))
            else:
                agree += 1
            if o["ok"] and all(s[1] not in NOT_A_TYPE for s in c["sol"]) and not has_variable_index(c):
                exec_jobs.append((c, note))
        log("[replay] %s: %d bodies compiled by the real front end, %d new violations" % (cfg, len(cases), len(rep.violations) - before))
        if selftest and not selftests:
            selftests = replay_selftest(cases, observations)
        for i in sorted(rnd.sample(range(len(cases)), min(2, len(cases)))):
            samples.append({"case": case_text(cases[i]), "rule": cases[i]["v"], "solution": cases[i]["sol"],
                            "observed": {k: observations[i][k] for k in ("ok", "diags", "types") if k in observations[i]}})
        for f in (inp, outp):          # (a replay file carries everything needed to reproduce a violation)
            if os.path.exists(f):
                os.remove(f)
        del cases, observations
    stats.update({"verdicts": dict(verdicts), "replayed": sum(verdicts.values()), "outcomes": dict(totals),
                  "model_agreement": "%d/%d" % (agree, modelled), "invariants_hold": invariants_ok,
                  "states": states, "transitions": transitions, "nontrivial": len(nontrivial)})
    for need in ("accept", "reject", "undet"):
        if not verdicts[need]:
            raise common.ToolError("vacuity: no %s case was generated" % need)
    return exec_jobs, samples, selftests


def replay_selftest(cases, observations):
    """corrupt one expected type and one expected verdict: the comparison must notice"""
    out = {}
    ia = next((i for i, (c, o) in enumerate(zip(cases, observations))
               if o["ok"] and c["v"] == "accept" and any(s[1] not in NOT_A_TYPE for s in c["sol"])), None)
    if ia is not None:
        c = json.loads(json.dumps(cases[ia]))
        for s in c["sol"]:
            if s[1] not in NOT_A_TYPE:
                s[1] = "i64" if s[1] != "i64" else "u8"
                break
        out["corrupted_expected_type_detected"] = any(k == "infer-wrong-type" for k, _, _ in compare_case(c, observations[ia]))
        o = json.loads(json.dumps(observations[ia]))
        n = next(s[0] for s in cases[ia]["sol"] if s[1] not in NOT_A_TYPE)
        o["types"]["run"][n] = "u64"
        out["corrupted_recorded_type_detected"] = any(k == "infer-wrong-type" for k, _, _ in compare_case(cases[ia], o))
        out["flipped_accept_detected"] = bool(compare_case(dict(cases[ia], v="reject"), observations[ia]))
    ir = next((i for i, (c, o) in enumerate(zip(cases, observations)) if not o["ok"] and c["v"] == "reject"), None)
    if ir is not None:
        out["flipped_reject_detected"] = bool(compare_case(dict(cases[ir], v="accept"), observations[ir]))
    return out


# ---------------------------------------------------------------------------
# 2b: behaviour -- the erased program and its twin print the same
# ---------------------------------------------------------------------------
def execute_twins(rep, tier, seed, exec_jobs, stats):
    rnd = random.Random(seed + 1)
    jobs = exec_jobs if len(exec_jobs) <= EXEC_SAMPLE[tier] else rnd.sample(exec_jobs, EXEC_SAMPLE[tier])
    inp = os.path.join(common.WORK, tag("exec") + ".ndjson")
    outp = os.path.join(common.WORK, tag("execout") + ".ndjson")
    progs = []
    with open(inp, "w") as f:
        for c, note in jobs:
            p = assemble(c, note)
            t = twin_of(p, sol_map(c))
            progs.append((p, t))
            f.write(json.dumps({"p": p, "x": True}, separators=(",", ":")) + "\n")
            f.write(json.dumps({"p": t, "x": True}, separators=(",", ":")) + "\n")
    common.pvh(["replay", inp, outp], exe_name=EXE, env={"PVH_THREADS": threads()}, timeout=3000)
    res = common.read_ndjson(outp)
    same = differ = 0
    machine = []
    for k, (c, note) in enumerate(jobs):
        e, t = res[2 * k], res[2 * k + 1]
        for x in (e, t):
            if "toolerror" in x.get("run", {}):
                raise common.ToolError("pvh_infer: %s" % x["run"]["toolerror"])
        text = case_text(c)
        if not t["ok"]:
            rep.violation("infer-twin-rejected", "%s :: twin-rejected" % text,
                          {"case": c, "note": note, "observed": t, "message": "the fully annotated twin (the solved program) is rejected: %s" % t["diags"]})
            continue
        re_, rt = e.get("run", {}), t.get("run", {})
        if re_.get("stdout") == rt.get("stdout") and re_.get("exit") == rt.get("exit") and "stdout" in re_:
            same += 1
            machine.append((progs[k][1], rt))
        else:
            differ += 1
            rep.violation("infer-output-differs", "%s :: output-differs" % text,
                          {"case": c, "note": note, "erased": re_, "twin": rt,
                           "message": "the body and its fully annotated twin behave differently"})
    stats.update({"executed_pairs": len(jobs), "same_output": same, "different_output": differ})
    log("[exec] %d accepted bodies executed with their annotated twins: %d identical, %d different" % (len(jobs), same, differ))
    for f in (inp, outp):
        if os.path.exists(f):
            os.remove(f)
    return machine


def cleanup_machine_files(prefix):
    """the recordings / TLC outputs machine_trace.validate leaves under work/"""
    import glob
    for f in glob.glob(os.path.join(common.WORK, prefix + "-*trace*.ndjson")) + glob.glob(os.path.join(common.WORK, "tr-" + prefix + "-*.out")):
        try:
            os.remove(f)
        except OSError:
            pass


def machine_oracle(rep, tier, seed, machine, stats):
    """a few twins against Machine.tla (Trace_Machine): the oracle of the annotated program"""
    from . import machine_trace
    rnd = random.Random(seed + 2)
    pick = machine if len(machine) <= MACHINE_SAMPLE[tier] else rnd.sample(machine, MACHINE_SAMPLE[tier])
    if not pick:
        stats["machine_validated"] = 0
        return
    programs = [p for p, _ in pick]
    results = [{"results": [{"stdout": r["stdout"], "exit": r["exit"]}]} for _, r in pick]
    lines, where, direct = machine_trace.build_trace(programs, results)
    accepted, trivial, rejections, states = machine_trace.validate(lines, where, tag("mach"), chunks=4)
    for i, block, off in rejections:
        rep.violation("infer-twin-machine", "twin %d :: machine-rejects" % i,
                      {"program": programs[i], "result": results[i], "message": "Machine.tla does not produce the recorded output of the annotated twin"})
    cleanup_machine_files(tag("mach"))
    stats.update({"machine_validated": accepted, "machine_trivial": len(trivial), "machine_states": states})
    log("[machine] %d twins validated by Trace_Machine (%d trivial, %d rejected)" % (accepted, len(trivial), len(rejections)))


# ---------------------------------------------------------------------------
# 3: impl -> spec
# ---------------------------------------------------------------------------
def bad_lines(result):
    bad, verdicts = {}, {}
    for line in open(result["output"], errors="replace"):
        if line.startswith('<<"BAD", '):
            m = re.match(r'<<"BAD", (\d+), "([^"]*)">>', line)
            if m:
                bad[int(m.group(1))] = m.group(2)
        elif line.startswith('<<"VERDICT", '):
            m = re.match(r'<<"VERDICT", (\d+), "([^"]*)">>', line)
            if m:
                verdicts[int(m.group(1))] = m.group(2)
    return bad, verdicts


NAKED_LEFT = re.compile(r"(?<![\w.])\d+\s*(==|!=|<=|>=|[-+*/%&|^<>])")


def line_tags(source, diags, sites=()):
    """what the diagnosed lines of a rejected random program look like (for narrow known-finding keys)"""
    lines = source.split("\n")
    tags = set()
    erased = [re.escape(s["node"]) for s in sites if s["kind"] == "decl"]
    untyped_left = re.compile(r"(?<![\w.])(%s)\)*\s*(==|!=|<=|>=|[-+*/%%&|^<>])" % "|".join(erased)) if erased else None
    for code, ln in diags:
        text = lines[ln - 1] if 0 < ln <= len(lines) else ""
        t = []
        if NAKED_LEFT.search(text):
            t.append("naked-left")
        if untyped_left is not None and untyped_left.search(text) and not text.startswith("var "):
            t.append("untyped-left")
        if erased and re.match(r"var (%s) = " % "|".join(erased), text):
            t.append("erased-decl")      # E581 at the declaration of a variable whose only uses are untyped-left ones
        if " as " in text:
            t.append("cast")
        tags.add("E%d[%s]" % (code, "+".join(t) or "other"))
    return sorted(tags)


def random_erasure(rep, tier, seed, selftest, stats):
    count, max_sites = RANDOM[tier]
    gen = os.path.join(common.WORK, tag("gen") + ".ndjson")
    era = os.path.join(common.WORK, tag("erased") + ".ndjson")
    common.pvh(["gen", count, seed, gen], exe_name="pvh_machine")
    common.pvh(["erase", gen, era, seed, max_sites], exe_name=EXE)
    originals = common.read_ndjson(gen)
    erased = common.read_ndjson(era)
    inp = os.path.join(common.WORK, tag("rin") + ".ndjson")
    outp = os.path.join(common.WORK, tag("rout") + ".ndjson")
    with open(inp, "w") as f:
        for o, e in zip(originals, erased):
            f.write(json.dumps({"p": e["p"], "x": True, "src": True}, separators=(",", ":")) + "\n")
            f.write(json.dumps({"p": o, "x": True}, separators=(",", ":")) + "\n")
    common.pvh(["replay", inp, outp], exe_name=EXE, env={"PVH_THREADS": threads()}, timeout=3000)
    res = common.read_ndjson(outp)
    records = []
    extra = {}
    skipped = 0
    site_kinds = collections.Counter()
    for i, (o, e) in enumerate(zip(originals, erased)):
        re_, rt = res[2 * i], res[2 * i + 1]
        for x in (re_, rt):
            if "toolerror" in x.get("run", {}):
                raise common.ToolError("pvh_infer: %s" % x["run"]["toolerror"])
        if not e["sites"] or not rt["ok"] or "stdout" not in rt.get("run", {}):
            skipped += 1        # nothing erased / the annotated original is not accepted or does not run: C01's business
            continue
        if re_["ok"] and not re_.get("litok", True):
            raise common.ToolError("literal positions of the resolved tree do not match the rendering (random program %d: %s)" % (i, re_.get("litcount")))
        for s in e["sites"]:
            site_kinds[s["kind"]] += 1
        rec = {"ev": "prog", "i": i, "p": e["p"], "ok": re_["ok"], "codes": sorted(set(c for c, _ in re_["diags"]))}
        if re_.get("panic"):
            rec["panic"] = re_["panic"]
        if re_.get("silent"):
            rec["silent"] = True
        types = []
        for f, m in re_.get("types", {}).items():
            for n, t in m.items():
                types.append([f, n, t])
        rec["types"] = types
        if re_["ok"]:
            a, b = re_.get("run", {}), rt["run"]
            rec["same"] = "yes" if (a.get("stdout") == b.get("stdout") and a.get("exit") == b.get("exit") and "stdout" in a) else "no"
        else:
            rec["same"] = "na"
        records.append((rec, e["sites"]))
        extra[i] = {"source": re_.get("source", ""), "diags": re_["diags"], "twin": o, "twin_run": rt.get("run", {})}
    chunks = max(1, min(6, len(records) // 40))
    per = (len(records) + chunks - 1) // chunks
    files = []
    for c in range(chunks):
        part = records[c * per:(c + 1) * per]
        if part:
            path = os.path.join(common.WORK, "%s.%d.ndjson" % (tag("trace"), c))
            common.write_ndjson(path, [r for r, _ in part])
            files.append((path, part))
    results = common.tlc_traces("Trace_Inference", "Trace_Inference.cfg", [f for f, _ in files],
                                timeout={"quick": 600, "thorough": 3000}[tier], parallel=4)
    by = {r["file"]: r for r in results}
    verdicts = collections.Counter()
    accepted_lines = 0
    tstates = 0
    pending = []
    for path, part in files:
        r = by[path]
        tstates += r.get("states", 0)
        if r["matched"] != r["total"]:
            raise common.ToolError("trace validation stopped at line %d of %s" % (r["matched"] + 1, path))
        bad, vs = bad_lines(r)
        if os.path.exists(r["output"]):
            os.remove(r["output"])
        for ln, v in vs.items():
            verdicts[v] += 1
        accepted_lines += r["total"] - len(bad)
        for ln, why in bad.items():
            rec, sites = part[ln - 1]
            pending.append((why, rec, sites))
    # an `output-differs` line only counts if the annotated twin has defined behaviour: Machine.tla decides
    differs = [x for x in pending if x[0] == "output-differs"]
    ub = set()
    if differs:
        from . import machine_trace
        programs = [extra[rec["i"]]["twin"] for _, rec, _ in differs]
        results = [{"results": [{"stdout": extra[rec["i"]]["twin_run"]["stdout"], "exit": extra[rec["i"]]["twin_run"]["exit"]}]} for _, rec, _ in differs]
        lines, where, direct = machine_trace.build_trace(programs, results)
        accepted, trivial, rejections, states = machine_trace.validate(lines, where, tag("ub"), chunks=2)
        cleanup_machine_files(tag("ub"))
        for k in trivial:
            ub.add(differs[k][1]["i"])
        for k, block, off in rejections:
            ub.add(differs[k][1]["i"])       # the twin itself does not behave as Machine.tla says: C01's business
    for why, rec, sites in pending:
        if why == "output-differs" and rec["i"] in ub:
            stats["random_undefined_behaviour_skipped"] = stats.get("random_undefined_behaviour_skipped", 0) + 1
            continue
        sig = " ".join("%s:%s:%s" % (s["f"] if s["f"] == "main" else "fn", s["kind"], s["was"]) for s in sites)
        key = "random %s :: %s codes=%s" % (sig, why, rec["codes"])
        if why == "rejected-determined":
            key += " " + " ".join(line_tags(extra[rec["i"]]["source"], extra[rec["i"]]["diags"], sites))
        rep.violation("infer-" + why, key,
                      {"record": {k: rec[k] for k in rec if k != "p"}, "program": rec["p"], "sites": sites,
                       "message": "Trace_Inference (TLC) rejects this recorded line: %s" % why,
                       "how": "python3 -m checks.infer_part --replay <this file>"})
    selftests = {}
    if selftest and files:
        selftests = trace_selftest(files[0])
    stats.update({"random_programs": len(records), "random_skipped": skipped, "random_sites": dict(site_kinds),
                  "random_verdicts": dict(verdicts), "random_lines_accepted": accepted_lines, "trace_states": tstates,
                  "random_accepted_by_compiler": sum(1 for r, _ in records if r["ok"])})
    log("[trace] %d erased random programs (%s sites) validated by TLC: verdicts %s, %d lines accepted" %
        (len(records), dict(site_kinds), dict(verdicts), accepted_lines))
    for f in [gen, era, inp, outp] + [p for p, _ in files]:
        if os.path.exists(f):
            os.remove(f)
    return selftests


def trace_selftest(file_and_part):
    """corrupt a recorded type / a recorded verdict in a copy of a recording: TLC must flag exactly that line"""
    path, part = file_and_part
    out = {}
    tests = []
    for idx, (rec, sites) in enumerate(part):
        if rec["ok"] and rec["types"] and any(s["kind"] == "decl" for s in sites) and "wrong" not in [t[0] for t in tests]:
            r2 = json.loads(json.dumps(rec))
            for t in r2["types"]:
                if any(s["node"] == t[1] and s["f"] == t[0] for s in sites):
                    t[2] = "u64" if t[2] != "u64" else "i8"
            tests.append(("wrong", "corrupted_recorded_type_flagged", idx, r2))
        if not rec["ok"] and "flip" not in [t[0] for t in tests]:
            r2 = json.loads(json.dumps(rec))
            r2["ok"] = True
            r2["same"] = "yes"
            tests.append(("flip", "accepted_undetermined_flagged", idx, r2))
    files = []
    for _, name, idx, r2 in tests:
        p = os.path.join(common.WORK, tag("selftest-" + name) + ".ndjson")
        lo = max(0, idx - 3)
        recs = [r for r, _ in part[lo:idx]] + [r2] + [r for r, _ in part[idx + 1:idx + 3]]
        common.write_ndjson(p, recs)
        files.append((name, p, idx - lo + 1))
    if not files:
        return out
    res = common.tlc_traces("Trace_Inference", "Trace_Inference.cfg", [p for _, p, _ in files], timeout=600, parallel=2)
    by = {r["file"]: r for r in res}
    for name, p, corrupted in files:
        bad, _ = bad_lines(by[p])
        if os.path.exists(by[p]["output"]):
            os.remove(by[p]["output"])
        # (a flipped rejected line is only necessarily bad if the rule says undet/reject; otherwise it checks the types)
        out[name] = corrupted in bad
        os.remove(p)
    return out


# ---------------------------------------------------------------------------
C07_KINDS = {"infer-accepted-illtyped", "infer-accepted-undetermined", "infer-wrong-type", "infer-suffix-ignored",
             "infer-panic", "infer-silent", "infer-wrong-code", "infer-twin-rejected"}


class _Filtered:
    """a view of a Report that passes on only the violation kinds of one property (everything else is counted)"""

    def __init__(self, rep, kinds):
        self._rep, self._kinds, self.dropped = rep, kinds, collections.Counter()

    def violation(self, kind, key, detail):
        if kind in self._kinds:
            return self._rep.violation(kind, key, detail)
        self.dropped[kind] += 1
        return False

    def __getattr__(self, name):
        return getattr(self._rep, name)


def run_part(rep, tier, seed, selftest, focus=None):
    """-> coverage dict (keys prefixed infer_); violations are reported through rep.violation.
    focus=None: everything (C01: acceptance R3, behaviour, types; C07: R1, R2).
    focus="C07": model checking + replay of every case only, and only the kinds that concern C07 (an accepted ill-typed /
    undetermined body, a wrong resolved type, an ignored suffix, panic, silent failure); no execution, no random part."""
    t0 = time.time()
    if focus == "C07":
        rep = _Filtered(rep, C07_KINDS)
    common.build_harness(EXE)
    common.build_harness("pvh_machine")
    os.makedirs(common.WORK, exist_ok=True)
    selftest = selftest or tier == "thorough"
    stats = {}
    if os.environ.get("INFER_ONLY") == "random":      # debugging aid: only the impl -> spec part
        st2 = random_erasure(rep, tier, seed, selftest, stats)
        return {"infer_debug": stats}
    exec_jobs, samples, st1 = mc_and_replay(rep, tier, seed, selftest, stats)
    st2 = {}
    if focus != "C07":
        machine = execute_twins(rep, tier, seed, exec_jobs, stats)
        machine_oracle(rep, tier, seed, machine, stats)
        st2 = random_erasure(rep, tier, seed, selftest, stats)
    else:
        stats["kinds_left_to_C01"] = dict(rep.dropped)
    if selftest:
        # design level: does the model of the pinned algorithm accept every documented pattern (R3)?  TLC alone finds
        # the counterexample `var a = 100i32; if 100 == ti32 goto end;` while finding F-I1 is open (no tool error either way:
        # the invariant holds once typer.rs and the model are repaired)
        r = common.tlc("MC_Inference", "MC_Inference_defect.cfg", workers=4, timeout=300, heap="4g", tag=tag("defect"), keep_output=False)
        stats["acomplete"] = "violated (F-I1 / F-I2: the modelled algorithm rejects a documented pattern)" if r.violated == "AComplete" else \
            ("holds" if r.ok else "other: %s" % r.violated)
        log("[tlc] MC_Inference_defect.cfg (A |= R3, expected to fail while F-I1 is open): %s" % stats["acomplete"])
    selftests = dict(st1)
    selftests.update(st2)
    for name, ok in selftests.items():
        if not ok:
            raise common.ToolError("inference self-test %s failed: the binding does not detect a corrupted expectation / recording" % name)
    if selftests:
        log("[selftest] infer %s" % json.dumps(selftests))
    rv = stats.get("random_verdicts", {})
    cov = {
        "infer_states": stats["states"],
        "infer_transitions": stats["transitions"],
        "infer_cases_replayed": stats["replayed"],
        "infer_rule_verdicts": stats["verdicts"],
        "infer_compiler_outcomes": stats["outcomes"],
        "infer_distinct_nontrivial": stats["nontrivial"],
        "infer_model_invariants_hold": stats["invariants_hold"],
        "infer_model_agreement": stats["model_agreement"],
        "infer_design_level_R3": stats.get("acomplete", "not run in this tier"),
        "infer_executed_pairs": stats.get("executed_pairs", 0),
        "infer_same_output": stats.get("same_output", 0),
        "infer_machine_validated_twins": stats.get("machine_validated", 0),
        "infer_random_programs": stats.get("random_programs", 0),
        "infer_random_sites": stats.get("random_sites", {}),
        "infer_random_verdicts": rv,
        "infer_random_lines_accepted": stats.get("random_lines_accepted", 0),
        "infer_trace_states": stats.get("trace_states", 0),
        "infer_vacuity": {"determined": stats["verdicts"].get("accept", 0) + stats["verdicts"].get("free", 0),
                          "conflicting": stats["verdicts"].get("reject", 0), "undetermined": stats["verdicts"].get("undet", 0),
                          "random_determined": rv.get("accept", 0) + rv.get("free", 0), "random_undetermined": rv.get("undet", 0)},
        "infer_selftests": selftests,
        "infer_focus": focus or "all",
        "infer_kinds_left_to_C01": stats.get("kinds_left_to_C01", {}),
        "infer_samples": samples[:6],
        "infer_wall_s": round(time.time() - t0, 1),
        "infer_rule": "Inference.tla: per function the constraint system of unannotated declarations and naked literals "
                      "(operands identical, assignment/initialisation identical, argument = parameter, return value = return type, "
                      "index = usize, `as T` says nothing about its operand, literal = integer), solved by propagation over connected "
                      "components; verdict reject (conflict) / undet (E581/E582) / accept (every node within distance 2 resp. 3 of a "
                      "typed thing) / free / unc; TLC evaluates it on every enumerated body (MC_Inference) and on every recorded "
                      "random program (Trace_Inference); resolved types come from the resolved tree of the real front end.",
    }
    return cov


ASSUMPTIONS = [
    "TLC's evaluation of Inference.tla is the oracle; the model of typer.rs (InferenceAlg.tla) only yields MODEL-DRIFT notes",
    "acceptance is demanded (R3) only within the documented propagation distance (variable <= 2, literal <= 3 equalities from something typed); beyond it acceptance is unconstrained, R1/R2 still apply",
    "a cast `e as T` says nothing about e (errors.md E583); a class that is undetermined but for such a hint is unconstrained",
    "naked literals of the resolved tree are matched with the rendering by source position (a count mismatch is a tool error)",
]


def replay(path):
    d = json.load(open(path))
    detail = d.get("detail", {})
    print("kind=%s key=%s" % (d.get("kind"), d.get("key")))
    print(detail.get("message", ""))
    if "case" in detail:
        c = detail["case"]
        p = assemble(c, detail["note"])
        tmp = os.path.join(common.WORK, tag("replay") + ".json")
        json.dump({"p": p}, open(tmp, "w"))
        out = common.pvh(["show", "@" + tmp, "--run"], exe_name=EXE)
        print(out.stdout)
        print("rule: verdict=%s solution(node, class, distance, literal, cast hint)=%s" % (c["v"], c["sol"]))
        print("model: accepts=%s %s types=%s" % (c["mok"], c["mwhy"], c["mt"]))
        os.remove(tmp)
    elif "program" in detail:
        tmp = os.path.join(common.WORK, tag("replay") + ".json")
        json.dump({"p": detail["program"]}, open(tmp, "w"))
        out = common.pvh(["show", "@" + tmp, "--run"], exe_name=EXE)
        print(out.stdout)
        print("erased sites:", json.dumps(detail.get("sites")))
        print("recorded:", json.dumps(detail.get("record")))
        print("(the rule of spec/Inference.tla on this record is evaluated by TLC: Trace_Inference.tla)")
        os.remove(tmp)
    else:
        print(json.dumps(detail, indent=1)[:4000])
    return 0


def main(argv):
    import argparse
    ap = argparse.ArgumentParser(description="standalone runner of the inference part (scratch report id INFER, evidence under work/)")
    ap.add_argument("--tier", default="quick", choices=["quick", "thorough"])
    ap.add_argument("--seed", type=int, default=int(os.environ.get("VERIF_SEED", "1")))
    ap.add_argument("--selftest", action="store_true")
    ap.add_argument("--replay")
    ap.add_argument("--property", default="INFER", help="report id (C01 / C07 to match their known findings)")
    ap.add_argument("--focus", default=None, choices=["C07"], help="only what C07 needs (see run_part)")
    a = ap.parse_args(argv)
    if a.replay:
        return replay(a.replay)
    # scratch report: evidence and replays under work/, nothing registered
    common.EVIDENCE = os.path.join(common.WORK, "infer-evidence")
    common.REPLAYS = os.path.join(common.WORK, "infer-replays")
    rep = common.Report(a.property, a.tier, a.seed)
    # every violation key of the run (also those beyond the first 50 replay files) for classification
    keys_path = os.path.join(common.WORK, "infer-violation-keys.txt")
    keys_file = open(keys_path, "w")
    plain = rep.violation

    def logging_violation(kind, key, detail):
        new = plain(kind, key, detail)
        keys_file.write("%s\t%s\t%s\n" % ("NEW" if new else "KNOWN", kind, key))
        return new
    rep.violation = logging_violation
    try:
        cov = run_part(rep, a.tier, a.seed, a.selftest, a.focus)
    except common.ToolError as e:
        print("TOOL-ERROR infer: %s" % e)
        return 2
    if "infer_debug" in cov:
        print(json.dumps(cov))
        return 1 if rep.violations else 0
    coverage = {"states": cov["infer_states"], "transitions": cov["infer_transitions"],
                "traces_validated_against_impl": cov["infer_cases_replayed"] + cov["infer_random_lines_accepted"],
                "samples": cov["infer_samples"], "evaluations": cov["infer_cases_replayed"] + cov["infer_random_programs"],
                "distinct_nontrivial": cov["infer_distinct_nontrivial"], "rule": cov["infer_rule"]}
    coverage.update(cov)
    return rep.finish("model_checking", coverage, ASSUMPTIONS)


if __name__ == "__main__":
    sys.exit(main(sys.argv[1:]))

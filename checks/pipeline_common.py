"""Shared machinery of the `pipeline` group (C02 C03 C13 C18): building the real `penne` binary
outside /repo, assembling the input space (TLC-emitted token sequences and module sets, seeded
generators of the harness), one isolated worker run per (tier, seed, tree state) shared through a
cache under work/pipeline-cache-*, and trace validation with reject-and-resume."""
import fcntl
import hashlib
import json
import os
import re
import shutil
import subprocess
import sys
import threading
import time

from . import common
from .common import log, ToolError

EXE = "pvh_pipeline"
RUN_FORMAT = 5      # bump when the way cases are assembled / rendered in this file changes
THREADS = os.environ.get("PVH_THREADS", "6")
TLC_WORKERS = int(os.environ.get("PIPELINE_TLC_WORKERS", "4"))


def pvh(args, timeout=3600, check=True, env=None):
    e = {"PVH_THREADS": THREADS, "PENNE_REPO": common.REPO}
    if env:
        e.update(env)
    return common.pvh(args, timeout=timeout, check=check, env=e, exe_name=EXE)


def repo_tag():
    return hashlib.sha1(os.path.realpath(common.REPO).encode()).hexdigest()[:10]


def repo_state():
    """git HEAD + hash of the working-tree diff of the repository under test"""
    def git(*a):
        return subprocess.run(["git", "-C", common.REPO] + list(a), stdout=subprocess.PIPE, stderr=subprocess.DEVNULL,
                              text=True).stdout
    head = git("rev-parse", "HEAD").strip()
    diff = git("diff", "HEAD")
    untracked = git("ls-files", "--others", "--exclude-standard")
    return head[:12] + "-" + hashlib.sha1((diff + untracked).encode()).hexdigest()[:10]


def assert_same_tree(state0):
    """the lead commits fixes to the repository while checks run: a run that straddles a commit compares
    binaries of two different trees and must not report anything"""
    now = repo_state()
    if now != state0:
        raise ToolError("the repository under test changed during the run (%s -> %s): run the check again" % (state0, now))


def harness_state():
    h = hashlib.sha1()
    base = os.path.join(common.VERIF, "harness", "src")
    for rel in ["bin/pvh_pipeline.rs", "pipeline/drive.rs", "pipeline/gen.rs"]:
        h.update(open(os.path.join(base, rel), "rb").read())
    for rel in ["PipelineTokens.tla", "MC_Pipeline.tla", "Pipeline.tla"]:
        h.update(open(os.path.join(common.SPEC, rel), "rb").read())
    h.update(json.dumps([RUN_FORMAT, TIERS], sort_keys=True).encode())
    return h.hexdigest()[:10]


# ---------------------------------------------------------------------------
# the real binary
# ---------------------------------------------------------------------------
_penne = {}


def build_penne(profile="release"):
    """cargo build --features alpha,llvm-sys into a target dir outside the repository.  The CLI-level
    observations use the optimised build (what `cargo install` gives users): the unoptimised build
    overflows its 8 MiB stack at nesting depths of 31..64, which says nothing about the compiler."""
    if (common.REPO, profile) in _penne:
        return _penne[(common.REPO, profile)]
    # scratch trees (PENNE_REPO != /repo: mutation and seed runs) build next to the scratch copy of the harness, so that
    # removing /tmp/pvh-<tag> (tools/run_seed.sh does) removes this target dir too
    target = (os.path.join(common.WORK, "pipeline-target") if os.path.realpath(common.REPO) == "/repo"
              else os.path.join("/tmp", "pvh-" + repo_tag(), "penne-target"))
    os.makedirs(target, exist_ok=True)
    t0 = time.time()
    with open(os.path.join(target, ".pipeline-lock"), "w") as lock:
        fcntl.flock(lock, fcntl.LOCK_EX)
        p = subprocess.run(["cargo", "build", "--offline", "--quiet", "--features", "alpha,llvm-sys"] +
                           (["--release"] if profile == "release" else []),
                           cwd=common.REPO, env=common.env_with_tools({"CARGO_TARGET_DIR": target}),
                           stdout=subprocess.PIPE, stderr=subprocess.STDOUT, text=True)
    if p.returncode != 0:
        sys.stdout.write(p.stdout[-4000:])
        raise ToolError("cargo build --features alpha,llvm-sys failed for %s" % common.REPO)
    exe = os.path.join(target, "release" if profile == "release" else "debug", "penne")
    log("[build] penne binary %s built in %.1fs" % (exe, time.time() - t0))
    _penne[(common.REPO, profile)] = exe
    return exe


# ---------------------------------------------------------------------------
# input space
# ---------------------------------------------------------------------------
def render_tokens(case, idx):
    toks = case["toks"]
    body = "\n".join(toks)
    if case["ctx"] == "body":
        src = "fn main()\n{\n" + body + ("\n" if toks else "") + "}\n"
    else:
        src = body + "\n"
    out = {"id": "tok%d" % idx, "kind": "tok:" + case["ctx"], "wasm": False,
           "mods": [{"name": "tok.pn", "src": src}], "toks": toks, "ctx": case["ctx"]}
    if case["expect"]["t"] == "lex":
        out["expect"] = case["expect"]
    return out


def render_set(case, idx):
    """A module set emitted by MC_Pipeline: declarations with a lexical fault, a syntax fault or none,
    resolved import pairs, unresolvable imports."""
    n = len(case["mods"])
    names = ["m%d.pn" % (m + 1) for m in range(n)]
    mods = []
    for m, decls in enumerate(case["mods"]):
        s = ""
        if (m + 1) in case["badimp"]:
            s += 'import "nosuch.pn";\n'
        for (i, j) in case["imports"]:
            if i == m + 1:
                s += 'import "%s";\n' % names[j - 1]
        if not decls and not s:
            s = "// an empty module\n"
        for i, d in enumerate(decls):
            head = ("pub " if d["pub"] else "") + "fn m%d_f%d" % (m + 1, i + 1)
            if d["fault"] == "lex":
                s += head + "(@) -> i32\n{\n\treturn: 1\n}\n"
            elif d["fault"] == "parse":
                s += head + "(x: i32 -> i32\n{\n\treturn: 1\n}\n"
            else:
                s += head + "(x: i32) -> i32\n{\n\treturn: x + %d\n}\n" % (i + 1)
        mods.append({"name": names[m], "src": s})
    exp = case["expect"]
    return {"id": "set%d" % idx, "kind": "set", "wasm": False, "mods": mods,
            "origin": json.dumps({"mods": case["mods"], "imports": case["imports"], "badimp": case["badimp"]},
                                 separators=(",", ":")),
            "expect": {"t": "set", "ok": exp["ok"], "codes": exp["codes"], "mod": exp["mod"]}}


TIERS = {
    # n_mut, n_soup, n_nest, n_fault, n_multi, n_line, n_struct; token cfgs; module-set cfg; statement-placement cfg
    "quick": dict(xgen=[150, 120, 2], gen=[9000, 1500, 480, 1200, 1500, 4000, 600], tok=["PipelineTokens_quick.cfg"], mc="MC_Pipeline_quick.cfg",
                  place="MC_Placement_quick.cfg"),
    "thorough": dict(xgen=[2500, 1200, 3], gen=[120000, 20000, 1440, 12000, 15000, 50000, 6000],
                     tok=["PipelineTokens_quick.cfg", "PipelineTokens_thorough3.cfg"], mc="MC_Pipeline_thorough.cfg",
                     place="MC_Placement_quick.cfg"),
}


def placement_items(case):
    """token kinds of spec/Placement.tla (S G LP L O C I E) -> items of harness/src/flat.rs, as checks/c06.py does:
    gotos target a final label z, labels get unique names"""
    out = []
    for i, k in enumerate(case["b"]):
        if k == "G":
            out.append("Gz")
        elif k == "L":
            out.append("Lq%d" % i)
        else:
            out.append(k)
    return out + ["Lz"]


def cache_dir(tier, seed):
    key = "%s-s%d-%s-%s" % (tier, seed, repo_state(), harness_state())
    return os.path.join(common.WORK, "pipeline-cache-" + key)


def _tlc(module, cfg, tag, timeout):
    r = common.tlc(module, cfg, workers=TLC_WORKERS, timeout=timeout, heap="6g",
                   tag="pipeline-%s-%s-%d" % (tag, cfg.replace(".cfg", ""), os.getpid()), keep_output=False)
    log("[tlc] %s/%s: %d states generated, %d distinct, %d cases, %.1fs, %s" %
        (module, cfg, r.generated, r.distinct, len(r.cases), r.wall,
         "no invariant violated" if r.ok else "INVARIANT %s VIOLATED" % r.violated))
    return r


def ensure_run(tier, seed):
    """Returns the meta dict of the worker run for this tier/seed/tree state, computing it if absent."""
    d = cache_dir(tier, seed)
    os.makedirs(common.WORK, exist_ok=True)
    lock_path = d + ".lock"
    with open(lock_path, "w") as lock:
        fcntl.flock(lock, fcntl.LOCK_EX)
        meta_path = os.path.join(d, "meta.json")
        if os.path.exists(meta_path):
            meta = json.load(open(meta_path))
            log("[cache] re-using the worker run %s (%d cases)" % (d, meta["cases"]))
            return meta
        # drop caches of older tree states of this tier (disk)
        for name in os.listdir(common.WORK):
            full = os.path.join(common.WORK, name)
            if name.startswith("pipeline-cache-%s-s%d-" % (tier, seed)) and full != lock_path:
                if os.path.isdir(full):
                    shutil.rmtree(full, ignore_errors=True)
                elif name.endswith(".lock"):
                    try:
                        os.remove(full)
                    except OSError:
                        pass
        tmp = d + ".tmp"
        shutil.rmtree(tmp, ignore_errors=True)
        os.makedirs(tmp)
        meta = _compute_run(tier, seed, tmp)
        json.dump(meta, open(os.path.join(tmp, "meta.json"), "w"), indent=1)
        os.rename(tmp, d)
        meta = json.load(open(meta_path))
        return meta


def _compute_run(tier, seed, d):
    cfg = TIERS[tier]
    common.build_harness(EXE)
    t0 = time.time()
    tlc_stats = {}
    cases = []
    # (a) every token sequence up to the bound, from TLC
    ntok = 0
    for tc in cfg["tok"]:
        r = _tlc("PipelineTokens", tc, "tok", 1500)
        if not r.ok:
            raise ToolError("PipelineTokens: %s violated" % r.violated)
        tlc_stats[tc] = {"generated": r.generated, "distinct": r.distinct, "cases": len(r.cases)}
        seen = set()
        for c in r.cases:
            key = (c["ctx"], tuple(c["toks"]))
            if key in seen:
                continue
            seen.add(key)
            cases.append(render_tokens(c, ntok))
            ntok += 1
    # (a') every module set up to the bound, from TLC (the protocol model)
    r = _tlc("MC_Pipeline", cfg["mc"], "mc", 3000)
    tlc_stats[cfg["mc"]] = {"generated": r.generated, "distinct": r.distinct, "cases": len(r.cases),
                            "ok": r.ok, "violated": r.violated}
    for i, c in enumerate(r.cases):
        cases.append(render_set(c, i))
    # (a'') every statement placement up to the bound (spec/Placement.tla of C06, read-only): compiled through the
    # WHOLE pipeline here, so that whatever the analyzers wrongly accept reaches the generator
    r = _tlc("MC_Placement", cfg["place"], "place", 1500)
    tlc_stats[cfg["place"]] = {"generated": r.generated, "distinct": r.distinct, "cases": len(r.cases)}
    items_path = os.path.join(d, "place-items.ndjson")
    place_path = os.path.join(d, "place-cases.ndjson")
    seen = set()
    with open(items_path, "w") as f:
        for c in r.cases:
            key = tuple(c["b"])
            if key in seen:
                continue
            seen.add(key)
            f.write(json.dumps({"id": "place%d" % len(seen), "b": placement_items(c)}) + "\n")
    pvh(["render-flat", items_path, place_path])
    with open(place_path) as f:
        for line in f:
            cases.append(json.loads(line))
    os.remove(items_path)
    os.remove(place_path)
    n_tlc = len(cases)
    # (b) seeded generators of the harness
    gen_path = os.path.join(d, "gen.ndjson")
    pvh(["gen", gen_path, seed] + cfg["gen"])
    with open(gen_path) as f:
        for line in f:
            cases.append(json.loads(line))
    os.remove(gen_path)
    # (c) programs of the generators of OTHER checks (read-only use of their harness binaries): the well-formed random
    # programs of C01 (expected to compile: I4) and the permutation family of C11 in several declaration orders.  Whatever
    # those checks conclude about values and verdicts, here the compilations have to END as the protocol says.
    n_mach, n_perm, n_orders = cfg["xgen"]
    for exe, args in (("pvh_machine", ["sources", n_mach, seed, gen_path]), ("pvh_modules", ["perm-sources", n_perm, seed, n_orders, gen_path])):
        common.pvh(args, exe_name=exe, timeout=1800)
        with open(gen_path) as f:
            for line in f:
                cases.append(json.loads(line))
        os.remove(gen_path)
    cases_path = os.path.join(d, "cases.ndjson")
    common.write_ndjson(cases_path, cases)
    events_path = os.path.join(d, "events.ndjson")
    ir_dir = os.path.join(d, "ir")
    t1 = time.time()
    p = pvh(["run", cases_path, events_path, "--ir-dir", ir_dir, "--timeout", "10", "--batch", "300"], timeout=7200)
    summary = json.loads(p.stdout.strip().splitlines()[-1])
    log("[worker] %d cases (%d from TLC) run in isolated children: %d events, %.1fs" %
        (summary["cases"], n_tlc, summary["events"], time.time() - t1))
    return {"dir": d.replace(".tmp", ""), "tier": tier, "seed": seed, "cases": summary["cases"], "events": summary["events"],
            "from_tlc": n_tlc, "notes": summary.get("notes", []), "tlc": tlc_stats, "wall": round(time.time() - t0, 1),
            "repo_state": repo_state()}


def paths(meta):
    d = meta["dir"]
    return {"cases": os.path.join(d, "cases.ndjson"), "events": os.path.join(d, "events.ndjson"), "ir": os.path.join(d, "ir")}


class Cases:
    """id -> case, read from the cases file on demand (the thorough tier has ~700k cases)"""

    def __init__(self, path):
        self.path = path
        self.offsets = {}
        with open(path, "rb") as f:
            pos = 0
            for line in f:
                m = re.search(rb'"id":\s*"([^"]+)"', line[:200]) or re.search(rb'"id":\s*"([^"]+)"', line)
                self.offsets[m.group(1).decode()] = pos
                pos += len(line)
        self.f = open(path, "rb")
        self.lock = threading.Lock()

    def __getitem__(self, cid):
        with self.lock:
            self.f.seek(self.offsets[cid])
            line = self.f.readline()
        return json.loads(line)

    def __contains__(self, cid):
        return cid in self.offsets

    def __iter__(self):
        return iter(self.offsets)

    def __len__(self):
        return len(self.offsets)


def load_cases(path):
    return Cases(path)


def grouped_events(path):
    """yields (input_event, [events...], first_line_number)"""
    cur = None
    evs = []
    start = 0
    with open(path) as f:
        for n, line in enumerate(f, 1):
            e = json.loads(line)
            if e["ev"] == "input":
                if cur is not None:
                    yield cur, evs, start
                cur, evs, start = e, [], n
            else:
                evs.append(e)
    if cur is not None:
        yield cur, evs, start


def end_of(evs):
    """terminal classification of a run"""
    if not evs:
        return "none", None
    last = evs[-1]
    t = last["ev"]
    if t == "outcome":
        if last["ok"]:
            return "success", last
        return ("failure" if last["codes"] else "silent"), last
    return t, last


# ---------------------------------------------------------------------------
# trace validation with reject-and-resume
# ---------------------------------------------------------------------------
def split_events(src, prefix, parts, transform=None):
    """Split an events file into about `parts` files at case boundaries (streaming);
    transform(input, evs) -> (input, evs) or None to drop the run.  Returns (files, number of runs written)."""
    total = 0
    with open(src) as f:
        for line in f:
            if line.startswith('{"ev":"input"') or '"ev":"input"' in line[:400]:
                total += 1
    per = max(1, -(-total // parts))
    files = []
    out = None
    written = 0
    seen = 0
    for inp, evs, _ in grouped_events(src):
        if seen % per == 0:
            if out is not None:
                out.close()
            path = "%s.%d.ndjson" % (prefix, len(files))
            out = open(path, "w")
            files.append(path)
        seen += 1
        if transform is not None:
            res = transform(inp, evs)
            if res is None:
                continue
            inp, evs = res
        out.write(json.dumps(inp, separators=(",", ":")) + "\n")
        for e in evs:
            out.write(json.dumps(e, separators=(",", ":")) + "\n")
        written += 1
    if out is not None:
        out.close()
    keep = []
    for path in files:
        if os.path.getsize(path) == 0:
            os.remove(path)
        else:
            keep.append(path)
    return keep, written


def validate_traces(module, cfg, files, timeout=3000, parallel=6, extra_env=None):
    """One single-worker TLC per file.  Returns list of dicts {file, complete, total, rejects:[{line,id,ev,after}], states}."""
    pending = list(files)
    running = []
    results = []

    def start(path):
        tag = "pipeline-tr-%s-%d" % (os.path.basename(path).replace(".ndjson", ""), os.getpid())
        metadir = os.path.join(common.WORK, "md-" + tag)
        shutil.rmtree(metadir, ignore_errors=True)
        out_path = os.path.join(common.WORK, tag + ".out")
        e = dict(os.environ)
        e["TRACE"] = path
        if extra_env:
            e.update(extra_env)
        cmd = ["timeout", str(timeout), "java", "-Xss1g", "-Xmx3g", "-XX:+UseSerialGC",
               "-Dtlc2.tool.queue.IStateQueue=StateDeque", "-cp", common.tlc_java_cp(), "tlc2.TLC", "-workers", "1",
               "-metadir", metadir, "-cleanup", "-noGenerateSpecTE", "-config", os.path.join(common.SPEC, cfg),
               os.path.join(common.SPEC, module + ".tla")]
        out = open(out_path, "w")
        p = subprocess.Popen(cmd, stdout=out, stderr=subprocess.STDOUT, env=e, cwd=common.SPEC)
        return (p, path, out_path, out, metadir, time.time())

    while pending or running:
        while pending and len(running) < parallel:
            running.append(start(pending.pop(0)))
        time.sleep(0.05)
        still = []
        for item in running:
            p, path, out_path, out, metadir, t0 = item
            if p.poll() is None:
                still.append(item)
                continue
            out.close()
            shutil.rmtree(metadir, ignore_errors=True)
            res = {"file": path, "complete": False, "total": 0, "rejects": [], "notes": [], "states": 0,
                   "wall": time.time() - t0}
            seen = set()
            seen_notes = set()
            for line in open(out_path, errors="replace"):
                line = line.rstrip("\n")
                if line.startswith('<<"TRACE"'):
                    d = common._decode_print(line)
                    if d and isinstance(d[1], dict):
                        res["complete"] = bool(d[1].get("accepted"))
                        res["total"] = int(d[1].get("total", 0))
                elif line.startswith('<<"REJECT"'):
                    d = common._decode_print(line)
                    if d and isinstance(d[1], dict) and d[1]["line"] not in seen:
                        seen.add(d[1]["line"])
                        res["rejects"].append(d[1])
                elif line.startswith('<<"NOTE"'):
                    d = common._decode_print(line)
                    if d and isinstance(d[1], dict) and json.dumps(d[1], sort_keys=True) not in seen_notes:
                        seen_notes.add(json.dumps(d[1], sort_keys=True))
                        res["notes"].append(d[1])
                m = re.match(r"^(\d+) states generated, (\d+) distinct states found", line)
                if m:
                    res["states"] = int(m.group(2))
            if p.returncode == 124:
                raise ToolError("TLC trace validation timed out on %s" % path)
            if not res["complete"]:
                tail = "".join(open(out_path, errors="replace").readlines()[-30:])
                sys.stdout.write(tail)
                raise ToolError("TLC trace validation did not reach the end of %s (exit %s)" % (path, p.returncode))
            os.remove(out_path)
            results.append(res)
        running = still
    return results


# ---------------------------------------------------------------------------
# canonical keys of violations (failure signature + input identification)
# ---------------------------------------------------------------------------
def norm_path(p):
    p = p or ""
    for root in (os.path.realpath(common.REPO), common.REPO, "/repo"):
        if p.startswith(root + "/"):
            return p[len(root) + 1:]
    return p


_BUILTIN = re.compile(r"\b(print|eprint|dbg|panic|abort|format)!")


def tags_of(case):
    mods = case.get("mods", [])
    t = []
    nb = sum(1 for m in mods if _BUILTIN.search(m["src"]))
    t.append("mods=%d" % len(mods))
    t.append("builtin-mods=%d" % nb)
    if case.get("wasm"):
        t.append("wasm")
    return ",".join(t)


def ident(case):
    if case.get("origin") and case.get("kind") not in ("corpus", "corpus-set", "corpus-wasm", "set"):
        return "%s %s #%s" % (case.get("kind", "?"), case["origin"], case.get("id"))
    return "%s %s" % (case.get("kind", "?"), case.get("origin") or case.get("id"))


class Findings:
    """Collects discrepancies and reports them round-robin over their signatures, so that the first
    replay files written (common.Report writes 50) show every distinct signature."""

    def __init__(self):
        self.by_sig = {}

    def add(self, sig, kind, key, detail):
        q = self.by_sig.setdefault(sig, [])
        if any(k == kind and ky == key for k, ky, _ in q):
            return          # the same input and clause once
        q.append((kind, key, detail))

    def counts(self):
        return {(" / ".join(map(str, k)) if isinstance(k, tuple) else str(k)): len(v) for k, v in self.by_sig.items()}

    def flush(self, rep):
        queues = [list(v) for _, v in sorted(self.by_sig.items(), key=lambda kv: len(kv[1]))]
        while queues:
            for q in list(queues):
                kind, key, detail = q.pop(0)
                rep.violation(kind, key, detail)
                if not q:
                    queues.remove(q)

"""Shared machinery of the `pipeline` group (C02 C03 C13 C18): building the real `penne` binary
outside /repo, assembling the input space (TLC-emitted token sequences and module sets, seeded
generators of the harness), one isolated worker run per (tier, seed, tree state) shared through a
cache under work/pipeline-cache-*, and trace validation with reject-and-resume."""
import fcntl
import hashlib
import json
import os
import re
import shutil
import subprocess
import sys
import threading
import time

from . import common
from .common import log, ToolError

EXE = "pvh_pipeline"
RUN_FORMAT = 17     # bump when the way cases are assembled / rendered in this file changes
THREADS = os.environ.get("PVH_THREADS", "6")
TLC_WORKERS = int(os.environ.get("PIPELINE_TLC_WORKERS", "4"))


def pvh(args, timeout=3600, check=True, env=None):
    e = {"PVH_THREADS": THREADS, "PENNE_REPO": common.REPO}
    if env:
        e.update(env)
    return common.pvh(args, timeout=timeout, check=check, env=e, exe_name=EXE)


def repo_tag():
    return hashlib.sha1(os.path.realpath(common.REPO).encode()).hexdigest()[:10]


def repo_state():
    """git HEAD + hash of the working-tree diff of the repository under test"""
    def git(*a):
        return subprocess.run(["git", "-C", common.REPO] + list(a), stdout=subprocess.PIPE, stderr=subprocess.DEVNULL,
                              text=True).stdout
    head = git("rev-parse", "HEAD").strip()
    diff = git("diff", "HEAD")
    untracked = git("ls-files", "--others", "--exclude-standard")
    return head[:12] + "-" + hashlib.sha1((diff + untracked).encode()).hexdigest()[:10]


def assert_same_tree(state0):
    """the lead commits fixes to the repository while checks run: a run that straddles a commit compares
    binaries of two different trees and must not report anything"""
    now = repo_state()
    if now != state0:
        raise ToolError("the repository under test changed during the run (%s -> %s): run the check again" % (state0, now))


def harness_state():
    h = hashlib.sha1()
    base = os.path.join(common.VERIF, "harness", "src")
    for rel in ["bin/pvh_pipeline.rs", "pipeline/drive.rs", "pipeline/gen.rs", "flat.rs",
                # the generators of other checks whose programs are cross-fed
                "machine/gen.rs", "machine/render.rs", "bin/pvh_machine.rs", "modules/perms.rs", "bin/pvh_modules.rs"]:
        h.update(open(os.path.join(base, rel), "rb").read())
    for rel in ["PipelineTokens.tla", "MC_Pipeline.tla", "Pipeline.tla", "MC_PipelineWide.tla", "PipelineShapes.tla",
                "FlatBody.tla", "Placement.tla", "MC_Placement.tla", "VarScope.tla", "MC_VarScope.tla"]:
        h.update(open(os.path.join(common.SPEC, rel), "rb").read())
    h.update(json.dumps([RUN_FORMAT, TIERS], sort_keys=True).encode())
    return h.hexdigest()[:10]


# ---------------------------------------------------------------------------
# the real binary
# ---------------------------------------------------------------------------
_penne = {}


def build_penne(profile="release"):
    """cargo build --features alpha,llvm-sys into a target dir outside the repository.  The CLI-level
    observations use the optimised build (what `cargo install` gives users): the unoptimised build
    overflows its 8 MiB stack at nesting depths of 31..64, which says nothing about the compiler."""
    if (common.REPO, profile) in _penne:
        return _penne[(common.REPO, profile)]
    # scratch trees (PENNE_REPO != /repo: mutation and seed runs) build next to the scratch copy of the harness, so that
    # removing /tmp/pvh-<tag> (tools/run_seed.sh does) removes this target dir too
    target = (os.path.join(common.WORK, "pipeline-target") if os.path.realpath(common.REPO) == "/repo"
              else os.path.join("/tmp", "pvh-" + repo_tag(), "penne-target"))
    os.makedirs(target, exist_ok=True)
    t0 = time.time()
    with open(os.path.join(target, ".pipeline-lock"), "w") as lock:
        fcntl.flock(lock, fcntl.LOCK_EX)
        p = subprocess.run(["cargo", "build", "--offline", "--quiet", "--features", "alpha,llvm-sys"] +
                           (["--release"] if profile == "release" else []),
                           cwd=common.REPO, env=common.env_with_tools({"CARGO_TARGET_DIR": target}),
                           stdout=subprocess.PIPE, stderr=subprocess.STDOUT, text=True)
    if p.returncode != 0:
        sys.stdout.write(p.stdout[-4000:])
        raise ToolError("cargo build --features alpha,llvm-sys failed for %s" % common.REPO)
    exe = os.path.join(target, "release" if profile == "release" else "debug", "penne")
    log("[build] penne binary %s built in %.1fs" % (exe, time.time() - t0))
    _penne[(common.REPO, profile)] = exe
    return exe


# ---------------------------------------------------------------------------
# input space
# ---------------------------------------------------------------------------
def render_tokens(case, idx):
    toks = case["toks"]
    body = "\n".join(toks)
    if case["ctx"] == "body":
        src = "fn main()\n{\n" + body + ("\n" if toks else "") + "}\n"
    else:
        src = body + "\n"
    out = {"id": "tok%d" % idx, "kind": "tok:" + case["ctx"], "wasm": False,
           "mods": [{"name": "tok.pn", "src": src}], "toks": toks, "ctx": case["ctx"]}
    if case["expect"]["t"] == "lex":
        out["expect"] = case["expect"]
    return out


def render_set(case, idx):
    """A module set emitted by MC_Pipeline: declarations with a lexical fault, a syntax fault or none,
    resolved import pairs, unresolvable imports."""
    n = len(case["mods"])
    names = ["m%d.pn" % (m + 1) for m in range(n)]
    mods = []
    for m, decls in enumerate(case["mods"]):
        s = ""
        if (m + 1) in case["badimp"]:
            s += 'import "nosuch.pn";\n'
        for (i, j) in case["imports"]:
            if i == m + 1:
                s += 'import "%s";\n' % names[j - 1]
        if not decls and not s:
            s = "// an empty module\n"
        for i, d in enumerate(decls):
            head = ("pub " if d["pub"] else "") + "fn m%d_f%d" % (m + 1, i + 1)
            if d["fault"] == "lex":
                s += head + "(@) -> i32\n{\n\treturn: 1\n}\n"
            elif d["fault"] == "parse":
                s += head + "(x: i32 -> i32\n{\n\treturn: 1\n}\n"
            else:
                s += head + "(x: i32) -> i32\n{\n\treturn: x + %d\n}\n" % (i + 1)
        mods.append({"name": names[m], "src": s})
    exp = case["expect"]
    return {"id": "set%d" % idx, "kind": "set", "wasm": False, "mods": mods,
            "origin": json.dumps({"mods": case["mods"], "imports": case["imports"], "badimp": case["badimp"]},
                                 separators=(",", ":")),
            "expect": {"t": "set", "ok": exp["ok"], "codes": exp["codes"], "mod": exp["mod"]}}


def render_wide(case, idx):
    """A module set of 4-6 modules emitted by MC_PipelineWide: every module has one public function (called by its importers, so that
    rings are mutual recursion across modules and functions are reachable through imports only) and a private one of the SAME
    name in every module; `main` sits in the module the cell names (or nowhere)."""
    n = len(case["mods"])
    names = ["m%d.pn" % (m + 1) for m in range(n)]
    imports = [tuple(p) for p in case["imports"]]
    mods = []
    for m, decls in enumerate(case["mods"]):
        k = m + 1
        s = ""
        if k in case["badimp"]:
            s += 'import "nosuch.pn";\n'
        targets = [j for (i, j) in imports if i == k]
        for j in targets:
            s += 'import "%s";\n' % names[j - 1]
        callees = [j for j in targets if j != k and case["mods"][j - 1][0]["fault"] == "none"]
        d = decls[0]
        head = "pub fn m%d_f1" % k
        if d["fault"] == "lex":
            s += head + "(@) -> i32\n{\n\treturn: 1\n}\n"
        elif d["fault"] == "parse":
            s += head + "(x: i32 -> i32\n{\n\treturn: 1\n}\n"
        else:
            body = " + ".join(["shared(x)"] + ["m%d_f1(x)" % j for j in callees])
            s += head + "(x: i32) -> i32\n{\n\treturn: %s\n}\n" % body
        # (every module uses a builtin: the declarations of write / snprintf are per-module state of the generator)
        s += "fn shared(x: i32) -> i32\n{\n\tprint!(\"m%d \", x, \"\\n\");\n\treturn: x + %d\n}\n" % (k, k)
        if case["meta"]["main"] == k:
            s += "fn main() -> i32\n{\n\tvar r: i32 = m%d_f1(1);\n%s\treturn: r\n}\n" % (
                k, "".join("\tr = r + m%d_f1(%d);\n" % (j, j) for j in callees))
        mods.append({"name": names[m], "src": s})
    exp = case["expect"]
    meta = case["meta"]
    nimp = max([sum(1 for (i, j) in imports if i == k + 1) for k in range(n)] + [0])
    return {"id": "wset%d" % idx, "kind": "wset", "wasm": False, "mods": mods,
            "origin": "n=%d topo=%s faults=%s main=%d max-imports=%d" % (n, meta["topo"], meta["faults"], meta["main"], nimp),
            "expect": {"t": "set", "ok": exp["ok"], "codes": exp["codes"], "mod": exp["mod"]}}


_SIZE_BASE = "fn main() -> i32\n{\n\tvar x: i32 = 0;\n\treturn: x\n}\n"


def _fill_comment(text, size, nl="\n"):
    """append a comment line so that the text has exactly `size` bytes"""
    k = size - len(text.encode()) - 3 - len(nl)
    if k < 0:
        raise ToolError("size cell of %d bytes is smaller than its base text" % size)
    return text + "// " + "x" * k + nl


def _render_size(cell):
    pad, size = cell["pad"], cell["size"]
    if pad == "tiny":
        return ["", ";", "{}", "fn "][size]
    main_open, main_close = "fn main() -> i32\n{\n\tvar x: i32 = 0;\n", "\treturn: x\n}\n"
    if pad == "comment":
        return _fill_comment(_SIZE_BASE, size)
    if pad == "mbcomment":
        k = size - len(_SIZE_BASE) - 4
        return _SIZE_BASE + "// " + "é" * (k // 2) + "x" * (k % 2) + "\n"
    if pad == "spaces":
        return _SIZE_BASE + " " * (size - len(_SIZE_BASE) - 1) + "\n"
    if pad == "newlines":
        return _SIZE_BASE + "\n" * (size - len(_SIZE_BASE))
    if pad == "crlf":
        return _fill_comment(_SIZE_BASE.replace("\n", "\r\n"), size, "\r\n")
    if pad == "decls":
        # (functions of ~200 bytes: 64 KiB are ~330 declarations -- thousands of declarations make the symbol rule quadratic in TLC)
        body = "\tvar y: i32 = x;\n" + "\ty = y + 1;\n" * 14 + "\treturn: y\n"
        unit = len("fn f00000(x: i32) -> i32\n{\n" + body + "}\n")
        n = max(0, (size - len(_SIZE_BASE) - 5) // unit)
        return _fill_comment(_SIZE_BASE + "".join("fn f%05d(x: i32) -> i32\n{\n%s}\n" % (i, body) for i in range(n)), size)
    if pad == "stmts":
        unit = len("\tx = x + 1;\n")
        n = max(0, (size - len(_SIZE_BASE) - 5) // unit)
        return _fill_comment(main_open + "\tx = x + 1;\n" * n + main_close, size)
    if pad == "longline":
        k = size - len(main_open) - len(main_close) - len("\tx = x + 1;\n")
        return main_open + "\tx = x + 1;" + " " * k + "\n" + main_close
    if pad == "ident":
        k = size - len(main_open) - len(main_close) - len("\tvar : i32 = 1;\n")
        return main_open + "\tvar " + "a" * k + ": i32 = 1;\n" + main_close
    if pad == "string":
        k = size - len(main_open) - len(main_close) - len('\tvar s = "";\n')
        return main_open + '\tvar s = "' + "a" * k + '";\n' + main_close
    if pad == "digits":
        k = size - len(main_open) - len(main_close) - len("\tvar n: u128 = 1;\n")
        return main_open + "\tvar n: u128 = " + "0" * k + "1;\n" + main_close
    raise ToolError("unknown pad %s" % pad)


def _render_depth(cell):
    c, d = cell["construct"], cell["depth"]
    A = "&" * d
    IDX = "[0]" * d
    pre = ("struct S\n{\n\ts: &S,\n\tv: i32,\n}\nstruct T2\n{\n\tm: &i32,\n}\nfn f(p: &i32)\n{\n}\nfn f2(q: i32)\n{\n}\n")
    body = None
    top = ""
    if c == "addr-init":
        body = "\tvar y = %sx;\n" % A
    elif c == "addr-arg":
        body = "\tf(%sx);\n" % A
    elif c == "addr-target":
        body = "\tvar p: &i32 = &x;\n\t%sp = &x;\n" % A
    elif c == "addr-cond":
        body = "\tif %sx == 1\n\t{\n\t\tx = 2;\n\t}\n" % A
    elif c == "addr-ret":
        top = "fn g(x: i32) -> &i32\n{\n\treturn: %sx\n}\n" % A
        body = ""
    elif c == "addr-len":
        body = "\tvar n = |%sa|;\n" % A
    elif c == "addr-member-init":
        body = "\tvar t = T2 { m: %sx };\n" % A
    elif c == "addr-element":
        body = "\tvar arr = [%sx, %sx];\n" % (A, A)
    elif c == "idx-read":
        body = "\tvar y = a%s;\n" % IDX
    elif c == "idx-write":
        body = "\ta%s = 1;\n" % IDX
    elif c == "idx-len":
        body = "\tvar n = |a%s|;\n" % IDX
    elif c == "idx-arg":
        body = "\tf2(a%s);\n" % IDX
    elif c == "mem-read":
        body = "\tvar y = p%s.v;\n" % (".s" * (d - 1))
        top = None
    elif c == "mem-write":
        body = "\tp%s.v = 1;\n" % (".s" * (d - 1))
        top = None
    elif c == "mem-arg":
        body = "\tf2(p%s.v);\n" % (".s" * (d - 1))
        top = None
    elif c == "mixed-read":
        body = "\tvar y = p%s;\n" % "".join(".s" if i % 2 == 0 else "[0]" for i in range(d))
        top = None
    elif c == "mixed-write":
        body = "\tp%s = 1;\n" % "".join("[0]" if i % 2 == 0 else ".s" for i in range(d))
        top = None
    elif c == "addr-and-idx":
        body = "\tvar y = %sa%s;\n" % (A, IDX)
    elif c == "type-var":
        body = "\tvar p: %si32 = &x;\n" % A
    elif c == "type-param":
        top = "fn g(p: %si32)\n{\n}\n" % A
        body = ""
    elif c == "type-ret":
        top = "fn g() -> %si32;\n" % A
        body = ""
    elif c == "type-member":
        top = "struct U\n{\n\tm: %si32,\n}\n" % A
        body = ""
    elif c == "type-const":
        top = "const K: %si32 = 0;\n" % A
        body = ""
    elif c == "type-sizeof":
        body = "\tvar n = |:%si32|;\n" % A
    elif c == "type-cast":
        body = "\tvar q = x as %si32;\n" % A
    elif c == "type-head":
        top = "fn h(p: %si32);\n" % A
        body = ""
    elif c == "type-slice":
        top = "fn g(p: %si32)\n{\n}\n" % ("[]" * d)
        body = ""
    else:
        raise ToolError("unknown depth construct %s" % c)
    if top is None:
        # member chains: a function with a pointer parameter
        return pre + "fn walk(p: &S)\n{\n" + body + "}\n"
    return pre + top + "fn main()\n{\n\tvar x: i32 = 1;\n\tvar a: [4]i32 = [1, 2, 3, 4];\n" + body + "}\n"


def _render_builtin(cell):
    b, nargs, arg, ctx, form = cell["b"], cell["nargs"], cell["arg"], cell["ctx"], cell["mods"]
    name = b + "!"
    first = {"int": "v", "str": '"t"', "bool": "true"}[arg]
    others = {"int": ["7i32", "v + 1"], "str": ['"u\\n"', '"w"'], "bool": ["false", "true"]}[arg]
    args = ([first] + others)[:nargs]
    if b == "include_bytes" and nargs >= 1:
        args[0] = '"main.pn"'
    call = "%s(%s)" % (name, ", ".join(args))

    def user(prefix, public):
        head = "%sfn %s_use(v0: i32) -> i32\n{\n\tvar v: i32 = v0;\n" % ("pub " if public else "", prefix)
        if ctx == "stmt":
            return head + "\t%s;\n\treturn: v\n}\n" % call
        if ctx == "init":
            return head + "\tvar r = %s;\n\treturn: v\n}\n" % call
        if ctx == "arg":
            return head + "\tvar r: i32 = helper(%s);\n\treturn: r\n}\n" % call
        if ctx == "ret":
            return head + "\treturn: %s\n}\n" % call
        if ctx == "cond":
            return head + "\tif %s == 1\n\t{\n\t\tv = 2;\n\t}\n\treturn: v\n}\n" % call
        return head + "\tvar r: i32 = 1 + %s;\n\treturn: r\n}\n" % call

    helper = "fn helper(x: i32) -> i32\n{\n\treturn: x\n}\n"
    nlibs = {"one": 0, "one-wasm": 0, "two": 1, "two-wasm": 1, "three": 2}[form]
    libs = ["lib.pn", "lib2.pn"][:nlibs]
    main = "".join('import "%s";\n' % l for l in libs) + helper + user("main", False)
    calls = "".join("\tr = r + %s_use(%d);\n" % (l.split(".")[0], i + 2) for i, l in enumerate(libs))
    main += "fn main() -> i32\n{\n\tvar r: i32 = main_use(1);\n%s\treturn: r\n}\n" % calls
    mods = [{"name": "main.pn", "src": main}]
    for l in libs:
        mods.append({"name": l, "src": helper + user(l.split(".")[0], True)})
    return mods, form.endswith("wasm")


def _render_sym(cell):
    flags, kind, place = cell["flags"], cell["kind"], cell["place"]
    f = flags + " " if flags else ""
    public = "pub" in flags
    leaf = "%sfn target(x: i32) -> i32\n{\n\treturn: x + 1\n}\n" % f
    head = "%sfn target(x: i32) -> i32;\n" % f
    if kind in ("leaf", "unused", "viaimport"):
        t = leaf
    elif kind == "selfrec":
        t = "%sfn target(x: i32) -> i32\n{\n\tvar r: i32 = x;\n\tif x > 0\n\t{\n\t\tr = target(x - 1);\n\t}\n\treturn: r\n}\n" % f
    elif kind == "mutual":
        t = ("%sfn target(x: i32) -> i32\n{\n\tvar r: i32 = x;\n\tif x > 0\n\t{\n\t\tr = other(x - 1);\n\t}\n\treturn: r\n}\n" % f +
             "fn other(x: i32) -> i32\n{\n\tvar r: i32 = x;\n\tif x > 0\n\t{\n\t\tr = target(x - 1);\n\t}\n\treturn: r\n}\n")
    elif kind == "headdef":
        t = head + "fn between(x: i32) -> i32\n{\n\treturn: target(x)\n}\n" + leaf
    elif kind == "defhead":
        t = leaf + head
    else:
        t = head
    if cell.get("twin", "none") != "none":
        t = "%s target: i32 = 3;\n" % cell["twin"] + t
    wrapper = "pub fn wrapper(x: i32) -> i32\n{\n\treturn: %s\n}\n" % ("x" if kind == "unused" else "target(x)")
    filler = "pub fn %s_f(x: i32) -> i32\n{\n\treturn: x * 2\n}\nfn shared(x: i32) -> i32\n{\n\treturn: x\n}\n"
    if place == "m1":
        call = "" if kind == "unused" else "\tr = r + target(r);\n"
        a = 'import "b.pn";\n' + t + "fn shared(x: i32) -> i32\n{\n\treturn: x\n}\n" + \
            "fn main() -> i32\n{\n\tvar r: i32 = b_f(1);\n%s\treturn: r\n}\n" % call
        return [{"name": "a.pn", "src": a}, {"name": "b.pn", "src": filler % "b"}]
    direct = "\tr = r + target(r);\n" if (public and kind != "unused") else ""
    main = "fn main() -> i32\n{\n\tvar r: i32 = wrapper(1);\n%s\treturn: r\n}\n" % direct
    if place == "m2":
        return [{"name": "a.pn", "src": 'import "b.pn";\n' + main}, {"name": "b.pn", "src": t + wrapper}]
    if place == "main2":
        return [{"name": "b.pn", "src": t + wrapper}, {"name": "a.pn", "src": 'import "b.pn";\n' + main}]
    b = 'import "c.pn";\n' + "pub fn b_f(x: i32) -> i32\n{\n\treturn: wrapper(x)\n}\nfn shared(x: i32) -> i32\n{\n\treturn: x\n}\n"
    a = 'import "b.pn";\nimport "c.pn";\n' + main.replace("wrapper(1)", "wrapper(1) + b_f(2)")
    return [{"name": "a.pn", "src": a}, {"name": "b.pn", "src": b}, {"name": "c.pn", "src": t + wrapper + "fn shared(x: i32) -> i32\n{\n\treturn: x\n}\n"}]


def _render_names(cell):
    kind, link = cell["kind"], cell["link"]
    decl = {
        "pubfn": ("pub fn thing(x: i32) -> i32\n{\n\treturn: x + %d\n}\n",) * 2,
        "privfn": ("fn thing(x: i32) -> i32\n{\n\treturn: x + %d\n}\n",) * 2,
        "externfn": ("extern fn thing(x: i32) -> i32\n{\n\treturn: x + %d\n}\n",) * 2,
        "main": ("fn main() -> i32\n{\n\treturn: %d\n}\n",) * 2,
        "pubconst": ("pub const THING: i32 = %d;\n",) * 2,
        "privconst": ("const THING: i32 = %d;\n",) * 2,
        "pubstruct": ("pub struct Thing\n{\n\tx: i32,\n\ty%d: i32,\n}\n",) * 2,
        "privstruct": ("struct Thing\n{\n\tx: i32,\n\ty%d: i32,\n}\n",) * 2,
        "pubfn-vs-privfn": ("pub fn thing(x: i32) -> i32\n{\n\treturn: x + %d\n}\n", "fn thing(x: i32) -> i32\n{\n\treturn: x + %d\n}\n"),
        "pubfn-vs-const": ("pub fn thing(x: i32) -> i32\n{\n\treturn: x + %d\n}\n", "pub const thing: i32 = %d;\n"),
    }[kind]
    use = {"pubconst": "THING", "privconst": "THING", "pubstruct": "1", "privstruct": "1", "main": "1", "pubfn-vs-const": "1"}.get(kind, "thing(1)")
    a = decl[0] % 1 + "pub fn a_use() -> i32\n{\n\treturn: %s\n}\n" % use
    b = decl[1] % 2 + "pub fn b_use() -> i32\n{\n\treturn: %s\n}\n" % (use if kind != "pubfn-vs-const" else "thing")
    if link == "a-imports-b":
        a = 'import "b.pn";\n' + a
    elif link == "mutual":
        a = 'import "b.pn";\n' + a
        b = 'import "a.pn";\n' + b
    mods = [{"name": "a.pn", "src": a}, {"name": "b.pn", "src": b}]
    if link == "third-imports-both":
        mods.append({"name": "c.pn", "src": 'import "a.pn";\nimport "b.pn";\npub fn c_use() -> i32\n{\n\treturn: a_use() + b_use()\n}\n'})
    return mods


def _render_chain(cell, exp):
    """a chain cell of spec/PipelineShapes.tla -> (source text, fault): the character offsets of the operator TLC named (opidx)
    and of its two operands are taken from the text as it is written here"""
    op, n, bad, layout, ctx = cell["op"], cell["n"], cell["bad"], cell["layout"], cell["ctx"]
    if cell["ty"] == "class":
        t = b = "i32" if op in "|&^" else "bool"
    else:
        t, b = cell["ty"].split("/")
    lit = lambda ty, k: ("true" if k % 2 else "false") if ty == "bool" else str(k)
    head = "fn sink(x: %s)\n{\n}\n\nfn calc() -> %s\n{\n" % (t, t)
    for k in range(1, n + 1):
        ty = b if k == bad else t
        head += "\tvar v%d: %s = %s;\n" % (k, ty, lit(ty, k))
    pre = {"init": "\tvar r: %s = " % t, "arg": "\tsink(", "ret": "\tvar r: %s = %s;\n\treturn: " % (t, lit(t, 1))}[ctx]
    post = {"init": ";\n\treturn: r\n}\n", "arg": ");\n\treturn: %s\n}\n" % lit(t, 1), "ret": "\n}\n"}[ctx]
    text = head + pre
    start = len(text)
    if layout == "parens":
        text += "(" * (n - 2)
    operand, oper = {}, {}
    for k in range(1, n + 1):
        if k > 1:
            sep = {"line": " ", "tight": "", "parens": " ", "lines": "\n\t\t", "comments": " // operand %d | & +\n\t\t" % (k - 1)}[layout]
            text += sep
            oper[k - 1] = (len(text), len(text) + 1)
            text += op + ("" if layout == "tight" else " ")
        operand[k] = (len(text), len(text) + 2)
        text += "v%d" % k
        if layout == "parens" and 2 <= k < n:
            text += ")"
    end = len(text)
    text += post
    j = exp["opidx"]
    fault = {"m": 1, "code": exp["code"], "start": start, "end": end, "line": text[:oper[j][0]].count("\n") + 1, "crlf": False,
             "parts": [{"start": oper[j][0], "end": oper[j][1], "whole": False},
                       {"start": operand[1][0], "end": operand[j][1], "whole": True},
                       {"start": operand[j + 1][0], "end": operand[j + 1][1], "whole": True}]}
    return text, fault


def _render_rettype(cell, exp):
    what, form, order = cell["what"], cell["form"], cell["order"]
    ty = "[4]i32" if what == "array" else "bool"
    head = "pub %sfn make() -> " % ("extern " if what == "externbool" else "")
    lib = "// the library\n" + head
    start = len(lib)
    lib += ty
    end = len(lib)
    line = lib.count("\n") + 1
    if form == "head":
        lib += ";\n"
    elif what == "array":
        lib += "\n{\n\tvar a: [4]i32 = [1, 2, 3, 4];\n\treturn: a\n}\n"
    else:
        lib += "\n{\n\treturn: true\n}\n"
    lib += "pub fn other(x: i32) -> i32\n{\n\treturn: x + 1\n}\n"
    use = "\tvar r: i32 = other(1);\n" if order == "main-uses" else "\tvar r: i32 = 1;\n"
    main = 'import "lib.pn";\n\nfn main() -> i32\n{\n%s\treturn: r\n}\n' % use
    libm, mainm = {"name": "lib.pn", "src": lib}, {"name": "main.pn", "src": main}
    mods = {"single": [libm], "lib-first": [libm, mainm]}.get(order, [mainm, libm])
    fault = {"m": 1 + mods.index(libm), "code": exp["code"], "file": "lib.pn", "start": start, "end": end, "line": line, "crlf": False,
             "parts": [{"start": start, "end": end, "whole": False}]}
    return mods, fault


def _render_joinstr(cell, exp):
    n, layout, ctx = cell["parts"], cell["layout"], cell["ctx"]
    head = "fn sink(x: i32)\n{\n}\n\nfn calc() -> i32\n{\n"
    pre = {"arg": "\tsink(", "ret": "\treturn: ", "init": "\tvar r: i32 = "}[ctx]
    post = {"arg": ");\n\treturn: 1\n}\n", "ret": "\n}\n", "init": ";\n\treturn: r\n}\n"}[ctx]
    text = head + pre
    start = len(text)
    pieces = ["\"part %d \"" % k for k in range(1, n + 1)]
    text += ("\n\t\t" if layout == "lines" else " ").join(pieces)
    end = len(text)
    line = text[:start].count("\n") + 1
    text += post
    fault = {"m": 1, "code": exp["code"], "file": "join.pn", "start": start, "end": end, "line": line, "crlf": False,
             "parts": [{"start": start, "end": end, "whole": True}]}
    return text, fault


def _render_target(cell):
    what, a, b = cell["what"], cell["a"], cell["b"]
    if what == "cast":
        src = "fn conv(v: %s) -> %s\n{\n\treturn: v as %s\n}\n\nfn main() -> i32\n{\n\tvar x: %s = 5;\n\tvar y: %s = conv(x);\n\tvar r: i32 = 0;\n\tif y == 5\n\t{\n\t\tr = 1;\n\t}\n\treturn: r\n}\n" % (a, b, b, a, b)
    elif what == "lit":
        n = 0x0D0A1B2C if a in ("u32", "usize") else 0x0D0A1B2C3D4E5F
        text = {"dec": "%d", "hex": "0x%X", "bin": "0b%s"}[b] % (n if b != "bin" else bin(n)[2:])
        place = cell["place"]
        decl = "struct Header\n{\n\tmagic: %s,\n\tversion: i32,\n}\n\n" % a
        if place == "var":
            body, top = "\tvar v: %s = %s;\n\tvar w: %s = v;\n" % (a, text, a), ""
        elif place == "member":
            body, top = "\tvar h: Header = Header { magic: %s, version: 2 };\n\tvar w: %s = h.magic;\n" % (text, a), decl
        elif place == "elem":
            body, top = "\tvar t: [2]%s = [%s, 1];\n\tvar w: %s = t[0];\n" % (a, text, a), ""
        elif place == "nested":
            body, top = "\tvar t: [2][2]%s = [[%s, 1], [2, %s]];\n\tvar w: %s = t[1][1];\n" % (a, text, text, a), ""
        elif place == "const":
            body, top = "\tvar w: %s = K;\n" % a, "const K: %s = %s;\n\n" % (a, text)
        else:
            body, top = "\tvar w: %s = KH.magic;\n" % a, decl + "const KH: Header = Header { magic: %s, version: 2 };\n\n" % text
        src = top + "fn main() -> i32\n{\n" + body + "\tvar r: i32 = 0;\n\tif w == %d\n\t{\n\t\tr = 1;\n\t}\n\treturn: r\n}\n" % n
    elif what == "ccast":
        # a cast of a value known at compile time, in every position (inside constant aggregates too)
        top = "const FIVE: %s = 5;\n\nstruct Pair\n{\n\tfirst: %s,\n\tsecond: %s,\n}\n\n" % (a, b, b)
        pre = ""
        if cell["src"] == "lit":
            e = "5%s as %s" % (a, b)
        elif cell["src"] == "named":
            e = "FIVE as %s" % b
        elif cell["src"] == "len":
            pre = "\tvar five: [5]i32 = [1, 2, 3, 4, 5];\n"
            e = "|five| as %s" % b
        else:
            e = "|:[5]u8| as %s" % b
        place = cell["place"]
        if place == "var":
            body = pre + "\tvar w: %s = %s;\n" % (b, e)
        elif place == "elem":
            body = pre + "\tvar t: [2]%s = [1, %s];\n\tvar w: %s = t[1];\n" % (b, e, b)
        elif place == "nested":
            body = pre + "\tvar t: [2][2]%s = [[%s, 1], [2, %s]];\n\tvar w: %s = t[1][1];\n" % (b, e, e, b)
        elif place == "member":
            body = pre + "\tvar p: Pair = Pair { first: 1, second: %s };\n\tvar w: %s = p.second;\n" % (e, b)
        elif place == "const":
            top += "const K: %s = %s;\n\n" % (b, e)
            body = "\tvar w: %s = K;\n" % b
        else:
            top += "const KT: [2][2]%s = [[%s, 1], [2, %s]];\n\n" % (b, e, e)
            body = "\tvar w: %s = KT[1][1];\n" % b
        src = top + "fn main() -> i32\n{\n" + body + "\tvar r: i32 = 0;\n\tif w == 5\n\t{\n\t\tr = 1;\n\t}\n\treturn: r\n}\n"
    else:
        ty = {"ptr": "&u8", "ptrarray": "[5]&i64", "ptrstruct": "Link", "usize": "usize", "usizearray": "[3]usize", "mixed": "Table"}[a]
        top = "struct Link\n{\n\tnext: &Link,\n\ttag: i32,\n}\n\nstruct Table\n{\n\tcount: usize,\n\trows: [2]&i32,\n\tflag: u8,\n}\n\n"
        if b == "const":
            src = top + "const SIZE: usize = |:%s|;\n\nfn main() -> usize\n{\n\treturn: SIZE\n}\n" % ty
        else:
            src = top + "fn main() -> usize\n{\n\treturn: |:%s|\n}\n" % ty
    return [{"name": "target.pn", "src": src}], bool(cell["wasm"])


def _render_constdiv(cell):
    op, ty, use = cell["op"], cell["ty"], cell["use"]
    top = "const BAD: %s = 4 %s 0;\n" % (ty, op)
    body = {"value": "\tvar v: %s = BAD;\n" % ty,
            "length": "\tvar a: [BAD]i32;\n" if ty == "usize" else "\tvar a: [4]%s = [BAD, BAD, BAD, BAD];\n" % ty,
            "unused": "",
            "operand": "\tvar v: %s = BAD + 1;\n" % ty,
            "member": "\tvar s: Holder = Holder { value: BAD };\n"}[use]
    if use == "member":
        top += "struct Holder\n{\n\tvalue: %s,\n}\n" % ty
    return top + "fn main() -> i32\n{\n" + body + "\treturn: 0\n}\n"


def _render_opaque(cell):
    use = cell["use"]
    top = "struct Owner;\n"
    fn = {"literal": "fn main() -> i32\n{\n\tvar o = Owner {};\n\treturn: 0\n}\n",
          "variable": "fn main() -> i32\n{\n\tvar o: Owner;\n\treturn: 0\n}\n",
          "sizeof": "fn main() -> usize\n{\n\treturn: |:Owner|\n}\n",
          "parameter": "fn take(o: Owner)\n{\n}\nfn main() -> i32\n{\n\treturn: 0\n}\n",
          "pointer": "extern fn make() -> &Owner;\nextern fn drop(o: &Owner);\nfn main() -> i32\n{\n\tvar o: &Owner = make();\n\tdrop(&o);\n\treturn: 0\n}\n",
          "member": "struct Holder\n{\n\towner: Owner,\n\tn: i32,\n}\nfn main() -> i32\n{\n\treturn: 0\n}\n",
          "element": "fn main() -> i32\n{\n\tvar os: [2]Owner;\n\treturn: 0\n}\n",
          "return": "fn make() -> Owner;\nfn main() -> i32\n{\n\treturn: 0\n}\n"}[use]
    return top + fn


def render_shape(case, idx):
    """A cell of spec/PipelineShapes.tla -> source text"""
    cell, exp = case["cell"], case["expect"]
    fam = cell["fam"]
    wasm = False
    if fam == "builtin":
        mods, wasm = _render_builtin(cell)
        origin = "builtin %s!/%d %s/%s/%s" % (cell["b"], cell["nargs"], cell["arg"], cell["ctx"], cell["mods"])
    elif fam == "depth":
        mods = [{"name": "depth.pn", "src": _render_depth(cell)}]
        origin = "depth %s/%d" % (cell["construct"], cell["depth"])
    elif fam == "size":
        src = _render_size(cell)
        if len(src.encode()) != cell["size"]:
            raise ToolError("size cell %s rendered as %d bytes" % (json.dumps(cell), len(src.encode())))
        mods = [{"name": "size.pn", "src": src}]
        origin = "size %s/%d" % (cell["pad"], cell["size"])
    elif fam == "constdiv":
        mods = [{"name": "constdiv.pn", "src": _render_constdiv(cell)}]
        origin = "constdiv %s %s/%s" % (cell["op"], cell["ty"], cell["use"])
    elif fam == "opaque":
        mods = [{"name": "opaque.pn", "src": _render_opaque(cell)}]
        origin = "opaque %s" % cell["use"]
    elif fam == "target":
        mods, wasm = _render_target(cell)
        origin = "target %s %s/%s%s%s%s" % (cell["what"], cell["a"], cell["b"], "/" + cell["src"] if "src" in cell else "",
                                             "/" + cell["place"] if "place" in cell else "", "/wasm" if wasm else "")
    elif fam == "joinstr":
        src, fault = _render_joinstr(cell, exp)
        mods = [{"name": "join.pn", "src": src}]
        origin = "joinstr x%d %s/%s" % (cell["parts"], cell["layout"], cell["ctx"])
    elif fam == "rettype":
        mods, fault = _render_rettype(cell, exp)
        origin = "rettype %s/%s/%s" % (cell["what"], cell["form"], cell["order"])
    elif fam == "chain":
        src, fault = _render_chain(cell, exp)
        mods = [{"name": "chain.pn", "src": src}]
        origin = "chain %s x%d bad=%d %s/%s/%s" % (cell["op"], cell["n"], cell["bad"], cell["layout"], cell["ctx"], cell["ty"])
    elif fam == "names":
        mods = _render_names(cell)
        origin = "names %s/%s" % (cell["kind"], cell["link"])
    else:
        mods = _render_sym(cell)
        origin = "sym %s/%s/%s%s" % (cell["flags"].replace(" ", "+") or "private", cell["kind"], cell["place"],
                                     "" if cell.get("twin", "none") == "none" else "/twin=" + cell["twin"].replace(" ", "+"))
    out = {"id": "shape%d" % idx, "kind": "shape:" + fam, "wasm": wasm, "mods": mods, "origin": origin}
    if fam in ("chain", "rettype", "joinstr"):
        out["fault"] = fault
    if exp["t"] != "free":
        out["expect"] = {"t": exp["t"]}
        if exp["t"] == "valid":
            # the functions the renderer wrote (first, last and main of the texts it filled with declarations)
            fns = sorted(set(re.findall(r"^(?:pub |extern )*fn (\w+)\([^;\n]*$", "\n".join(m["src"] for m in mods), re.M)))
            out["expect"]["fns"] = fns if len(fns) <= 8 else fns[:3] + fns[-3:] + ["main"]
    return out


TIERS = {
    # n_mut, n_soup, n_nest, n_fault, n_multi, n_line, n_struct, audit families on/off; token cfgs; module-set cfg; statement-placement cfg
    "quick": dict(xgen=[150, 120, 2], gen=[9000, 1500, 480, 1200, 1500, 4000, 600, 1], tok=["PipelineTokens_quick.cfg"], mc="MC_Pipeline_quick.cfg",
                  place="MC_Placement_quick.cfg", wide="MC_PipelineWide_quick.cfg", shapes="PipelineShapes_quick.cfg",
                  scope=["MC_VarScope_dead_quick.cfg", "MC_VarScope_phased_quick.cfg"]),
    "thorough": dict(xgen=[2500, 1200, 3], gen=[120000, 20000, 1440, 12000, 15000, 50000, 6000, 1],
                     tok=["PipelineTokens_quick.cfg", "PipelineTokens_thorough3.cfg"], mc="MC_Pipeline_thorough.cfg",
                     place="MC_Placement_quick.cfg", wide="MC_PipelineWide_thorough.cfg", shapes="PipelineShapes_thorough.cfg",
                     scope=["MC_VarScope_dead_thorough.cfg", "MC_VarScope_quick.cfg", "MC_VarScope_phased_quick.cfg",
                            "MC_VarScope_else_quick.cfg", "MC_VarScope_ret_quick.cfg", "MC_VarScope_ctx_quick.cfg"]),
}


def placement_items(case):
    """token kinds of spec/Placement.tla (S G LP L O C I E) -> items of harness/src/flat.rs, as checks/c06.py does:
    gotos target a final label z, labels get unique names"""
    out = []
    for i, k in enumerate(case["b"]):
        if k == "G":
            out.append("Gz")
        elif k == "L":
            out.append("Lq%d" % i)
        else:
            out.append(k)
    return out + ["Lz"]


def cache_dir(tier, seed):
    key = "%s-s%d-%s-%s" % (tier, seed, repo_state(), harness_state())
    return os.path.join(common.WORK, "pipeline-cache-" + key)


def _tlc(module, cfg, tag, timeout):
    r = common.tlc(module, cfg, workers=TLC_WORKERS, timeout=timeout, heap="6g",
                   tag="pipeline-%s-%s-%d" % (tag, cfg.replace(".cfg", ""), os.getpid()), keep_output=False)
    log("[tlc] %s/%s: %d states generated, %d distinct, %d cases, %.1fs, %s" %
        (module, cfg, r.generated, r.distinct, len(r.cases), r.wall,
         "no invariant violated" if r.ok else "INVARIANT %s VIOLATED" % r.violated))
    return r


def ensure_run(tier, seed):
    """Returns the meta dict of the worker run for this tier/seed/tree state, computing it if absent."""
    d = cache_dir(tier, seed)
    os.makedirs(common.WORK, exist_ok=True)
    lock_path = d + ".lock"
    with open(lock_path, "w") as lock:
        fcntl.flock(lock, fcntl.LOCK_EX)
        meta_path = os.path.join(d, "meta.json")
        if os.path.exists(meta_path):
            meta = json.load(open(meta_path))
            log("[cache] re-using the worker run %s (%d cases)" % (d, meta["cases"]))
            return meta
        # drop caches of older tree states of this tier (disk)
        for name in os.listdir(common.WORK):
            full = os.path.join(common.WORK, name)
            if name.startswith("pipeline-cache-%s-s%d-" % (tier, seed)) and full != lock_path:
                if os.path.isdir(full):
                    # (a run on ANOTHER tree may be filling its own .tmp right now: two checks on two scratch worktrees side by side)
                    if name.endswith(".tmp") and time.time() - os.path.getmtime(full) < 3600:
                        continue
                    shutil.rmtree(full, ignore_errors=True)
                elif name.endswith(".lock"):
                    try:
                        os.remove(full)
                    except OSError:
                        pass
        tmp = d + ".tmp"
        shutil.rmtree(tmp, ignore_errors=True)
        os.makedirs(tmp)
        meta = _compute_run(tier, seed, tmp)
        json.dump(meta, open(os.path.join(tmp, "meta.json"), "w"), indent=1)
        os.rename(tmp, d)
        meta = json.load(open(meta_path))
        return meta


def _compute_run(tier, seed, d):
    cfg = TIERS[tier]
    common.build_harness(EXE)
    t0 = time.time()
    tlc_stats = {}
    cases = []
    # (a) every token sequence up to the bound, from TLC
    ntok = 0
    for tc in cfg["tok"]:
        r = _tlc("PipelineTokens", tc, "tok", 1500)
        if not r.ok:
            raise ToolError("PipelineTokens: %s violated" % r.violated)
        tlc_stats[tc] = {"generated": r.generated, "distinct": r.distinct, "cases": len(r.cases)}
        seen = set()
        for c in r.cases:
            key = (c["ctx"], tuple(c["toks"]))
            if key in seen:
                continue
            seen.add(key)
            cases.append(render_tokens(c, ntok))
            ntok += 1
    # (a') every module set up to the bound, from TLC (the protocol model)
    r = _tlc("MC_Pipeline", cfg["mc"], "mc", 3000)
    tlc_stats[cfg["mc"]] = {"generated": r.generated, "distinct": r.distinct, "cases": len(r.cases),
                            "ok": r.ok, "violated": r.violated}
    for i, c in enumerate(r.cases):
        cases.append(render_set(c, i))
    # (a3) module sets of 4-6 modules (import topologies x fault places x position of main) and structured cells
    # (builtins x contexts x modules, nesting at the documented bound, exact sizes, symbol-table shapes), from TLC
    r = _tlc("MC_PipelineWide", cfg["wide"], "wide", 900)
    if not r.ok or not r.cases:
        raise ToolError("MC_PipelineWide: %s" % (r.violated or "no cases"))
    tlc_stats[cfg["wide"]] = {"generated": r.generated, "distinct": r.distinct, "cases": len(r.cases)}
    for i, c in enumerate(sorted(r.cases, key=lambda c: json.dumps(c, sort_keys=True))):
        cases.append(render_wide(c, i))
    r = _tlc("PipelineShapes", cfg["shapes"], "shapes", 900)
    if not r.ok or not r.cases:
        raise ToolError("PipelineShapes: %s" % (r.violated or "no cases"))
    tlc_stats[cfg["shapes"]] = {"generated": r.generated, "distinct": r.distinct, "cases": len(r.cases)}
    for i, c in enumerate(sorted(r.cases, key=lambda c: json.dumps(c["cell"], sort_keys=True))):
        cases.append(render_shape(c, i))
    # (a'') every statement placement up to the bound (spec/Placement.tla of C06, read-only): compiled through the
    # WHOLE pipeline here, so that whatever the analyzers wrongly accept reaches the generator
    r = _tlc("MC_Placement", cfg["place"], "place", 1500)
    tlc_stats[cfg["place"]] = {"generated": r.generated, "distinct": r.distinct, "cases": len(r.cases)}
    items_path = os.path.join(d, "place-items.ndjson")
    place_path = os.path.join(d, "place-cases.ndjson")
    seen = set()
    with open(items_path, "w") as f:
        for c in r.cases:
            key = tuple(c["b"])
            if key in seen:
                continue
            seen.add(key)
            f.write(json.dumps({"id": "place%d" % len(seen), "b": placement_items(c)}) + "\n")
    # (a3') the bodies the variable-scoping rule ACCEPTS (spec/VarScope.tla of C05, read-only): declarations in dead code after an
    # unconditional goto that are used after a later label, phased bodies, else-chains, results -- whatever the scoper lets through
    # has to come out of the generator as IR (seventh round of seeded changes, C02g)
    for scfg in cfg["scope"]:
        r = _tlc("MC_VarScope", scfg, "scope", 1500)
        tlc_stats[scfg] = {"generated": r.generated, "distinct": r.distinct, "cases": len(r.cases), "foreign": True}
        with open(items_path, "a") as f:
            for c in r.cases:
                key = ("scope",) + tuple(c["b"])
                if not c["ok"] or c["consts"] or c["params"] or key in seen:
                    continue
                seen.add(key)
                f.write(json.dumps({"id": "scope%d" % len(seen), "b": c["b"]}) + "\n")
    pvh(["render-flat", items_path, place_path])
    with open(place_path) as f:
        for line in f:
            c = json.loads(line)
            if c["id"].startswith("scope"):
                # the scoping rule accepts the body and nothing else can be wrong with it: I4
                c["kind"] = "scope"
                c["expect"] = {"t": "valid"}
            cases.append(c)
    os.remove(items_path)
    os.remove(place_path)
    n_tlc = len(cases)
    # (b) seeded generators of the harness
    gen_path = os.path.join(d, "gen.ndjson")
    pvh(["gen", gen_path, seed] + cfg["gen"])
    with open(gen_path) as f:
        for line in f:
            cases.append(json.loads(line))
    os.remove(gen_path)
    # (c) programs of the generators of OTHER checks (read-only use of their harness binaries): the well-formed random
    # programs of C01 (expected to compile: I4) and the permutation family of C11 in several declaration orders.  Whatever
    # those checks conclude about values and verdicts, here the compilations have to END as the protocol says.
    n_mach, n_perm, n_orders = cfg["xgen"]
    for exe, args in (("pvh_machine", ["sources", n_mach, seed, gen_path]), ("pvh_modules", ["perm-sources", n_perm, seed, n_orders, gen_path])):
        common.pvh(args, exe_name=exe, timeout=1800)
        with open(gen_path) as f:
            for line in f:
                cases.append(json.loads(line))
        os.remove(gen_path)
    cases_path = os.path.join(d, "cases.ndjson")
    common.write_ndjson(cases_path, cases)
    events_path = os.path.join(d, "events.ndjson")
    ir_dir = os.path.join(d, "ir")
    t1 = time.time()
    p = pvh(["run", cases_path, events_path, "--ir-dir", ir_dir, "--timeout", "10", "--batch", "300"], timeout=7200)
    summary = json.loads(p.stdout.strip().splitlines()[-1])
    log("[worker] %d cases (%d from TLC) run in isolated children: %d events, %.1fs" %
        (summary["cases"], n_tlc, summary["events"], time.time() - t1))
    return {"dir": d.replace(".tmp", ""), "tier": tier, "seed": seed, "cases": summary["cases"], "events": summary["events"],
            "from_tlc": n_tlc, "notes": summary.get("notes", []), "tlc": tlc_stats, "wall": round(time.time() - t0, 1),
            "repo_state": repo_state()}


def paths(meta):
    d = meta["dir"]
    return {"cases": os.path.join(d, "cases.ndjson"), "events": os.path.join(d, "events.ndjson"), "ir": os.path.join(d, "ir")}


class Cases:
    """id -> case, read from the cases file on demand (the thorough tier has ~700k cases)"""

    def __init__(self, path):
        self.path = path
        self.offsets = {}
        with open(path, "rb") as f:
            pos = 0
            for line in f:
                m = re.search(rb'"id":\s*"([^"]+)"', line[:200]) or re.search(rb'"id":\s*"([^"]+)"', line)
                self.offsets[m.group(1).decode()] = pos
                pos += len(line)
        self.f = open(path, "rb")
        self.lock = threading.Lock()

    def __getitem__(self, cid):
        with self.lock:
            self.f.seek(self.offsets[cid])
            line = self.f.readline()
        return json.loads(line)

    def __contains__(self, cid):
        return cid in self.offsets

    def __iter__(self):
        return iter(self.offsets)

    def __len__(self):
        return len(self.offsets)


def load_cases(path):
    return Cases(path)


def grouped_events(path):
    """yields (input_event, [events...], first_line_number)"""
    cur = None
    evs = []
    start = 0
    with open(path) as f:
        for n, line in enumerate(f, 1):
            e = json.loads(line)
            if e["ev"] == "input":
                if cur is not None:
                    yield cur, evs, start
                cur, evs, start = e, [], n
            else:
                evs.append(e)
    if cur is not None:
        yield cur, evs, start


def end_of(evs):
    """terminal classification of a run"""
    if not evs:
        return "none", None
    last = evs[-1]
    t = last["ev"]
    if t == "outcome":
        if last["ok"]:
            return "success", last
        return ("failure" if last["codes"] else "silent"), last
    return t, last


# ---------------------------------------------------------------------------
# trace validation with reject-and-resume
# ---------------------------------------------------------------------------
def split_events(src, prefix, parts, transform=None):
    """Split an events file into about `parts` files at case boundaries (streaming);
    transform(input, evs) -> (input, evs) or None to drop the run.  Returns (files, number of runs written)."""
    total = 0
    with open(src) as f:
        for line in f:
            if line.startswith('{"ev":"input"') or '"ev":"input"' in line[:400]:
                total += 1
    per = max(1, -(-total // parts))
    files = []
    out = None
    written = 0
    seen = 0
    for inp, evs, _ in grouped_events(src):
        if seen % per == 0:
            if out is not None:
                out.close()
            path = "%s.%d.ndjson" % (prefix, len(files))
            out = open(path, "w")
            files.append(path)
        seen += 1
        if transform is not None:
            res = transform(inp, evs)
            if res is None:
                continue
            inp, evs = res
        out.write(json.dumps(inp, separators=(",", ":")) + "\n")
        for e in evs:
            out.write(json.dumps(e, separators=(",", ":")) + "\n")
        written += 1
    if out is not None:
        out.close()
    keep = []
    for path in files:
        if os.path.getsize(path) == 0:
            os.remove(path)
        else:
            keep.append(path)
    return keep, written


def validate_traces(module, cfg, files, timeout=3000, parallel=6, extra_env=None):
    """One single-worker TLC per file.  Returns list of dicts {file, complete, total, rejects:[{line,id,ev,after}], states}."""
    pending = list(files)
    running = []
    results = []

    def start(path):
        tag = "pipeline-tr-%s-%d" % (os.path.basename(path).replace(".ndjson", ""), os.getpid())
        metadir = os.path.join(common.WORK, "md-" + tag)
        shutil.rmtree(metadir, ignore_errors=True)
        out_path = os.path.join(common.WORK, tag + ".out")
        e = dict(os.environ)
        e["TRACE"] = path
        if extra_env:
            e.update(extra_env)
        cmd = ["timeout", str(timeout), "java", "-Xss1g", "-Xmx3g", "-XX:+UseSerialGC",
               "-Dtlc2.tool.queue.IStateQueue=StateDeque", "-cp", common.tlc_java_cp(), "tlc2.TLC", "-workers", "1",
               "-metadir", metadir, "-cleanup", "-noGenerateSpecTE", "-config", os.path.join(common.SPEC, cfg),
               os.path.join(common.SPEC, module + ".tla")]
        out = open(out_path, "w")
        p = subprocess.Popen(cmd, stdout=out, stderr=subprocess.STDOUT, env=e, cwd=common.SPEC)
        return (p, path, out_path, out, metadir, time.time())

    while pending or running:
        while pending and len(running) < parallel:
            running.append(start(pending.pop(0)))
        time.sleep(0.05)
        still = []
        for item in running:
            p, path, out_path, out, metadir, t0 = item
            if p.poll() is None:
                still.append(item)
                continue
            out.close()
            shutil.rmtree(metadir, ignore_errors=True)
            res = {"file": path, "complete": False, "total": 0, "rejects": [], "notes": [], "states": 0,
                   "wall": time.time() - t0}
            seen = set()
            seen_notes = set()
            for line in open(out_path, errors="replace"):
                line = line.rstrip("\n")
                if line.startswith('<<"TRACE"'):
                    d = common._decode_print(line)
                    if d and isinstance(d[1], dict):
                        res["complete"] = bool(d[1].get("accepted"))
                        res["total"] = int(d[1].get("total", 0))
                elif line.startswith('<<"REJECT"'):
                    d = common._decode_print(line)
                    if d and isinstance(d[1], dict) and d[1]["line"] not in seen:
                        seen.add(d[1]["line"])
                        res["rejects"].append(d[1])
                elif line.startswith('<<"NOTE"'):
                    d = common._decode_print(line)
                    if d and isinstance(d[1], dict) and json.dumps(d[1], sort_keys=True) not in seen_notes:
                        seen_notes.add(json.dumps(d[1], sort_keys=True))
                        res["notes"].append(d[1])
                m = re.match(r"^(\d+) states generated, (\d+) distinct states found", line)
                if m:
                    res["states"] = int(m.group(2))
            if p.returncode == 124:
                raise ToolError("TLC trace validation timed out on %s" % path)
            if not res["complete"]:
                tail = "".join(open(out_path, errors="replace").readlines()[-30:])
                sys.stdout.write(tail)
                raise ToolError("TLC trace validation did not reach the end of %s (exit %s)" % (path, p.returncode))
            os.remove(out_path)
            results.append(res)
        running = still
    return results


# ---------------------------------------------------------------------------
# canonical keys of violations (failure signature + input identification)
# ---------------------------------------------------------------------------
def norm_path(p):
    p = p or ""
    for root in (os.path.realpath(common.REPO), common.REPO, "/repo"):
        if p.startswith(root + "/"):
            return p[len(root) + 1:]
    return p


_BUILTIN = re.compile(r"\b(print|eprint|dbg|panic|abort|format)!")


def tags_of(case):
    mods = case.get("mods", [])
    t = []
    nb = sum(1 for m in mods if _BUILTIN.search(m["src"]))
    t.append("mods=%d" % len(mods))
    t.append("builtin-mods=%d" % nb)
    if case.get("wasm"):
        t.append("wasm")
    return ",".join(t)


def ident(case):
    if case.get("origin") and case.get("kind") not in ("corpus", "corpus-set", "corpus-wasm", "set"):
        return "%s %s #%s" % (case.get("kind", "?"), case["origin"], case.get("id"))
    return "%s %s" % (case.get("kind", "?"), case.get("origin") or case.get("id"))


class Findings:
    """Collects discrepancies and reports them round-robin over their signatures, so that the first
    replay files written (common.Report writes 50) show every distinct signature."""

    def __init__(self):
        self.by_sig = {}

    def add(self, sig, kind, key, detail):
        q = self.by_sig.setdefault(sig, [])
        if any(k == kind and ky == key for k, ky, _ in q):
            return          # the same input and clause once
        q.append((kind, key, detail))

    def counts(self):
        return {(" / ".join(map(str, k)) if isinstance(k, tuple) else str(k)): len(v) for k, v in self.by_sig.items()}

    def flush(self, rep):
        queues = [list(v) for _, v in sorted(self.by_sig.items(), key=lambda kv: len(kv[1]))]
        while queues:
            for q in list(queues):
                kind, key, detail = q.pop(0)
                rep.violation(kind, key, detail)
                if not q:
                    queues.remove(q)

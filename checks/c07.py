"""C07 -- No implicit conversions: ill-typed programs are rejected (spec/TypeRules.tla).

 1. TLC enumerates the whole operator / cast / assignment / initialisation / argument / return matrix
    (spec/MC_TypeRules.tla), checks the model of the resolver's decision order against the rule
    (invariant Agree) and emits one CASE per cell with the rule's verdict;
 2. every cell is rendered as a minimal fully annotated program and compiled by the real front end
    (pvh_types replay-c07); accept / reject and the code on the line of the construct are compared with
    the rule (VIOLATION) and with the model (MODEL-DRIFT);
 3. larger generated well-typed programs, the valid corpus and single-edit mutants are compiled, one
    `fact` per typed node of the RESOLVED tree and one `mut` per mutant are recorded, and TLC validates
    them against the same judgement (spec/Trace_TypeRules.tla).
"""
import collections
import json
import os
import random

from . import common
from .common import log

PROP = "C07"
FAMILY = set(range(500, 560)) | {333}


def tag(name):
    return "%s-%s-%d" % (PROP, name, os.getpid())


def compare_cell(case, obs):
    """Property-level comparison of one replayed cell.  Returns (kind, message) or None.

    A cell may stand next to a SECOND unit (field `pre`: a statement / function before or after it).  TLC judges
    that neighbour on its own (`pok`, `pcodes`); the construct keeps its own verdict: independent constructs are
    diagnosed independently, a well-typed construct gets no diagnostic on its line whatever stands next to it."""
    if obs.get("panic"):
        return ("panic", "the compiler panicked (%s): the verdict of the rule (%s) cannot be observed" %
                (obs["panic"], "accept" if case["ok"] else "reject with %s" % case["codes"]))
    if obs.get("silent"):
        return ("silent", "compilation failed without any diagnostic")
    at_line = sorted(set(c for c, l in obs["diags"] if l == obs["line"]))
    bad_neighbour = not case.get("pok", True)
    if bad_neighbour:
        at_pre = sorted(set(c for c, l in obs["diags"] if l == obs.get("pre_line")))
        if not set(at_pre) & set(case["pcodes"]):
            return ("neighbour-not-diagnosed", "the ill-typed unit next to the construct (line %s) must be rejected with one of %s; "
                    "diagnostics: %s" % (obs.get("pre_line"), case["pcodes"], obs["diags"]))
    if case["unc"]:
        return None
    if case["ok"]:
        if bad_neighbour:
            if at_line:
                return ("rejected-welltyped", "a well-typed construct (result type %s) next to an ill-typed unit is reported: %s" %
                        (".".join(case["ty"]), obs["diags"]))
            return None
        if not obs["ok"]:
            return ("rejected-welltyped", "a well-typed construct (result type %s) is rejected: %s" %
                    (".".join(case["ty"]), obs["diags"]))
        return None
    if obs["ok"] or (bad_neighbour and not at_line):
        return ("accepted-illtyped", "an ill-typed construct is accepted%s; the rule demands one of %s" %
                (" (no diagnostic on its line; only its ill-typed neighbour is reported: %s)" % obs["diags"] if bad_neighbour else "",
                 case["codes"]))
    if not set(at_line) & set(case["codes"]):
        return ("wrong-code", "rejected, but with %s on the line of the construct (all: %s); the rule names %s" %
                (at_line, obs["diags"], case["codes"]))
    return None


def drift_cell(case, obs):
    if obs.get("panic") or not case.get("hm"):
        return None
    at_line = sorted(set(c for c, l in obs["diags"] if l == obs["line"] and (c in FAMILY)))
    if at_line != sorted(case["m"]):
        return "codes on the construct %s, model %s" % (at_line, case["m"])
    return None


def violation_key(case, obs, kind):
    key = obs["key"]
    if kind == "panic":
        key += " :: panic=" + obs["panic"]
    elif kind in ("accepted-illtyped", "rejected-welltyped", "wrong-code", "silent", "neighbour-not-diagnosed"):
        key += " :: " + kind
    return key


def nontrivial(case):
    """A cell is non-trivial if it is not a plain same-type primitive pair accepted by every rule, i.e. it
    exercises a rejection, a coercion, an address marker or an unconstrained decision."""
    c = case["c"]
    return (not case["ok"]) or case["unc"] or c["ka"] > 0 or c["kb"] > 0 or c["a"] != c["b"]


def replay_cells(rep, tier, selftest):
    cfg = "MC_TypeRules_%s.cfg" % tier
    r = common.tlc("MC_TypeRules", cfg, workers=4, timeout={"quick": 600, "thorough": 1700}[tier], heap="4g",
                   tag=tag("mc"), keep_output=False)
    log("[tlc] MC_TypeRules/%s: %d states generated, %d distinct, %d cells, %.1fs, %s" %
        (cfg, r.generated, r.distinct, len(r.cases), r.wall,
         "A |= R on every cell" if r.ok else "INVARIANT %s VIOLATED" % r.violated))
    if not r.ok:
        log("[tlc] counterexample tail:\n" + r.tail[-2500:])
    cases = r.cases
    if not cases:
        raise common.ToolError("TLC emitted no cells")
    cases_path = os.path.join(common.WORK, tag("cases") + ".ndjson")
    obs_path = os.path.join(common.WORK, tag("obs") + ".ndjson")
    common.write_ndjson(cases_path, cases)
    common.pvh(["replay-c07", cases_path, obs_path], exe_name="pvh_types", env={"PVH_THREADS": os.environ.get("PVH_THREADS", "8")})
    observations = common.read_ndjson(obs_path)
    if len(observations) != len(cases):
        raise common.ToolError("replay returned %d observations for %d cells" % (len(observations), len(cases)))
    agree = 0
    modelled = 0
    nontriv = set()
    per_ctx = collections.Counter()
    verdicts = collections.Counter()
    for case, obs in zip(cases, observations):
        per_ctx[case["c"]["ctx"]] += 1
        verdicts["unconstrained" if case["unc"] else ("accept" if case["ok"] else "reject")] += 1
        if nontrivial(case):
            nontriv.add(obs["key"])
        problem = compare_cell(case, obs)
        if problem:
            kind, msg = problem
            rep.violation("cell", violation_key(case, obs, kind),
                          {"case": case, "observed": obs, "problem": kind, "message": msg,
                           "how": "bin/check C07 --replay <this file>"})
        if case.get("hm"):
            modelled += 1
            d = drift_cell(case, obs)
            if d:
                rep.note_drift("%s: %s" % (obs["key"], d))
            else:
                agree += 1
    log("[replay] %d cells replayed on the real compiler (%s), %d violations so far, model agreement %d/%d" %
        (len(cases), dict(verdicts), len(rep.violations), agree, modelled))
    # The same cells as the SECOND module of a compilation (`penne pre.pn case.pn`): the first module leaves behind whatever
    # the stages keep per module (symbols, resolution ids 1..40 of variables / parameters / members / constants of every
    # common type).  The rule knows nothing of other modules: the verdict on the cell is the same.
    obs2_path = os.path.join(common.WORK, tag("obs2") + ".ndjson")
    common.pvh(["replay-c07", cases_path, obs2_path], exe_name="pvh_types",
               env={"PVH_THREADS": os.environ.get("PVH_THREADS", "8"), "PVH_PREMODULE": "1"})
    second = common.read_ndjson(obs2_path)
    if len(second) != len(cases):
        raise common.ToolError("replay (second module) returned %d observations for %d cells" % (len(second), len(cases)))
    n2 = 0
    for case, obs, obs2 in zip(cases, observations, second):
        problem = compare_cell(case, obs2)
        if problem and not compare_cell(case, obs):
            kind, msg = problem
            n2 += 1
            rep.violation("cell", violation_key(case, obs2, kind) + " ^second-module",
                          {"case": case, "observed": obs2, "observed_alone": obs, "problem": kind,
                           "message": msg + " (as the second module of a compilation; alone the cell behaves as the rule says)",
                           "how": "bin/check C07 --replay <this file>"})
    log("[replay] the same %d cells as the second module of a compilation: %d differ from the rule only there" % (len(cases), n2))
    os.remove(obs2_path)
    if not r.ok and not rep.violations and not rep.known_hits:
        rep.note_drift("TLC reports %s violated but no replayed cell shows it on the real code" % r.violated)
    selftests = {}
    if selftest:
        # flip the verdict of one accepted and one rejected cell: the comparison must notice both
        ia = next(i for i, c in enumerate(cases) if c["ok"] and not c["unc"])
        ir = next(i for i, c in enumerate(cases) if not c["ok"])
        fa = dict(cases[ia], ok=False, codes=[551])
        fr = dict(cases[ir], ok=True, codes=[])
        wrong = dict(cases[ir], codes=[599])
        selftests["flipped_accept_detected"] = compare_cell(fa, observations[ia]) is not None
        selftests["flipped_reject_detected"] = compare_cell(fr, observations[ir]) is not None
        selftests["wrong_code_detected"] = compare_cell(wrong, observations[ir]) is not None
    for f in (cases_path, obs_path):
        if os.path.exists(f) and not rep.violations:
            os.remove(f)
    return {
        "tlc": r, "cases": cases, "observations": observations, "agree": agree, "modelled": modelled,
        "nontrivial": nontriv, "per_ctx": dict(per_ctx), "verdicts": dict(verdicts), "selftests": selftests, "cfg": cfg,
    }


CORPUS = ["tests/samples/valid", "examples", "core", "vendor"]
RECORD = {"quick": (240, 14, 8), "thorough": (3000, 16, 10)}      # programs, statements, mutants per program


def bad_lines(result):
    out = []
    for line in open(result["output"], errors="replace"):
        if line.startswith('<<"BAD", '):
            out.append(int(line.split(",")[1].strip(" >\n")))
    return out


def trace_key(rec):
    """(kind, key, message) of a rejected trace line."""
    if rec["ev"] == "mut":
        if rec.get("panic"):
            what = "panic=" + rec["panic"]
        elif rec.get("silent"):
            what = "silent"
        elif rec["ok"]:
            what = "accepted-illtyped"
        else:
            what = "wrong-code"
        return ("mut", "%s :: %s" % (rec["key"], what),
                "mutant (%s) of a well-typed generated program: %s; codes on the edited line %s, all %s" %
                (rec["edit"], what, rec["codes"], rec["all"]))
    if rec["ev"] == "prog":
        what = "panic=" + rec["panic"] if rec.get("panic") else ("silent" if rec.get("silent") else "rejected-welltyped")
        return ("prog", "%s :: %s" % (rec["name"], what), "a generated well-typed program is not accepted: %s" % rec.get("codes"))
    return ("fact", "%s %s %s %s %s" % (rec.get("ctx"), rec.get("op") or "-", ".".join(rec.get("a", [])) or "-",
                                         ".".join(rec.get("b", [])) or "-", ".".join(rec.get("r", [])) or "-"),
            "the resolved tree of an accepted program contains a node that the typing judgement rejects")


def validate_traces(rep, tier, seed, selftest):
    count, statements, mutants = RECORD[tier]
    chunks = max(2, min(12, count // 100))
    prefix = os.path.join(common.WORK, tag("trace"))
    corpus = [os.path.join(common.REPO, d) for d in CORPUS]
    common.pvh(["record-c07", count, seed, prefix, chunks, statements, mutants] + corpus, exe_name="pvh_types",
               env={"PVH_THREADS": os.environ.get("PVH_THREADS", "8")})
    files = [f for f in ("%s.%d.ndjson" % (prefix, c) for c in range(chunks)) if os.path.exists(f) and os.path.getsize(f) > 0]
    sources = None
    stats = collections.Counter()
    edits = collections.Counter()
    distinct = set()
    samples = []
    for f in files:
        for line in open(f):
            o = json.loads(line)
            stats[o["ev"]] += 1
            if o["ev"] == "prog":
                stats["prog-%s-%s" % (o["kind"], "accepted" if o["ok"] else ("panic" if o.get("panic") else "rejected"))] += 1
            elif o["ev"] == "mut":
                edits[o["edit"]] += 1
                distinct.add("mut " + o["key"])
                if len(samples) < 3:
                    samples.append(o)
            elif o["ev"] == "fact":
                distinct.add("fact %s %s %s %s" % (o["ctx"], o["op"], ".".join(o["a"]), ".".join(o["b"])))
    results = common.tlc_traces("Trace_TypeRules", "Trace_TypeRules.cfg", files, timeout={"quick": 900, "thorough": 3000}[tier],
                                parallel=4)
    accepted_lines = 0
    for res in results:
        if res["matched"] != res["total"]:
            raise common.ToolError("trace validation stopped at line %d of %s" % (res["matched"] + 1, res["file"]))
        bad = bad_lines(res)
        accepted_lines += res["total"] - len(bad)
        if not bad:
            continue
        lines = open(res["file"]).read().splitlines()
        if sources is None:
            sources = {}
            for line in open(prefix + ".sources.ndjson"):
                o = json.loads(line)
                sources[(o["id"], o["mut"])] = o["source"]
        for b in bad:
            rec = json.loads(lines[b - 1])
            kind, key, msg = trace_key(rec)
            rep.violation(kind, key, {"record": rec, "message": msg, "trace_file": res["file"], "line": b,
                                      "source": sources.get((rec.get("id"), rec.get("mut", -1)), ""),
                                      "how": "bin/check C07 --replay <this file>"})
    log("[trace] %d recorded lines (%d programs: %d generated accepted, corpus %d accepted / %d rejected / %d panicked; "
        "%d facts; %d mutants) validated by TLC: %d satisfy the judgement" %
        (sum(r["total"] for r in results), stats["prog"], stats["prog-gen-accepted"], stats["prog-corpus-accepted"],
         stats["prog-corpus-rejected"], stats["prog-corpus-panic"], stats["fact"], stats["mut"], accepted_lines))
    selftests = {}
    if selftest and files:
        selftests = trace_selftest(files[0])
    if not rep.violations:
        for f in files + [prefix + ".sources.ndjson"]:
            if os.path.exists(f):
                os.remove(f)
    return {"lines": sum(r["total"] for r in results), "accepted_lines": accepted_lines, "stats": dict(stats),
            "edits": dict(edits), "distinct": distinct, "samples": samples, "selftests": selftests}


def trace_selftest(path):
    """Corrupt a copy of a recording in three ways; TLC must flag exactly the corrupted lines."""
    lines = open(path).read().splitlines()
    out = {}
    tests = []
    im = next((i for i, l in enumerate(lines) if '"ev":"mut"' in l and '"ok":false' in l and '"panic"' not in l), None)
    if im is not None:
        o = json.loads(lines[im])
        o["ok"] = True
        o["codes"] = []
        tests.append(("accepted_mutant_flagged", im, json.dumps(o, separators=(",", ":"))))
        o2 = json.loads(lines[im])
        o2["codes"] = [599]
        tests.append(("wrong_code_mutant_flagged", im, json.dumps(o2, separators=(",", ":"))))
    i_f = next((i for i, l in enumerate(lines) if '"ev":"fact"' in l and '"ctx":"bin"' in l), None)
    if i_f is not None:
        o = json.loads(lines[i_f])
        o["b"] = ["bool"] if o["b"] != ["bool"] else ["i32"]
        tests.append(("illtyped_fact_flagged", i_f, json.dumps(o, separators=(",", ":"))))
    files = []
    for name, idx, new in tests:
        p = os.path.join(common.WORK, tag("selftest-" + name) + ".ndjson")
        lo = max(0, idx - 20)
        part = lines[lo:idx] + [new] + lines[idx + 1:idx + 20]
        open(p, "w").write("\n".join(part) + "\n")
        files.append((name, p, idx - lo + 1, part))
    if not files:
        return out
    res = common.tlc_traces("Trace_TypeRules", "Trace_TypeRules.cfg", [p for _, p, _, _ in files], timeout=300, parallel=3)
    by = {r["file"]: r for r in res}
    for name, p, corrupted, part in files:
        bad = bad_lines(by[p])
        # lines that were already bad in the original (known findings) do not count
        out[name] = corrupted in bad
        os.remove(p)
    return out


def run(rep, tier, seed, selftest):
    common.build_harness("pvh_types")
    os.makedirs(common.WORK, exist_ok=True)
    selftest = selftest or tier == "thorough"
    cells = replay_cells(rep, tier, selftest)
    r = cells["tlc"]
    cases, observations = cells["cases"], cells["observations"]
    selftests = dict(cells["selftests"])
    tr = validate_traces(rep, tier, seed, selftest)
    selftests.update(tr["selftests"])
    for name, ok in selftests.items():
        if not ok:
            raise common.ToolError("self-test %s failed: the binding does not detect a corrupted verdict / recording" % name)
    if selftests:
        log("[selftest] %s" % json.dumps(selftests))
    rnd = random.Random(seed)
    idx = sorted(rnd.sample(range(len(cases)), min(6, len(cases))))
    coverage = {
        "states": r.distinct,
        "transitions": r.generated,
        "traces_validated_against_impl": len(cases) + tr["accepted_lines"],
        "samples": [{"case": cases[i], "observed": observations[i]} for i in idx] + [{"trace_record": x} for x in tr["samples"]],
        "evaluations": len(cases) + tr["lines"],
        "distinct_nontrivial": len(cells["nontrivial"]) + len(tr["distinct"]),
        "rule": "TLC enumerates every cell of the typing matrix (MC_TypeRules.tla) and evaluates the rule R "
                "(TypeRules.tla) on it; every cell is rendered as a minimal fully annotated program and compiled by the "
                "real front end; accept/reject and the E5xx code on the line of the construct are compared with R. "
                "Second dimension: every KIND of cell is crossed, over a reduced set of type pairs (i32, u8, usize, bool, a "
                "pointer, an array -- not the full matrix), with every expression context of the offending expression "
                "(direct, parenthesised, element of an array literal passed to a []T parameter, member of a struct literal "
                "passed to a struct view, argument of another call, index, operand of a cast / operator, return value, "
                "condition) and every statement context (top level, block, loop block, then, else, else-if arm, final else "
                "after else-if, second else-if arm, after a label); the rule ignores the context. "
                "Further generator dimensions the rule ignores (dimension audit): the syntactic form of an operand (call result, cast, "
                "named constant, element of a (nested) array / of a view, (nested) member, member through a pointer, literal, `|x|`, "
                "`|:T|`), a second unit next to the construct (well-typed call / ill-typed statement before or after it, a function "
                "with a well-typed / ill-typed body or return value before or after its function; TLC judges the neighbour too), the "
                "position of the described argument among 2..4 and a second call of the callee in the same statement, the kind of "
                "callee (head, body before / after, pub, extern, libc names), flags of the enclosing function, words of every size, "
                "array lengths written as named constants and lengths that agree modulo 2^8 / 2^16 / 2^24, arrays of pointers, "
                "pointers to arrays of arrays / pointers / structs / words, a return value without return type, a poisoned variable "
                "stored in a struct member that a second function assigns. "
                "Non-trivial = distinct cells that are rejected, unconstrained, use an address marker or pair two different types. "
                "Seeded larger well-typed programs (all primitive types; expressions, assignments, calls, returns), the valid "
                "corpus and single-edit mutants are compiled (every module has TWO functions with bodies, the second before the "
                "first in every other module, every third mutant edits the second; the wrong operand of a mutant is a variable, a call "
                "result, a named constant or a cast); one fact per typed node of the resolved tree and one record per "
                "mutant are validated by TLC against the same judgement (Trace_TypeRules.tla); distinct (context, operator, "
                "types) facts and distinct mutant cells are added to the non-trivial count.",
        "exhaustive": True,
        "model_invariants_hold": r.ok,
        "violated_invariant": r.violated,
        "cells_replayed": len(cases),
        "cells_per_context": cells["per_ctx"],
        "verdicts": cells["verdicts"],
        "model_agreement": "%d/%d" % (cells["agree"], cells["modelled"]),
        "tlc_config": cells["cfg"],
        "trace_lines": tr["lines"],
        "trace_lines_satisfying_the_judgement": tr["accepted_lines"],
        "trace_stats": tr["stats"],
        "mutant_edits": tr["edits"],
        "selftests": selftests,
    }
    assumptions = [
        "TLC's evaluation of the rule R (spec/TypeRules.tla) is the oracle; the model of the resolver's decision order only yields MODEL-DRIFT notes",
        "type shapes are representatives: pointer/array/slice/struct/word types over i32 (thorough: more pointee and element types)",
        "cells the documentation leaves open are unconstrained (spec/UNCONSTRAINED-types.md) and accepted either way",
        "a rejected cell needs one diagnostic whose code the rule names on the line of the construct; other diagnostics are ignored",
    ]
    # type inference (spec/Inference.tla), the C07 half: a body whose constraints are unsatisfiable or undetermined must be
    # rejected, and the types resolved in an accepted body are THE solution (no execution, no random part here: those are C01's)
    from . import infer_part
    icov = infer_part.run_part(rep, tier, seed, selftest, focus="C07")
    coverage.update(icov)
    coverage["states"] = coverage.get("states", 0) + icov.get("infer_states", 0)
    coverage["transitions"] = coverage.get("transitions", 0) + icov.get("infer_transitions", 0)
    coverage["traces_validated_against_impl"] = coverage.get("traces_validated_against_impl", 0) + icov.get("infer_cases_replayed", 0)
    coverage["evaluations"] = coverage.get("evaluations", 0) + icov.get("infer_cases_replayed", 0)
    return rep.finish("model_checking", coverage, assumptions + list(infer_part.ASSUMPTIONS))


def replay(path):
    d = json.load(open(path))
    if d.get("kind", "").startswith("infer-"):
        from . import infer_part
        return infer_part.replay(path)
    detail = d.get("detail", {})
    print("kind=%s key=%s" % (d.get("kind"), d.get("key")))
    print(detail.get("message", ""))
    case = detail.get("case")
    if case is not None and "c" in case:
        p = common.pvh(["show-c07", json.dumps(case)], exe_name="pvh_types")
        print(p.stdout)
        print("rule:", json.dumps({k: case[k] for k in case if k != "c"}))
    elif "source" in detail:
        src = detail["source"]
        if src.endswith(".pn") and "\n" not in src and os.path.exists(src):
            src = open(src).read()
        for i, line in enumerate(src.splitlines(), 1):
            print("%3d | %s" % (i, line))
        print("recorded:", json.dumps(detail.get("record")))
        print("(the judgement of spec/TypeRules.tla on this record is evaluated by TLC: Trace_TypeRules.tla, trace file %s line %s)"
              % (detail.get("trace_file"), detail.get("line")))
    else:
        print(json.dumps(detail, indent=1))
    return 0

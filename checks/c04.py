"""C04 -- goto only ever jumps forward and outward (spec/LabelScope.tla)."""
import json
import zlib

from . import common, flatcheck

FAMILY = (400, 420)


def positions(obs, code):
    return sorted(line - obs["off"] for c, line in obs["diags"] if c == code)


def compare(case, obs):
    out = []
    if obs.get("panic"):
        return [("crash", "the compiler panicked: %s" % obs["panic"])]
    e400 = positions(obs, 400)
    e420 = positions(obs, 420)
    if sorted(set(e400)) != sorted(case["e400"]):
        out.append(("E400", "E400 reported at items %s, the rule demands %s" % (e400, case["e400"])))
    if not set(e420) <= set(case["clash"]):
        out.append(("E420-misplaced", "E420 at items %s but clashing labels are %s" % (e420, case["clash"])))
    if bool(e420) != bool(case["clash"]):
        out.append(("E420", "E420 reported: %s, clashing labels: %s" % (e420, case["clash"])))
    if case["ok"] and not obs["ok"]:
        out.append(("rejected-valid", "a body with only legal jumps and unique labels is rejected: %s" % obs["diags"]))
    if not case["ok"] and obs["ok"]:
        out.append(("accepted-invalid", "a body with an illegal jump or clashing label is accepted"))
    return out


def drift(case, obs):
    out = []
    if obs.get("panic"):
        return out
    if sorted(set(positions(obs, 420))) != sorted(case["m420"]):
        out.append("E420 lines %s, model %s" % (positions(obs, 420), case["m420"]))
    if len(positions(obs, 420)) != case["nclash"]:
        out.append("number of E420 %d, model %d" % (len(positions(obs, 420)), case["nclash"]))
    return out


# Layouts: dimensions of the rendering that are no part of the rule (docs/notes-flat.md).  Every emitted case is
# rendered in ONE of them, chosen by a checksum of the body and the seed (TLC's emission order is not deterministic), so
# that every layout meets every body shape class:
#   ret      the functions have a result (`-> i32`, `return: x` as last statement: the END of a body is a label + expression)
#   pparam   the function has a parameter
#   comments a comment (holding `goto`, braces) ends every line;  nonl  the file ends without a newline
#   rename   the labels are named like the variable `x` and like the function `f` (names shared across namespaces)
LAYOUTS = [
    {},
    {"ret": True},
    {"comments": True, "nonl": True},
    {"rename": {"a": "x", "b": "f"}},
    {"ret": True, "pparam": True, "nonl": True},
    {"rename": {"a": "f", "b": "g1"}, "comments": True},
    {"pparam": True},
    {"rename": {"a": "x", "b": "decoy"}, "ret": True, "comments": True, "nonl": True},
]
_state = {"seed": 0}


def prepare(case):
    # a second function that declares labels of the same names precedes the body (jumps into another function)
    c = dict(case)
    c["decoy"] = ["a", "b"]
    lay = dict(LAYOUTS[(zlib.crc32(" ".join(case["b"]).encode()) + _state["seed"]) % len(LAYOUTS)])
    if any(x.endswith("return") for x in case["b"]):
        # the body has its own `return:`; the layout must not add a second one (nor make `goto return` legal)
        lay.pop("ret", None)
    if lay:
        c["layout"] = lay
    return c


CFG = {
    "module": "MC_LabelScope",
    "prepare": prepare,
    # fns: modules of two (thorough: three) function bodies, every split; ret: bodies that end with `return:` and a
    # result expression, with `goto return` (the documented idiom) from every place
    "mc_cfg": {"quick": ["MC_LabelScope_quick.cfg", "MC_LabelScope_fns_quick.cfg", "MC_LabelScope_ret_quick.cfg"],
               "thorough": ["MC_LabelScope_thorough.cfg", "MC_LabelScope_fns_thorough.cfg", "MC_LabelScope_ret_thorough.cfg"]},
    "workers": 8,
    "compare": compare,
    "drift": drift,
    "nontrivial": lambda c: any(x[0] in "GIE" and x[-1].islower() for x in c["b"]) and any(x.startswith("L") for x in c["b"]),
    "trace_module": "Trace_LabelScope",
    "trace_cfg_rule": "Trace_LabelScope_rule.cfg",
    "trace_cfg_strict": "Trace_LabelScope_strict.cfg",
    "record_prop": "C04",
    "record_count": {"quick": 600, "thorough": 12000},
    "rule_text": "TLC enumerates every function body over {block, if-block, else/else-if block, goto, if-goto, "
                 "else-goto, else-if-goto, label} x 2 label names up to MaxLen items / depth 3 (Gen actions of "
                 "LabelScope.tla), checks the scoper model against the declarative rule on each, and emits each body; "
                 "every body is rendered and compiled by the real front end and its E400/E420 lines and verdict are "
                 "compared with the rule. Random bodies (<= 40 items, 4 names, depth 5) are recorded with hook events and "
                 "validated by TLC against the same rule. Dimension audit: modules of two / three function bodies in every split "
                 "(item F; the rule is applied per body, the scoper model runs through the whole module), bodies that end with "
                 "`return:` and a result expression with `goto return` from every place, every case rendered in one of 8 layouts "
                 "(result type, parameter, comments, no final newline, labels named like the variable / a function); every third "
                 "random run has 1-3 functions, results, nesting up to 9, up to 56 items, other statements between the labels. "
                 "Non-trivial = distinct bodies containing at least one goto and one label.",
    "assumptions": [
        "the renderer puts one item per line; line <-> item index is checked by projecting the parsed AST back",
        "conditions are `x == x`; jump legality does not depend on the condition",
        "jumps into other functions: every body is preceded by a function `decoy` that declares labels of all names used; the rule never makes them legal targets; "
        "in the fns / ret configurations and the audit runs the other function also follows, with gotos of its own",
        "layouts are no part of the rule: a label `return` appended by the `ret` layout, a comment, a renamed label change no verdict "
        "(the layout is part of the key of a violation)",
        "TLC's evaluation of the rule R (spec/LabelScope.tla) is the oracle; the algorithm model A only yields MODEL-DRIFT notes",
    ],
}


def run(rep, tier, seed, selftest):
    _state["seed"] = seed
    return flatcheck.run_flat(rep, tier, seed, selftest or tier == "thorough", CFG)


def replay(path):
    d = json.load(open(path))
    case = d["detail"].get("case")
    if case is None:
        print(json.dumps(d, indent=1))
        return 0
    p = common.pvh(["show-flat", json.dumps(case)])
    print(p.stdout)
    print("rule:", json.dumps({k: case[k] for k in case if k != "b"}))
    return 0

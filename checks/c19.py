"""C19 -- The token fuzzer emits only valid lexemes.

spec/Fuzzer.tla models the emission automaton of `fill_to_capacity_with_tokens` (line breaks, comments,
add_whitespace, add_space_if_necessary, one spelling class per token kind); TLC checks with the reference
lexer PenneLex that everything the model can write lexes without a lexical error for both generations and
is valid UTF-8, and that 95% of kb*1096 bytes is at least kb KiB.  Binding: the REAL generator is run through
hook H6 (seeded entry point) exactly as `penne fuzz tokens --kb N` drives it, sizes 1..64 KB; its output
must be valid UTF-8 of at least N KiB and both real lexers must report no lexical error; line-aligned
windows of both token streams are validated by TLC (Trace_Lex, with the claim "no lexical error in this
text" checked against the rule); the (kind, gap, kind) adjacencies of the real output must be ones the
model can produce (otherwise MODEL-DRIFT).
"""
import concurrent.futures
import json
import os

from . import common, lexlib
from .c14 import rejected_of
from .common import log

RUNS = {"quick": 760, "thorough": 8000}
# windows per run: one at a random line, one that ends at the END of the output, one around each of the offsets
# 2^12, 2^16, 2^17, 2^18, 2^20 that the output reaches (dimension audit); both lexers with full location data
WINDOW_BYTES = {"quick": 500, "thorough": 500}
# dimension audit: the last runs ask for more than 64 KB
BIG_SIZES = {"quick": [128, 256], "thorough": [65, 100, 128, 200, 256, 300, 512, 1024, 1024, 2048]}
# dimension audit: the REAL entry point, `penne fuzz tokens --kb N --out-dir D` (unseeded: every run is a new sample)
BINARY_KB = {"quick": [1, 1, 1, 1, 1, 1, 2, 3, 4, 16, 64, 130],
             "thorough": [1] * 30 + [2, 2, 3, 3, 4, 4, 5, 8, 16, 32, 63, 64, 65, 128, 256, 512, 1024]}

RULE_TEXT = (
    "Model: TLC explores every (last emission, separator choice, next emission) of the Fuzzer automaton over a table of "
    "representative spellings per spelling class (core table: quick; full table incl. 128-bit literals and all suffixes: "
    "thorough) and checks with PenneLex that the joined text has no lexical error for either generation and is valid UTF-8. "
    "Real generator: N seeded runs (hook H6), sizes 1..64 KB as `penne fuzz tokens --kb` requests them; each output must be "
    "valid UTF-8, at least kb*1024 bytes, and lexed by both real lexers with zero lexical errors; one line-aligned window "
    "per run and lexer is validated by TLC against PenneLex (delta: kinds, payloads, spans, line/col; alpha: kinds, payloads, "
    "lines) together with the claim that the rule finds no lexical error in the window. Non-trivial = distinct generator "
    "outputs (by seed and size) with at least 100 tokens. Dimension audit: sizes beyond 64 KB (quick 128, 256 KB; thorough up to 2 MB); "
    "every run also through a window that ends at the END of the output and windows around the offsets 2^12, 2^16, 2^17, 2^18, 2^20, "
    "both lexers with offsets; runs of the REAL binary `penne fuzz tokens --kb N --out-dir D` (12 quick / 47 thorough, unseeded), "
    "whose file is analysed like a seeded run; `--kb 0` is observed only (zero-byte file, outside the quantifier).")

ASSUMPTIONS = [
    "the output of the seeded entry point (hook H6, StdRng) has the same distribution as the public function with rand::rng(); only the source of randomness differs",
    "Fuzzer.tla is model A (transcribed from src/delta/fuzzer.rs): disagreement of the real output with the model's adjacency set is MODEL-DRIFT, only the rule (PenneLex: no lexical error; UTF-8; size) decides VIOLATION",
    "the spelling table holds representatives of every spelling class (first byte class x last byte class x literal form); random_identifier / random_uint / random_char are not enumerated value by value",
    "windows start and end at line boundaries, where the reference automaton is in its start state (no lexeme spans lines)",
    "alpha windows are compared with character offsets rebased to the window (the CRLF offset defect of the first generation is repaired)",
    "`penne fuzz tokens --kb 0` writes a zero-byte file (both lexers: E101): outside the quantifier (sizes 1-64 KB), not judged",
]


def run(rep, tier, seed, selftest):
    selftest = selftest or tier == "thorough"
    common.build_harness()
    os.makedirs(common.WORK, exist_ok=True)
    # ---- 1. the model: everything it can write consists of valid lexemes ---------------------------
    cfg = "MC_Fuzzer_%s.cfg" % tier
    r = common.tlc("Fuzzer", cfg, workers=8, timeout=1700, heap="6g", tag="C19-mc", keep_output=False)
    model_adj = set()
    for tag, payload in r.notes:
        if tag == "ADJ" and isinstance(payload, list):
            for a in payload:
                model_adj.add(adj_class(a))
    log("[tlc] Fuzzer/%s: %d states generated, %d distinct, %.1fs, %s; %d (kind, gap, kind) adjacencies" %
        (cfg, r.generated, r.distinct, r.wall,
         "every emission pair lexes without error" if r.ok else "INVARIANT %s VIOLATED" % r.violated, len(model_adj)))
    if not r.ok:
        # the model of the generator can write an invalid lexeme: a candidate defect, confirmed or refuted below
        log("[tlc] counterexample tail:\n" + r.tail[-3000:])
    # ---- 2. the real generator ----------------------------------------------------------------------
    runs = RUNS[tier]
    chunks = 12
    summary_path = os.path.join(common.WORK, "C19-runs.ndjson")
    prefix = os.path.join(common.WORK, "C19-win")
    common.pvh(["fuzz", runs, seed, summary_path, prefix, chunks, 1, WINDOW_BYTES[tier], ",".join(map(str, BIG_SIZES[tier])),
                1 if tier == "quick" else 4], exe_name="pvh_lex", timeout=3000)
    rows = common.read_ndjson(summary_path)
    if len(rows) != runs:
        raise common.ToolError("fuzz harness returned %d summaries for %d runs" % (len(rows), runs))
    # the real entry point: the binary, as a user runs it
    binary_rows, binary_trace, kb0 = run_binary(tier)
    for k, row in enumerate(binary_rows):
        row["seed"] = -(k + 1)             # unseeded: identified by its index
        row["binary"] = True
    rows += binary_rows
    runs += len(binary_rows)
    nontrivial = set()
    total_bytes = 0
    ok_runs = 0
    sizes = set()
    observed_adj = set()
    for row in rows:
        ident = ("binary run %d kb=%d" % (-row["seed"], row["kb"])) if row.get("binary") else "seed=%d kb=%d" % (row["seed"], row["kb"])
        sizes.add(row["kb"])
        total_bytes += row["len"]
        bad = False
        if row["status"] != "ok":
            bad = True
            rep.violation("fuzz", "%s generator %s" % (ident, row["status"]), {"run": strip(row)})
        if not row["utf8"]:
            bad = True
            rep.violation("fuzz", "%s output is not valid UTF-8" % ident, {"run": strip(row)})
        if not row["enough"]:
            bad = True
            rep.violation("fuzz", "%s output has %d bytes, fewer than %d KiB" % (ident, row["len"], row["kb"]), {"run": strip(row)})
        for g in ("alpha", "delta"):
            if row.get(g + "_panic"):
                bad = True
                rep.violation("fuzz", "%s %s lexer panics on the output: %s" % (ident, g, row[g + "_panic"][:80]), {"run": strip(row)})
            for e in row[g + "_errors"][:1]:
                bad = True
                rep.violation("fuzz", "%s %s lexer reports E%d at %d:%d near %s" % (ident, g, e[0], e[1], e[2], json.dumps(e[3])),
                              {"run": strip(row), "how": "bin/check C19 --replay <this file>"})
        if not bad:
            ok_runs += 1
        if row["delta_tokens"] >= 100:
            nontrivial.add((row["seed"], row["kb"]))
        for a in row["adj"]:
            observed_adj.add(adj_class(a))
    log("[fuzz] %d runs of the real generator (sizes %d..%d KB, %d distinct sizes, %.1f MB): %d valid UTF-8, large enough and "
        "free of lexical errors for both lexers" % (runs, min(sizes), max(sizes), len(sizes), total_bytes / 1e6, ok_runs))
    # adjacency binding of the model (A) to the code
    unknown_adj = sorted(observed_adj - model_adj)
    for a in unknown_adj[:5]:
        rep.note_drift("the real generator wrote %s directly followed (gap: %s) by %s, which Fuzzer.tla cannot produce" % (a[0], a[1], a[2]))
    if len(unknown_adj) > 5:
        rep.drift += len(unknown_adj) - 5
    # ---- 3. windows of the token streams, validated by TLC ------------------------------------------
    files = [f for f in ("%s.%d.ndjson" % (prefix, c) for c in range(chunks)) if os.path.exists(f) and os.path.getsize(f) > 0]
    if binary_trace and os.path.getsize(binary_trace) > 0:
        files.append(binary_trace)
    results = common.tlc_traces("Trace_Lex", "Trace_Lex_validate.cfg", files, timeout=3000, parallel=12)
    windows = accepted = items = 0
    sample = None
    todo = []
    for res in results:
        recs = common.read_ndjson(res["file"])
        windows += len(recs)
        items += sum(len(x["t"]) for x in recs)
        rej = rejected_of(res)
        if res["total"] != len(recs) or res["matched"] != len(recs) - len(rej) or (not res["accepted"] and not rej):
            raise common.ToolError("Trace_Lex bookkeeping: %s vs %d recordings / %d REJECT lines" % (res, len(recs), len(rej)))
        accepted += len(recs) - len(rej)
        if sample is None and recs:
            sample = {"window": {"g": recs[0]["g"], "seed": recs[0]["seed"], "kb": recs[0]["kb"], "at": recs[0]["at"],
                                 "text": lexlib.esc(bytes(recs[0]["s"]))[:300], "items": recs[0]["t"][:5]}}
        if rej:
            sub = res["file"].replace(".ndjson", ".rej.ndjson")
            common.write_ndjson(sub, [recs[l - 1] for l, _ in rej])
            todo.append((sub, [recs[l - 1] for l, _ in rej]))

    def emit(sub):
        return common.tlc("Trace_Lex", "Trace_Lex_emit.cfg", workers=1, timeout=1700, heap="3g", env={"TRACE": sub},
                          tag="C19-emit-" + os.path.basename(sub).replace(".ndjson", ""), keep_output=False)
    with concurrent.futures.ThreadPoolExecutor(max_workers=8) as pool:
        emitted = list(pool.map(lambda x: emit(x[0]), todo))
    for (sub, bad), er in zip(todo, emitted):
        by_i = {c["i"]: c for c in er.cases}
        for n, rec in enumerate(bad, 1):
            c = by_i[n]
            g = rec["g"]
            text = bytes(rec["s"])
            ident = "seed=%d kb=%d window@%d" % (rec["seed"], rec["kb"], rec["at"])
            exp = c[g[0]]
            errs = [it for it in exp if len(it) > 11 and it[8] != 0 and not it[18]]
            if errs:
                # the RULE finds an invalid lexeme in what the generator wrote
                e = errs[0]
                rep.violation("window", "%s the rule finds E%d in the generator's output near %s" %
                              (ident, e[8], json.dumps(lexlib.esc(text[max(0, e[12] - 10):e[13] + 10]))),
                              {"window": lexlib.esc(text), "generation": g, "reference_error": e})
            else:
                devs = lexlib.check_lexer(exp, {"t": rec["t"]}, g, text) if rec["full"] else [("token stream differs", {})]
                rep.note_drift("%s: the %s lexer deviates from the rule on generator output (%s); a C14 matter" %
                               (ident, g, "; ".join(s for s, _ in devs)[:200]))
    log("[trace] %d windows (%d items) of the real token streams validated by TLC: %d accepted" % (windows, items, accepted))
    # ---- 4. self-test ------------------------------------------------------------------------------
    selftests = {}
    if selftest and files:
        selftests = window_selftest(files[0])
        log("[selftest] %s" % json.dumps(selftests))
        for name, ok in selftests.items():
            if not ok:
                raise common.ToolError("self-test %s failed" % name)
    if not model_adj:
        raise common.ToolError("vacuity: the Fuzzer model produced no adjacency")
    coverage = {
        "states": r.distinct,
        "transitions": r.generated,
        "traces_validated_against_impl": ok_runs + accepted,
        "samples": [{"run": strip(rows[0])}, {"run": strip(rows[-1])}] + ([sample] if sample else []),
        "evaluations": runs + windows,
        "distinct_nontrivial": len(nontrivial),
        "rule": RULE_TEXT,
        "exhaustive": False,
        "model_invariants_hold": r.ok,
        "violated_invariant": r.violated,
        "generator_runs": runs,
        "runs_through_the_real_binary": len(binary_rows),
        "kb_0_observation_unconstrained": kb0,
        "generator_runs_clean": ok_runs,
        "sizes_kb": [min(sizes), max(sizes)],
        "distinct_sizes": len(sizes),
        "bytes_generated": total_bytes,
        "windows_recorded": windows,
        "windows_accepted_by_tlc": accepted,
        "window_items": items,
        "model_adjacencies": len(model_adj),
        "observed_adjacencies": len(observed_adj),
        "observed_adjacencies_not_in_model": len(unknown_adj),
        "tlc_config": cfg,
        "selftests": selftests,
    }
    return rep.finish("model_checking", coverage, ASSUMPTIONS)


def run_binary(tier):
    """`penne fuzz tokens --kb N --out-dir D` (src/main.rs do_fuzzing): the file it writes is analysed by pvh_lex
    fuzz-file exactly like the output of a seeded run.  Returns (summaries, trace file, observation for --kb 0)."""
    import shutil
    import subprocess
    from . import pipeline_common
    exe = pipeline_common.build_penne()
    base = os.path.join(common.WORK, "C19-bin")
    shutil.rmtree(base, ignore_errors=True)
    os.makedirs(base)
    rows = []
    trace = os.path.join(common.WORK, "C19-win.bin.ndjson")
    with open(trace, "w") as tf:
        for k, kb in enumerate(BINARY_KB[tier]):
            d = os.path.join(base, "r%d" % k)
            os.makedirs(d)
            try:
                p = subprocess.run([exe, "fuzz", "tokens", "--kb", str(kb), "--out-dir", d], stdout=subprocess.PIPE,
                                   stderr=subprocess.PIPE, timeout=300, cwd=d)
                status = p.returncode
            except subprocess.TimeoutExpired:
                status = "timeout"
            out = os.path.join(d, "fuzzed_tokens.pn")
            summ = os.path.join(d, "summary.json")
            tr = os.path.join(d, "trace.ndjson")
            common.pvh(["fuzz-file", out, kb, summ, tr, WINDOW_BYTES[tier]], exe_name="pvh_lex", timeout=600)
            row = json.load(open(summ))
            if status != 0:
                row["status"] = "penne fuzz ended with status %s" % status
            rows.append(row)
            tf.write(open(tr).read())
    # --kb 0: outside the quantifier of the property (sizes 1..64 KB) and not documented: observed, not judged
    d = os.path.join(base, "kb0")
    os.makedirs(d)
    try:
        p = subprocess.run([exe, "fuzz", "tokens", "--kb", "0", "--out-dir", d], stdout=subprocess.PIPE, stderr=subprocess.PIPE,
                           timeout=60, cwd=d)
        out = os.path.join(d, "fuzzed_tokens.pn")
        kb0 = {"exit": p.returncode, "bytes": os.path.getsize(out) if os.path.exists(out) else None}
    except subprocess.TimeoutExpired:
        kb0 = {"exit": "timeout"}
    shutil.rmtree(base, ignore_errors=True)
    return rows, trace, kb0


KEYWORD_KINDS = {"Fn", "Var", "Const", "If", "Goto", "Loop", "Return", "Else", "Cast", "As", "Import", "Pub", "Extern", "Struct",
                 "Word8", "Word16", "Word32", "Word64", "Word128"}


def adj_class(a):
    """all keywords are spelled and separated alike: one class"""
    k = lambda x: "Keyword" if x in KEYWORD_KINDS else x
    return (k(a[0]), a[1], k(a[2]))


def strip(row):
    return {k: v for k, v in row.items() if k != "adj"}


def window_selftest(path):
    """(a) a window into which an invalid lexeme is spliced (text and, consistently, no token for it) must be
    rejected through the `noerr` claim; (b) a window whose recorded token kinds are corrupted must be rejected."""
    recs = [r for r in common.read_ndjson(path) if r["g"] == "delta" and len(r["t"]) > 6][:1]
    if not recs:
        return {}
    base = recs[0]
    a = json.loads(json.dumps(base))
    # append an unclosed string on a line of its own: the real lexer "did not see it" (no item logged)
    add = list(b'\n"abc')
    a["s"] = a["s"] + add
    b = json.loads(json.dumps(base))
    b["t"][2][0] = "Identifier" if b["t"][2][0] != "Identifier" else "Fn"
    p = os.path.join(common.WORK, "C19-selftest.ndjson")
    common.write_ndjson(p, [base, a, b])
    res = common.tlc_traces("Trace_Lex", "Trace_Lex_validate.cfg", [p])[0]
    rej = {l for l, _ in rejected_of(res)}
    return {"untouched_window_accepted": 1 not in rej, "invalid_lexeme_in_window_rejected": 2 in rej,
            "corrupted_kind_rejected": 3 in rej}


def replay(path):
    d = json.load(open(path))
    print("kind:", d.get("kind"))
    print("key :", d.get("key"))
    det = d.get("detail", {})
    run_ = det.get("run")
    if run_ and run_.get("binary"):
        print("a run of the real binary (`penne fuzz tokens --kb %d --out-dir D`, unseeded: cannot be repeated); recorded:" % run_["kb"])
        print(json.dumps(run_, indent=1)[:4000])
    elif run_:
        print("re-running the generator with seed %d, %d KB ..." % (run_["seed"], run_["kb"]))
        p = common.pvh(["fuzz-one", run_["seed"], run_["kb"]], exe_name="pvh_lex")
        print(p.stdout[-4000:])
    else:
        print(json.dumps(det, indent=1)[:4000])
    return 0

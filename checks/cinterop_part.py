"""C01, family "Interoperability with C" (docs/features.md) -- spec/CInterop.tla, spec/MC_CInterop.tla, spec/Trace_CInterop.tla.

 X. exhaustive families (MC_CInterop): programs in which Penne calls C functions of a small fixed library (identity /
    widening / narrowing per ABI integer type, sum / max / element over `(const T*, usize)`, fill / increment / add through
    `T*`, write and re-point through `T**`, copy, position-sensitive folds over mixed parameter lists of up to 8 (12)
    parameters, callbacks), C calls Penne `pub extern fn`s (through trampolines written in C, with the arguments narrowed
    on the C side as well), and Penne calls its own `extern fn`s.  Every scalar argument is computed at run time from a
    64-bit value with garbage in the upper bits.  TLC runs Machine.tla on the program plus the *meanings* of the foreign
    functions, checks that the result is the one the declarative rule gives (invariants Sane, Agree, NonVacuous) and emits
    the program with its expected output.  Every program is rendered (Penne source + C translation unit from fixed
    templates), compiled by the real compiler and clang-14, and executed through the tool chains
        lli      llvm-link-14 + lli-14              native0 / native1   clang-14 -O0 / -O1 on the Penne IR (what
        `penne build` does), clang-14 -O1 -c on the C file, linked, executed
    and stdout / exit status are compared with the expectation.
 S. static rule cells: `|x|` of a view parameter of an `extern fn` is rejected; signature types outside the documented
    list are rejected with E358 (cross-check of C11), listed types are accepted.
 R. impl -> spec: random programs mixing Penne and foreign calls (seeded Rust generator); the recorded output of the lli
    chain is validated by TLC (Trace_CInterop runs the machine on the logged program), the native chains must print
    the same.
The lead wires `run_part(rep, tier, seed, selftest)` into checks/c01.py; all kinds are prefixed `cinterop-`.
"""
import contextlib
import io
import json
import os
import random
import re
import time

from . import common, machine_common as mc
from .common import log

EXE = "pvh_cinterop"
ACTIVE = {"chains": "lli,native0,native1"}
CHAINS = "lli,native0,native1"          # thorough tier
QUICK_CHAINS = "lli,native1"        # quick tier: -O1 on the Penne IR exposes everything -O0 does
NARROW = ("i8", "i16", "u8", "u16")


# the known-finding entries this part needs while finding F-X1 of docs/notes-cinterop.md is open (proposal for the lead;
# known_findings.json is the authority, this list is only used by `python3 -m checks.cinterop_part` with CINTEROP_ASSUME_KNOWN=1)
NARROW_BY_VALUE = r"\((?:[^)]*, )?(?:i8|i16|u8|u16)(?:, [^)]*)?\)"
PROPOSED_KNOWN = [
    {"property": "C01", "id": "C01-extern-call-narrow-integer-argument-not-extended", "status": "open",
     "match": {"kind": "cinterop-output", "regex": r":: native[01] :: penne->c \w+\[\w+\]" + NARROW_BY_VALUE + r" :: output$"},
     "what": "a call from Penne to a C function passes i8/i16/u8/u16 arguments without sign/zero extension (no signext/zeroext on "
             "extern declarations): wrong values in C functions compiled separately by clang (`penne build` pipes the IR into clang)"},
    {"property": "C01", "id": "C01-array-literal-as-extern-view-argument-panics", "status": "open",
     "match": {"kind": "cinterop-rejected", "regex": r"^viewlit \w+ (p2c|c2p|p2p) :: rejected panic=not-implemented( :: layout)?$"},
     "what": "an array literal as the argument for a view parameter of an `extern` function panics (`not implemented`, "
             "generate_autocoerce, arm View{EndlessArray} has no ArrayLiteral case)"},
    {"property": "C01", "id": "C01-call-instruction-lacks-fastcc-of-callee", "status": "open",
     "match": {"kind": "cinterop-output", "regex": r"^(scalar|mix) .* plain :: native1 :: penne->penne-fn \w+\([^)]*\) :: output$"},
     "what": "call instructions never carry the calling convention of the callee: a `call` (C convention) of a `fastcc` function "
             "(every non-extern fn) is undefined behaviour in LLVM; an optimising backend run (`penne build --backend-args -O1`) "
             "deletes the call and what follows"},
    {"property": "C01", "id": "C01-call-instruction-lacks-fastcc-of-callee", "status": "open",
     "match": {"kind": "cinterop-run", "regex": r"^(scalar|mix) .* plain :: native1 :: (exit \d+|signal|hang)$"},
     "what": "(same defect: the optimised program ends somewhere else)"},
]


# ---------------------------------------------------------------------------
# keys: the shape of the input a discrepancy belongs to
# ---------------------------------------------------------------------------
def ty_name(ty):
    k = ty.get("k")
    if k == "prim":
        return ty["t"]
    if k == "view":
        return "view_" + ty_name(ty["e"])
    if k == "ptr":
        if ty["e"].get("k") == "view":
            return "buf_" + ty_name(ty["e"]["e"])
        return "ptr_" + ty_name(ty["e"])
    if k == "named":
        return "named_" + ty["n"]
    if k == "array":
        return "array%d_%s" % (ty["n"], ty_name(ty["e"]))
    return k or "?"


def callee_shape(prog, name):
    """`penne->c c_widen_i8[widen](i8)`: who is called from Penne, which library kind, the parameter types"""
    for f in prog.get("foreign", []):
        if f["name"] == name:
            return "penne->c %s[%s](%s)" % (name, f["lib"], ", ".join(ty_name(p["ty"]) for p in f["params"]))
    for f in prog["fns"]:
        if f["name"] == name:
            return "penne->penne-%s %s(%s)" % ("extern" if f.get("ext") else "fn", name, ", ".join(ty_name(p["ty"]) for p in f["params"]))
    return "penne->? " + name


def pick_key(pk):
    fam = pk["fam"]
    if fam == "mix":
        return "mix rot=%d variant=%d %s" % (pk["r"], pk["variant"], pk["dir"])
    if fam == "sig":
        return "sig %s %s %s" % (ty_name(pk["ty"]), pk["pos"], pk["form"])
    if fam == "len":
        return "len %s %s %s" % (pk["t"], pk["kind"], "extern" if pk["ext"] else "plain")
    return "%s %s %s" % (fam, pk["t"], pk["dir"])


# ---------------------------------------------------------------------------
# running programs
# ---------------------------------------------------------------------------
def run_programs(programs, layouts, seed, tag, chains=None):
    inp = os.path.join(common.WORK, "%s-%d-programs.ndjson" % (tag, os.getpid()))
    out = os.path.join(common.WORK, "%s-%d-results.ndjson" % (tag, os.getpid()))
    common.write_ndjson(inp, programs)
    chains = ACTIVE["chains"] if chains is None else chains
    common.pvh(["run", inp, out, layouts, seed, chains], exe_name=EXE, timeout=3600)
    res = common.read_ndjson(out)
    if len(res) != len(programs):
        raise common.ToolError("pvh_cinterop returned %d results for %d programs" % (len(res), len(programs)))
    for r in res:
        for x in r["results"]:
            if "toolerror" in x:
                raise common.ToolError("pvh_cinterop: %s" % x["toolerror"])
            for o in (x.get("chains") or {}).values():
                if "toolerror" in o:
                    raise common.ToolError("pvh_cinterop: %s" % o["toolerror"])
    return res


def lines_of(stdout):
    return [ln for ln in stdout.split("\n") if ln != ""]


def compile_signature(comp):
    if comp.get("crash"):
        return "crash " + str(comp["crash"])
    codes = ",".join(sorted(set("E%d" % d[0] for d in comp.get("diags") or [])))
    if comp.get("panic"):
        return "rejected panic=" + "-".join(str(comp["panic"]).split()[:4])
    return "rejected " + codes


def check_dynamic(rep, key, prog, want, labels, res, stats, abi=None):
    """compare every chain of every layout of one program with the expectation `want` (list of printed lines);
    labels[i] = the function through which value i crossed the boundary"""
    base = res["results"][0]
    detail0 = {"source": res["source"], "csource": res["csource"]}
    for x in res["results"]:
        layout = x["layout"]
        comp = x["compile"]
        if not comp.get("ok"):
            rep.violation("cinterop-rejected", "%s :: %s%s" % (key, compile_signature(comp), " :: layout" if layout else ""),
                          dict(detail0, problem="a well-formed program of the family is not compiled", compile=comp,
                               variant_source=x.get("source")))
            continue
        if abi is not None and not layout:
            check_abi(rep, key, abi, x, detail0, stats)
        for chain, o in x["chains"].items():
            stats["runs"] += 1
            if "stdout" not in o or "signal" in o:
                what = "link" if "link" in o else "hang" if "hang" in o else "signal"
                rep.violation("cinterop-run", "%s :: %s :: %s" % (key, chain, what),
                              dict(detail0, problem="the program could not be linked / did not run to completion", chain=chain, outcome=o))
                continue
            got = lines_of(o["stdout"])
            if layout:
                # formatting never changes the result
                ref = (base.get("chains") or {}).get(chain, {})
                if "stdout" in ref and (got != lines_of(ref["stdout"]) or o.get("exit") != ref.get("exit")):
                    rep.violation("cinterop-layout", "%s :: %s :: layout" % (key, chain),
                                  dict(detail0, problem="formatting / comments / parentheses changed the result", variant_source=x.get("source"),
                                       observed_lines=got))
                continue
            stats["comparisons"] += len(want)
            bad = {}
            for i in range(max(len(got), len(want))):
                g = got[i] if i < len(got) else None
                w = want[i] if i < len(want) else None
                if g != w:
                    lab = labels[i] if i < len(labels) else "(extra output)"
                    bad.setdefault(lab, []).append({"line": i, "expected": w, "observed": g})
            for lab, cells in bad.items():
                rep.violation("cinterop-output", "%s :: %s :: %s :: output" % (key, chain, callee_shape(prog, lab)),
                              dict(detail0, problem="a value that crossed the language boundary is not the one the specification gives",
                                   chain=chain, callee=lab, cells=cells[:12], expected_lines=want, observed_lines=got))
            if o.get("exit") != 0:
                rep.violation("cinterop-run", "%s :: %s :: exit %s" % (key, chain, o.get("exit")),
                              dict(detail0, problem="exit status", chain=chain, outcome=o))


def check_abi(rep, key, abi, x, detail0, stats):
    """the rule AbiRule of CInterop.tla on the IR the compiler wrote: C calling convention on the declaration / definition
    and on every call of every foreign instance and `extern fn`; external visibility of what crosses the boundary"""
    ir = x.get("ir") or {}
    bad = {}
    for a in abi:
        f = (ir.get("fns") or {}).get(a["name"])
        calls = (ir.get("calls") or {}).get(a["name"], [])
        stats["abi"] += 1
        if f is None:
            if calls:
                bad.setdefault("called but not declared", []).append(a["name"])
            continue
        if f["cc"] != a["cc"]:
            bad.setdefault("%s with %s" % ("defined" if f["kind"] == "define" else "declared", f["cc"]), []).append(a["name"])
        for cc in calls:
            if cc != a["cc"]:
                bad.setdefault("called with %s" % cc, []).append(a["name"])
        if a["external"] and f["linkage"] != "external":
            bad.setdefault("%s linkage" % f["linkage"], []).append(a["name"])
    for what, names in bad.items():
        rep.violation("cinterop-callconv", "%s :: %s" % (key, what),
                      dict(detail0, problem="a function marked `extern` (or a declared C function) does not use the C calling convention / "
                                            "is not visible to the other side in the generated IR", functions=names, ir=ir))


def check_static(rep, key, case, res, stats):
    comp = res["results"][0]["compile"]
    stats["static"] += 1
    verdict = case["verdict"]
    if comp.get("crash") or comp.get("panic"):
        rep.violation("cinterop-static", "%s :: %s" % (key, compile_signature(comp)),
                      {"problem": "the compiler crashed", "source": res["source"], "compile": comp})
        return
    ok = bool(comp.get("ok"))
    codes = set(d[0] for d in comp.get("diags") or [])
    if verdict == "unconstrained":
        stats["unconstrained"] += 1
        return
    good = (verdict == "accept" and ok) or (verdict == "reject" and not ok) or (verdict == "E358" and not ok and 358 in codes)
    if not good:
        rep.violation("cinterop-static", "%s :: expected %s observed %s" % (key, verdict, "accept" if ok else compile_signature(comp)),
                      {"problem": "documented rule of `extern` signatures / `|x|` of an extern view parameter", "expected": verdict,
                       "source": res["source"], "compile": comp})


def check_cases(rep, cases, layouts, seed, tag, stats, mix_layouts=None):
    dyn = [c for c in cases if c["verdict"] == "run"]
    sta = [c for c in cases if c["verdict"] != "run"]
    # (quick tier: the long parameter lists of the mix family run in the canonical layout only)
    groups = [([c for c in dyn if c["pick"]["fam"] != "mix"], layouts, tag),
              ([c for c in dyn if c["pick"]["fam"] == "mix"], mix_layouts or layouts, tag + "-mix")]
    for group, lay, gtag in groups:
        if not group:
            continue
        results = run_programs([c["prog"] for c in group], lay, seed, gtag)
        for c, r in zip(group, results):
            want = [mc.shown(o["v"], o["t"]) for o in c["out"]]
            check_dynamic(rep, pick_key(c["pick"]), c["prog"], want, [o["f"] for o in c["out"]], r, stats, abi=c.get("abi"))
    if sta:
        results = run_programs([c["prog"] for c in sta], 1, seed, tag + "-static", chains="")
        for c, r in zip(sta, results):
            check_static(rep, pick_key(c["pick"]), c, r, stats)


# ---------------------------------------------------------------------------
# impl -> spec: random programs, Trace_CInterop
# ---------------------------------------------------------------------------
def build_trace(programs, results):
    lines, direct = [], []
    for i, (p, r) in enumerate(zip(programs, results)):
        x = r["results"][0]
        o = (x.get("chains") or {}).get("lli")
        if o is None or "stdout" not in o or "signal" in o:
            direct.append(i)
            continue
        logged = {k: v for k, v in p.items() if k != "labs"}
        lines.append({"ev": "prog", "i": i, "p": logged})
        for ln in lines_of(o["stdout"]):
            v = mc.decimal_to_limbs128(ln)
            lines.append({"ev": "print", "v": v if v is not None else []})
        lines.append({"ev": "exit", "code": o["exit"]})
    return lines, direct


def validate_trace(lines, tag, cfg):
    """-> (accepted programs, trivial {i: why}, rejected [(i, offset, event)], stale [i], states)"""
    blocks = []
    for ln in lines:
        if ln["ev"] == "prog":
            blocks.append([])
        blocks[-1].append(ln)
    chunks = max(1, min(8, len(blocks) // 12 or 1))
    per = (len(blocks) + chunks - 1) // chunks
    todo = []
    for c in range(chunks):
        part = blocks[c * per:(c + 1) * per]
        if part:
            path = os.path.join(common.WORK, "%s-%d-trace.%d.ndjson" % (tag, os.getpid(), c))
            common.write_ndjson(path, [ln for b in part for ln in b])
            todo.append((path, part))
    accepted, trivial, rejected, stale, states = 0, {}, [], [], 0
    rounds = 0
    while todo and rounds < 12:
        rounds += 1
        results = common.tlc_traces("Trace_CInterop", cfg, [f for f, _ in todo], timeout=1500, parallel=6)
        by = {r["file"]: r for r in results}
        nxt = []
        for path, part in todo:
            r = by[path]
            states += r.get("states", 0)
            starts, n = [], 0
            for b in part:
                starts.append(n + 1)
                n += len(b)
            for line in open(r["output"], errors="replace"):
                if line.startswith('<<"TRIVIAL"') or line.startswith('<<"STALE"'):
                    d = common._decode_print(line.rstrip("\n"))
                    if d and isinstance(d[1], dict) and d[1]["line"] in starts:
                        i = part[starts.index(d[1]["line"])][0]["i"]
                        if d[0] == "TRIVIAL":
                            trivial[i] = d[1].get("why", "") + (": " + d[1]["detail"] if d[1].get("detail") else "")
                        else:
                            stale.append(i)
            if r["accepted"]:
                accepted += len(part)
                continue
            k = max(j for j, s in enumerate(starts) if s <= r["matched"] + 1)
            accepted += k
            off = r["matched"] + 1 - starts[k]
            rejected.append((part[k][0]["i"], off, part[k][off] if off < len(part[k]) else None))
            rest = part[k + 1:]
            if rest:
                npath = path[:-len(".ndjson")] + "r.ndjson"
                common.write_ndjson(npath, [ln for b in rest for ln in b])
                nxt.append((npath, rest))
        todo = nxt
    return accepted, trivial, rejected, stale, states


def part_random(rep, tier, seed, libtable, stats, selftests, want_selftest):
    t0r = time.time()
    count = int(os.environ.get("CINTEROP_RANDOM", {"quick": 48, "thorough": 1000}[tier]))
    cfg = "Trace_CInterop.cfg"
    tag = "C01-cinterop-rnd"
    tpath = os.path.join(common.WORK, "%s-%d-libtable.json" % (tag, os.getpid()))
    json.dump(libtable, open(tpath, "w"))
    gpath = os.path.join(common.WORK, "%s-%d-gen.ndjson" % (tag, os.getpid()))
    common.pvh(["gen", count, seed, gpath, tpath], exe_name=EXE)
    programs = common.read_ndjson(gpath)
    results = run_programs(programs, 1, seed, tag)
    lines, direct = build_trace(programs, results)
    for i in direct:
        x = results[i]["results"][0]
        comp = x["compile"]
        if not comp.get("ok"):
            rep.violation("cinterop-rejected", "random seed=%d index=%d :: %s" % (seed, i, compile_signature(comp)),
                          {"problem": "a generated well-formed program is not compiled", "compile": comp,
                           "source": results[i]["source"], "csource": results[i]["csource"], "program": programs[i]})
        else:
            o = x["chains"].get("lli", {})
            what = "link" if "link" in o else "hang" if "hang" in o else "signal"
            rep.violation("cinterop-run", "random seed=%d index=%d :: lli :: %s" % (seed, i, what),
                          {"problem": "the program did not run to completion", "outcome": o, "source": results[i]["source"],
                           "csource": results[i]["csource"], "program": programs[i]})
    accepted, trivial, rejected, stale, states = validate_trace(lines, tag, cfg)
    if stale:
        raise common.ToolError("Trace_CInterop: the library table of the generator is not the library of CInterop.tla "
                               "(program %d): regenerate / fix harness/src/cinterop/xgen.rs" % stale[0])
    rej = set()
    for i, off, ev in rejected:
        rej.add(i)
        labs = programs[i].get("labs", [])
        lab = labs[off - 1] if ev and ev.get("ev") == "print" and 0 < off <= len(labs) else ""
        rep.violation("cinterop-trace", "random seed=%d index=%d :: lli :: %s :: output" % (seed, i, callee_shape(programs[i], lab) if lab else "exit"),
                      {"problem": "the output of the compiled program is not the one the specification's machine produces",
                       "first_unmatched_event": ev, "event_number": off, "stdout": results[i]["results"][0]["chains"]["lli"].get("stdout"),
                       "source": results[i]["source"], "csource": results[i]["csource"], "program": programs[i]})
    # the other chains print what the validated chain printed (Python only compares)
    nontrivial = 0
    for i, r in enumerate(results):
        if i in direct or i in rej or i in trivial:
            continue
        x = r["results"][0]
        base = x["chains"]["lli"]
        want = lines_of(base["stdout"])
        if want:
            nontrivial += 1
        labs = programs[i].get("labs", [])
        for chain, o in x["chains"].items():
            if chain == "lli":
                continue
            stats["runs"] += 1
            if "stdout" not in o or "signal" in o:
                what = "link" if "link" in o else "hang" if "hang" in o else "signal"
                rep.violation("cinterop-run", "random seed=%d index=%d :: %s :: %s" % (seed, i, chain, what),
                              {"problem": "did not run to completion", "outcome": o, "source": r["source"], "csource": r["csource"]})
                continue
            got = lines_of(o["stdout"])
            bad = {}
            for j in range(max(len(got), len(want))):
                g = got[j] if j < len(got) else None
                w = want[j] if j < len(want) else None
                if g != w:
                    bad.setdefault(labs[j] if j < len(labs) else "(extra output)", []).append({"line": j, "expected": w, "observed": g})
            for lab, cells in bad.items():
                rep.violation("cinterop-output", "random seed=%d index=%d :: %s :: %s :: output" % (seed, i, chain, callee_shape(programs[i], lab)),
                              {"problem": "this tool chain prints something else than the chain whose output the specification accepted",
                               "chain": chain, "callee": lab, "cells": cells[:12], "expected_lines": want, "observed_lines": got,
                               "source": r["source"], "csource": r["csource"]})
            if o.get("exit") != base.get("exit"):
                rep.violation("cinterop-run", "random seed=%d index=%d :: %s :: exit %s" % (seed, i, chain, o.get("exit")),
                              {"problem": "exit status", "outcome": o, "source": r["source"], "csource": r["csource"]})
    log("[trace] cinterop: %d random programs, %d traced, %d accepted by Trace_CInterop, %d trivial, %d rejected, %d not executable, %.1fs" %
        (len(programs), len(programs) - len(direct), accepted, len(trivial), len(rejected), len(direct), time.time() - t0r))
    if trivial and len(trivial) > len(programs) // 4:
        raise common.ToolError("cinterop generator: %d of %d programs are trivial (undefined behaviour): %s" %
                               (len(trivial), len(programs), list(trivial.items())[:3]))
    if want_selftest:
        # binding self-test: a corrupted printed value must be rejected by TLC
        blk = None
        for k, ln in enumerate(lines):
            if ln["ev"] == "prog" and ln["i"] not in trivial and ln["i"] not in rej:
                b = [ln]
                for nx in lines[k + 1:]:
                    if nx["ev"] == "prog":
                        break
                    b.append(nx)
                if any(e["ev"] == "print" and len(e["v"]) == 16 for e in b):
                    blk = b
                    break
        if blk:
            bad = json.loads(json.dumps(blk))
            prints = [e for e in bad if e["ev"] == "print" and len(e["v"]) == 16]
            prints[len(prints) // 2]["v"][0] = (prints[len(prints) // 2]["v"][0] + 1) % 256
            pth = os.path.join(common.WORK, "%s-%d-selftest.ndjson" % (tag, os.getpid()))
            common.write_ndjson(pth, bad)
            selftests["cinterop_corrupted_print_rejected"] = not common.tlc_traces("Trace_CInterop", cfg, [pth])[0]["accepted"]
        else:
            selftests["cinterop_corrupted_print_rejected"] = False
    return {"programs": len(programs), "accepted": accepted - len(trivial), "trivial": len(trivial), "nontrivial": nontrivial,
            "states": states, "sample": {"random_cinterop_source": results[0]["source"][:1200], "c": results[0]["csource"][:600],
                                         "stdout": results[0]["results"][0].get("chains", {}).get("lli", {}).get("stdout", "")[:200]} if results else {}}


# ---------------------------------------------------------------------------
# the part
# ---------------------------------------------------------------------------
def run_part(rep, tier, seed, selftest):
    """-> coverage contribution {states, transitions, traces_validated, evaluations, distinct_nontrivial, samples, selftests, ...}"""
    t0 = time.time()
    ACTIVE["chains"] = QUICK_CHAINS if tier == "quick" else CHAINS
    cfg = "MC_CInterop_%s.cfg" % tier
    r = common.tlc("MC_CInterop", cfg, workers=4, timeout=900, heap="4g", tag="C01-cinterop-%d" % os.getpid())
    if not r.ok:
        raise common.ToolError("MC_CInterop/%s: invariant %s violated: the machine running the meanings of the foreign library does not "
                               "give what the declarative rule gives (the specification itself is inconsistent)" % (cfg, r.violated))
    cases = r.cases
    libtable = [d[1] for d in r.notes if d[0] == "LIB" and isinstance(d[1], dict)]
    dyn = [c for c in cases if c["verdict"] == "run"]
    sta = [c for c in cases if c["verdict"] != "run"]
    fams = sorted(set((c["pick"]["fam"], c["pick"].get("dir", "")) for c in dyn))
    top = sum(1 for c in dyn for o in c["out"] if o["v"][-1] >= 128)
    log("[tlc] MC_CInterop/%s: %d states, %d executed programs (%d expected values, %d with the top bit set), %d static cells, %.1fs" %
        (cfg, r.distinct, len(dyn), sum(len(c["out"]) for c in dyn), top, len(sta), r.wall))
    # vacuity guard: every family x direction is there, values with the top bit set cross the boundary, both verdicts occur
    need = {("scalar", d) for d in ("p2c", "c2p", "p2p")} | {("view", "p2c"), ("mut", "c2p"), ("mix", "p2c"), ("cb", "c2p")}
    if not need <= set(fams) or top < 100 or any(c["status"] != "done" for c in dyn) \
            or not {"accept", "E358", "reject"} <= set(c["verdict"] for c in sta):
        raise common.ToolError("MC_CInterop is vacuous: families %s, %d values with the top bit set, verdicts %s" %
                               (fams, top, sorted(set(c["verdict"] for c in sta))))
    layouts = 2 if tier == "quick" else 3
    stats = {"runs": 0, "comparisons": 0, "static": 0, "unconstrained": 0, "abi": 0}
    t1 = time.time()
    check_cases(rep, cases, layouts, seed, "C01-cinterop", stats, mix_layouts=1 if tier == "quick" else None)
    log("[replay] cinterop: %d programs x chains {%s} (+%d layout variant), %d runs, %d value comparisons; %d static cells (%d unconstrained), %.1fs" %
        (len(dyn), ACTIVE["chains"], layouts - 1, stats["runs"], stats["comparisons"], stats["static"], stats["unconstrained"], time.time() - t1))
    selftests = {}
    want_selftest = selftest or tier == "thorough"
    rnd = part_random(rep, tier, seed, libtable, stats, selftests, want_selftest)
    if want_selftest:
        buf = io.StringIO()
        probe = common.Report(rep.prop, tier, seed)
        probe.known = []
        victim = next(c for c in dyn if c["pick"]["fam"] == "view" and c["pick"]["dir"] == "c2p")
        bad = json.loads(json.dumps(victim))
        bad["out"][len(bad["out"]) // 2]["v"][0] ^= 1
        flip = json.loads(json.dumps(next(c for c in sta if c["verdict"] == "E358")))
        flip["verdict"] = "accept"
        flip2 = json.loads(json.dumps(next(c for c in sta if c["verdict"] == "accept")))
        flip2["verdict"] = "E358"
        with contextlib.redirect_stdout(buf):
            check_cases(probe, [bad, flip, flip2], 1, seed, "C01-cinterop-selftest", {"runs": 0, "comparisons": 0, "static": 0, "unconstrained": 0, "abi": 0})
        kinds = [json.load(open(f))["kind"] for f in probe.violations if os.path.exists(f)]
        # the corrupted value is reported once per chain, each flipped verdict once
        selftests["cinterop_corrupted_expectation_detected"] = kinds.count("cinterop-output") >= len(ACTIVE["chains"].split(","))
        selftests["cinterop_flipped_verdicts_detected"] = kinds.count("cinterop-static") == 2
        for f in probe.violations:
            if os.path.exists(f):
                os.remove(f)
        log("[selftest] %s" % json.dumps(selftests))
        for name, ok in selftests.items():
            if not ok:
                raise common.ToolError("self-test %s failed" % name)
    rs = random.Random(seed)
    samples = []
    for c in rs.sample(dyn, min(2, len(dyn))):
        samples.append({"cinterop_program": c["pick"], "expected_output": [mc.shown(o["v"], o["t"]) for o in c["out"]][:12]})
    for c in rs.sample(sta, min(2, len(sta))):
        samples.append({"cinterop_static_cell": c["pick"], "verdict": c["verdict"]})
    if rnd.get("sample"):
        samples.append(rnd["sample"])
    log("[cinterop] part finished in %.1fs" % (time.time() - t0))
    return {
        "states": r.distinct + rnd["states"],
        "transitions": r.generated + rnd["states"],
        "traces_validated_against_impl": len(dyn) + len(sta) + rnd["accepted"],
        "evaluations": len(cases) + rnd["programs"],
        "distinct_nontrivial": len(dyn) + sum(1 for c in sta if c["verdict"] != "unconstrained") + rnd["nontrivial"],
        "samples": samples,
        "selftests": selftests,
        "cinterop_programs": len(dyn), "cinterop_static_cells": len(sta), "cinterop_random_programs": rnd["programs"],
        "cinterop_random_trivial": rnd["trivial"], "cinterop_runs": stats["runs"], "cinterop_value_comparisons": stats["comparisons"],
        "cinterop_chains": ACTIVE["chains"], "cinterop_abi_facts_checked": stats["abi"],
        "rule": "X: TLC enumerates the interoperability families of MC_CInterop (ABI integer type x boundary values with dirty upper "
                "bits x call direction Penne->C / C->Penne through C trampolines / Penne->own extern fn; views of lengths 0..4, "
                "buffers, pointers, pointers to pointers, mixed parameter lists, callbacks), runs Machine.tla on the program plus the "
                "meanings of the foreign library (CInterop.tla) and checks them against the declarative rule; every program is "
                "compiled (penne + clang-14 on the C templates) and executed through llvm-link+lli and natively (-O0, -O1); "
                "S: static cells (`|x|` of an extern view parameter, E358); R: random mixed programs validated by Trace_CInterop.",
        "assumptions": [
            "the C templates (harness/src/cinterop/clib.rs) mean what Lib(kind, t) of CInterop.tla says: widths explicit (<stdint.h>), "
            "wrapping arithmetic in the unsigned type of the same width; conversion of an out-of-range value to a signed type is "
            "modular (clang / gcc document it)",
            "clang-14 -O1 compiles the C side; x86-64 System V",
        ],
    }


def replay(path):
    d = json.load(open(path))
    det = d["detail"]
    print(d["kind"], d["key"])
    print(json.dumps({k: det[k] for k in det if k not in ("source", "csource", "program", "variant_source", "expected_lines", "observed_lines")}, indent=1))
    for k in ("expected_lines", "observed_lines"):
        if k in det:
            print(k, det[k])
    if "source" in det:
        print("// ---- Penne ----")
        print(det["source"])
    if "csource" in det:
        print("/* ---- C ---- */")
        print(det["csource"])
    return 0


def main():
    import argparse
    ap = argparse.ArgumentParser()
    ap.add_argument("--tier", default="quick")
    ap.add_argument("--selftest", action="store_true")
    ap.add_argument("--seed", type=int, default=int(os.environ.get("VERIF_SEED", "1")))
    a = ap.parse_args()
    rep = common.Report("C01", a.tier, a.seed)
    if os.environ.get("CINTEROP_ASSUME_KNOWN"):
        # development aid: behave as if the entries proposed in docs/notes-cinterop.md were in known_findings.json
        rep.known = rep.known + PROPOSED_KNOWN
    try:
        cov = run_part(rep, a.tier, a.seed, a.selftest)
    except common.ToolError as e:
        print("TOOL-ERROR cinterop: %s" % e)
        return 2
    for k in rep.known:
        if k["id"] in rep.known_hits:
            print("KNOWN-FINDING: %s (%d inputs)" % (k["id"], len(rep.known_hits[k["id"]])))
    print(json.dumps({k: v for k, v in cov.items() if k not in ("samples", "rule", "assumptions")}, indent=1))
    print("violations: %d" % len(rep.violations))
    return 1 if rep.violations else 0


if __name__ == "__main__":
    raise SystemExit(main())

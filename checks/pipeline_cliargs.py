"""C18, third part (spec/CliArgs.tla): how the command line, the configuration file and the environment arrive at the
compiler and at the backend.  TLC grows every base invocation (subcommand x valid / invalid program) by at most MaxDev
deviations (-o, --backend-args / --link-args by flag and / or config file, `wasm = true` in the config file, broken config
files, three input files in both orders, a file that is missing / a directory / not UTF-8, an out dir that is missing / deep
/ a regular file, the same module twice, `core:` / `vendor:` scheme paths, --color never under NO_COLOR / TERM=dumb) and
gives the expected observables; every configuration is replayed on the real binary with a fake backend that records its
arguments one by one.  The `penne fuzz tokens` product (size x out dir x verbosity x mistakes) is enumerated in full."""
import json
import os
import shutil
import subprocess
from concurrent.futures import ThreadPoolExecutor

from . import common
from . import pipeline_common as pc
from .common import log

FAKE = """#!/bin/sh
# fake backend: records its name and every argument in brackets, swallows its input
{ printf '%s' "$(basename "$0")"; for a in "$@"; do printf ' [%s]' "$a"; done; echo; } >> "$FAKE_LOG"
cat > "$FAKE_LOG.stdin"
exit 0
"""
M_OK = 'fn main() -> u8\n{\n\tprint!("hi\\n");\n\tvar r: u8 = 3;\n\treturn: r\n}\n'
M_SEM = 'fn main() -> u8\n{\n\tprint!("hi\\n");\n\tvar r: u8 = 3;\n\tvar q: u8 = nothing;\n\treturn: r\n}\n'
A_SRC = "pub fn a_f() -> u8\n{\n\treturn: 1\n}\n"
Z_SRC = "pub fn z_f() -> u8\n{\n\treturn: 2\n}\n"
FILES = {"m": ["m.pn"], "m a": ["m.pn", "a.pn"], "m a z": ["m.pn", "a.pn", "z.pn"], "a m": ["a.pn", "m.pn"],
         "a z m": ["a.pn", "z.pn", "m.pn"], "m m": ["m.pn", "m.pn"], "m C": ["m.pn", "core:text/char.pn"], "V m": ["vendor:libc", "m.pn"]}
DIMS = ["sub", "input", "files", "bad", "ofile", "outdir", "wasm", "bargs", "largs", "cfgwasm", "cfgbad", "color", "envc"]
OUTDIR = {"existing": "outd", "missing": "newd", "deep": "new1/new2", "file": "outd"}


def canon(c):
    return " ".join("%s=%s" % (k, c[k]) for k in DIMS)


def make_backend(root):
    """written once, before any thread starts a process (ETXTBSY, see c18.make_backends)"""
    bindir = os.path.join(root, "abin")
    os.makedirs(bindir, exist_ok=True)
    for n in ("fakeb", "fakelli"):
        path = os.path.join(bindir, n)
        with open(path, "w") as f:
            f.write(FAKE)
        os.chmod(path, 0o755)
    return bindir


def modules_of(c):
    """the modules the .ll files are expected for: (name the compiler uses, a text the IR of that module must contain)"""
    out = []
    for name in FILES[c["files"]]:
        if name == "vendor:libc":
            d = os.path.join(common.REPO, "vendor", "libc")
            for f in sorted(os.listdir(d)):
                if f.endswith(".pn"):
                    out.append(("vendor:libc/" + f, None))
        else:
            out.append((name, {"m.pn": "@main(", "a.pn": "@a_f(", "z.pn": "@z_f("}.get(name)))
    return out


def base_env(root, d):
    env = {k: v for k, v in os.environ.items() if k not in ("PENNE_BACKEND", "PENNE_LLI", "RUST_BACKTRACE", "NO_COLOR", "CLICOLOR", "CLICOLOR_FORCE")}
    env["PATH"] = os.path.join(root, "abin") + ":" + env.get("PATH", "")
    env["FAKE_LOG"] = os.path.join(d, "backend.log")
    env["RUST_BACKTRACE"] = "0"
    env["TERM"] = "xterm"
    return env


def run_config(penne, root, idx, case):
    c, e = case["cfg"], case["expect"]
    d = os.path.join(root, "a%d" % idx)
    shutil.rmtree(d, ignore_errors=True)
    os.makedirs(d)
    open(os.path.join(d, "m.pn"), "w").write(M_OK if c["input"] == "valid" else M_SEM)
    open(os.path.join(d, "a.pn"), "w").write(A_SRC)
    open(os.path.join(d, "z.pn"), "w").write(Z_SRC)
    args = [penne, c["sub"]]
    args += ["--backend", "fakeb" if c["sub"] == "build" else "fakelli"] if c["sub"] != "emit" else []
    if c["color"] == "never":
        args += ["--color", "never"]
    if c["wasm"] == "yes":
        args.append("--wasm")
    if c["outdir"] != "none":
        if c["outdir"] == "existing":
            os.makedirs(os.path.join(d, "outd"))
        elif c["outdir"] == "file":
            open(os.path.join(d, "outd"), "w").write("a regular file\n")
        args += ["--out-dir", OUTDIR[c["outdir"]]]
    if c["ofile"] != "none":
        args += ["-o", "prog.bin" if c["ofile"] == "plain" else "bin/prog"]
    if e["flag_b"]:
        args.append("--backend-args=" + " ".join(e["flag_b"]))
    if e["flag_l"]:
        args.append("--link-args=" + " ".join(e["flag_l"]))
    if e["uses_config"]:
        lines = []
        if e["cfg_b"]:
            lines.append('backend_args = "%s"' % " ".join(e["cfg_b"]))
        if e["cfg_l"]:
            lines.append('link_args = "%s"' % " ".join(e["cfg_l"]))
        if c["cfgwasm"] == "yes":
            lines.append("wasm = true")
        if c["cfgbad"] == "unknown-key":
            lines.append("nonsense = 1")
        elif c["cfgbad"] == "malformed":
            lines.append("backend = [")
        elif c["cfgbad"] == "wrong-type":
            lines.append('wasm = "yes"')
        if c["cfgbad"] == "missing":
            args += ["--config", "nosuch.toml"]
        else:
            open(os.path.join(d, "cfg.toml"), "w").write("\n".join(lines) + "\n")
            args += ["--config", "cfg.toml"]
    args += FILES[c["files"]]
    if c["bad"] == "missing":
        args.append("nosuch.pn")
    elif c["bad"] == "dir":
        os.makedirs(os.path.join(d, "adir.pn"))
        args.append("adir.pn")
    elif c["bad"] == "nonutf8":
        open(os.path.join(d, "latin.pn"), "wb").write(b"fn f()\n{\n}\n// caf\xe9 \xff\xfe\n")
        args.append("latin.pn")
    env = base_env(root, d)
    if c["envc"] == "NO_COLOR":
        env["NO_COLOR"] = "1"
    elif c["envc"] == "TERM=dumb":
        env["TERM"] = "dumb"
    try:
        p = subprocess.run(args, cwd=d, env=env, stdout=subprocess.PIPE, stderr=subprocess.PIPE, timeout=120)
        rc, out, err = p.returncode, p.stdout, p.stderr
    except subprocess.TimeoutExpired:
        rc, out, err = "timeout", b"", b""
    obs = {"rc": rc, "stdout": out.decode("utf-8", "replace"), "stderr": err.decode("utf-8", "replace"), "argv": args[1:]}
    log_path = os.path.join(d, "backend.log")
    obs["backend_log"] = open(log_path).read().splitlines() if os.path.exists(log_path) else []
    obs["backend_stdin_head"] = open(log_path + ".stdin", errors="replace").read()[:200] if os.path.exists(log_path + ".stdin") else ""
    files = {}
    for dp, dn, fn in os.walk(d):
        for f in fn:
            rel = os.path.relpath(os.path.join(dp, f), d)
            if rel.endswith(".ll"):
                files[rel] = open(os.path.join(dp, f), errors="replace").read()[:4000]
    obs["ll"] = files
    shutil.rmtree(d, ignore_errors=True)
    return obs


def backend_args(line):
    """`name [a] [b]` -> [a, b]"""
    rest = line.split(" ", 1)[1] if " " in line else ""
    return [x[1:] for x in rest.rstrip("]").split("] ")] if rest else []


def compare(case, obs):
    c, e = case["cfg"], case["expect"]
    rc = obs["rc"]
    if rc == "timeout":
        return [("hang", "penne did not finish within 120 s")]
    if rc < 0 or rc == 101:
        return [("crash", "penne died (status %s): %s" % (rc, obs["stderr"][-300:]))]
    out = []
    text_all = obs["stdout"] + obs["stderr"]
    invoked = obs["backend_log"]
    if e["class"] == "free":
        # the documentation is silent about the verdict: status and backend must still tell the same story
        if c["sub"] != "emit" and (rc == 0) != (len(invoked) == 1):
            out.append(("faithful", "exit status %s but the backend was invoked %d times" % (rc, len(invoked))))
        if rc != 0 and not obs["stderr"].strip():
            out.append(("message", "non-zero status without any message on stderr"))
        return out
    if (rc == 0) != e["exit_zero"]:
        out.append(("exit-status", "exit status %d, the rule demands %s (%s)" % (rc, "0" if e["exit_zero"] else "non-zero", e["class"])))
    if e["invoked"]:
        if len(invoked) != 1:
            out.append(("backend", "the backend should have been invoked once, log: %s" % invoked))
        else:
            got = backend_args(invoked[0])
            want = list(e["argv"])
            if c["sub"] == "build":
                o = e["out"]
                if o["kind"] == "ofile":
                    want.append(o["path"])
                else:
                    ext = "wasm" if o["ext"] == "wasm" else os.uname().machine
                    want.append(os.path.join(o["dir"], o["stem"] + "." + ext))
            if got != want:
                out.append(("backend-args", "the backend received %s, the rule demands %s" % (got, want)))
            if "define" not in obs["backend_stdin_head"] and "ModuleID" not in obs["backend_stdin_head"]:
                out.append(("backend-args", "the backend did not receive IR on its standard input"))
    elif invoked:
        out.append(("backend", "no backend should have been invoked (%s), but: %s" % (e["class"], invoked)))
    if e["ll"]:
        for name, marker in modules_of(c):
            want = os.path.join(e["ll_dir"], name + ".ll")
            text = obs["ll"].get(want)
            if text is None:
                out.append(("out-dir", "%s missing; .ll files found: %s" % (want, sorted(obs["ll"]))))
                continue
            if name not in text or (marker and marker not in text):
                out.append(("out-dir", "%s does not hold the IR of module %s" % (want, name)))
            if e["wasm_triple"] and 'target triple = "wasm32-unknown-wasi"' not in text:
                out.append(("wasm-triple", "wasm target: %s has %s" % (want, [ln for ln in text.splitlines() if ln.startswith("target triple")][:1])))
        stray = [f for f in obs["ll"] if not f.startswith(e["ll_dir"] + os.sep)]
        if stray:
            out.append(("out-dir", ".ll files outside the out dir: %s" % stray))
    elif e["class"] == "ok" and obs["ll"]:
        out.append(("out-dir", "no --out-dir, but .ll files were written: %s" % sorted(obs["ll"])))
    if e["diag"] and ("[E%d]" % e["diag"]) not in text_all:
        out.append(("diagnostics", "failing compilation without a rendered [E%d] diagnostic" % e["diag"]))
    if e["message"] and not obs["stderr"].strip():
        out.append(("message", "non-zero status expected with a message, stderr is empty"))
    if e["no_ansi"] and "\x1b" in text_all:
        out.append(("color-never", "ESC bytes in the output under --color=never (%s)" % c["envc"]))
    return out


def run_fuzz(penne, root, idx, case):
    z = case["fuzz"]
    d = os.path.join(root, "z%d" % idx)
    shutil.rmtree(d, ignore_errors=True)
    os.makedirs(d)
    args = [penne, "fuzz", "tokens", "--kb", str(z["kb"])]
    if z["mistakes"]:
        args += ["--mistakes", str(z["mistakes"])]
    if z["verb"] != "default":
        args.append("--" + z["verb"])
    if z["outdir"] == "existing":
        os.makedirs(os.path.join(d, "fz"))
    elif z["outdir"] == "file":
        open(os.path.join(d, "fz"), "w").write("a regular file\n")
    if z["outdir"] != "none":
        args += ["--out-dir", "fz"]
    try:
        p = subprocess.run(args, cwd=d, env=base_env(root, d), stdout=subprocess.PIPE, stderr=subprocess.PIPE, timeout=120)
        rc, out, err = p.returncode, p.stdout, p.stderr
    except subprocess.TimeoutExpired:
        rc, out, err = "timeout", b"", b""
    path = os.path.join(d, "fz", "fuzzed_tokens.pn")
    size = os.path.getsize(path) if os.path.isfile(path) else None
    utf8 = True
    if size is not None:
        try:
            open(path, "rb").read().decode("utf-8")
        except UnicodeDecodeError:
            utf8 = False
    others = [f for f in (os.listdir(os.path.join(d, "fz")) if os.path.isdir(os.path.join(d, "fz")) else []) if f != "fuzzed_tokens.pn"]
    shutil.rmtree(d, ignore_errors=True)
    return {"rc": rc, "stdout": out.decode("utf-8", "replace")[-400:], "stderr": err.decode("utf-8", "replace")[-400:], "size": size,
            "utf8": utf8, "others": others, "argv": args[1:], "stdout_len": len(out)}


def compare_fuzz(case, obs):
    z, e = case["fuzz"], case["expect"]
    rc = obs["rc"]
    if rc == "timeout":
        return [("hang", "penne fuzz did not finish within 120 s")]
    if rc < 0 or rc == 101:
        return [("crash", "penne fuzz died (status %s): %s" % (rc, obs["stderr"][-300:]))]
    out = []
    if e["free"]:
        if (rc == 0) != (obs["size"] is not None):
            out.append(("faithful", "exit status %s, file written: %s" % (rc, obs["size"] is not None)))
    else:
        if (rc == 0) != e["exit_zero"]:
            out.append(("exit-status", "exit status %d, the rule demands %s" % (rc, "0" if e["exit_zero"] else "non-zero")))
        if e["written"] and obs["size"] is None:
            out.append(("fuzz-file", "fz/fuzzed_tokens.pn was not written (other files: %s)" % obs["others"]))
        if not e["exit_zero"] and not obs["stderr"].strip():
            out.append(("message", "non-zero status without a message"))
    if obs["size"] is not None:
        if obs["size"] < e["min_bytes"]:
            out.append(("fuzz-size", "%d bytes written for --kb %d" % (obs["size"], z["kb"])))
        if not obs["utf8"]:
            out.append(("fuzz-file", "the written file is not UTF-8"))
    if e["silent"] and obs["stdout"].strip():
        out.append(("silent", "--silent but stdout shows %r" % obs["stdout"].strip()[:100]))
    return out


def fuzz_canon(z):
    return "fuzz kb=%s outdir=%s verb=%s mistakes=%s" % (z["kb"], z["outdir"], z["verb"], z["mistakes"])


def run_part(penne, root, tier, findings, selftest):
    """returns the coverage dictionary of this part; discrepancies go to `findings`"""
    r = common.tlc("CliArgs", "MC_CliArgs_%s.cfg" % tier, workers=pc.TLC_WORKERS, timeout=900, heap="4g",
                   tag="pipeline-cliargs-%d" % os.getpid(), keep_output=False)
    if not r.ok or not r.cases:
        raise common.ToolError("CliArgs.tla: %s" % (r.violated or "no cases emitted"))
    cases = sorted((cs for cs in r.cases if "cfg" in cs), key=lambda cs: canon(cs["cfg"]))
    fuzz = sorted((cs for cs in r.cases if "fuzz" in cs), key=lambda cs: fuzz_canon(cs["fuzz"]))
    log("[tlc] CliArgs/MC_CliArgs_%s.cfg: %d argument configurations (base invocation + at most %d deviations), %d fuzz configurations, "
        "%d states, %.1fs, Sane holds" % (tier, len(cases), 2 if tier == "quick" else 3, len(fuzz), r.distinct, r.wall))
    if len(cases) < 1000 or len(fuzz) != 84:
        raise common.ToolError("CliArgs.tla emitted %d + %d cases: the generator is stale" % (len(cases), len(fuzz)))
    make_backend(root)
    with ThreadPoolExecutor(max_workers=int(pc.THREADS)) as ex:
        observations = list(ex.map(lambda k: run_config(penne, root, k, cases[k]), range(len(cases))))
        fobs = list(ex.map(lambda k: run_fuzz(penne, root, k, fuzz[k]), range(len(fuzz))))
    agree = 0
    classes = {}
    for cs, obs in zip(cases, observations):
        problems = compare(cs, obs)
        classes[cs["expect"]["class"]] = classes.get(cs["expect"]["class"], 0) + 1
        if not problems:
            agree += 1
        for clause, msg in problems:
            findings.add(("args", clause), "cli", "args/%s | %s" % (clause, canon(cs["cfg"])),
                         {"part": "args", "case": cs, "observed": {k: (v if not isinstance(v, str) else v[-800:]) for k, v in obs.items() if k != "ll"},
                          "ll_files": sorted(obs["ll"]), "message": msg, "how": "bin/check C18 --replay <this file>"})
    fagree = 0
    for cs, obs in zip(fuzz, fobs):
        problems = compare_fuzz(cs, obs)
        if not problems:
            fagree += 1
        for clause, msg in problems:
            findings.add(("fuzz", clause), "cli", "fuzz/%s | %s" % (clause, fuzz_canon(cs["fuzz"])),
                         {"part": "fuzz", "case": cs, "observed": obs, "message": msg, "how": "bin/check C18 --replay <this file>"})
    # notes (not in the property text): messages that do not name the file they are about; mistakes in an empty text
    probe = run_fuzz(penne, root, 9999, {"fuzz": {"kb": 0, "outdir": "none", "verb": "default", "mistakes": 3}})
    notes = []
    if probe["rc"] == 101:
        notes.append("`penne fuzz tokens --kb 0 --mistakes 3` panics (%s); 0 KB with mistakes is outside the documented use" %
                     (probe["stderr"].strip().splitlines()[1:2] or ["?"])[0][:80])
    unnamed = sum(1 for cs, o in zip(cases, observations) if cs["cfg"]["cfgbad"] == "missing" and isinstance(o["rc"], int) and o["rc"] > 0
                  and "nosuch.toml" not in o["stderr"])
    log("[replay] arguments: %d configurations replayed on the real binary, %d agree with CliArgs on every clause (classes %s); "
        "fuzz: %d of %d agree" % (len(cases), agree, json.dumps(classes, sort_keys=True), fagree, len(fuzz)))
    self_results = {}
    if selftest:
        k0 = next(k for k, cs in enumerate(cases) if cs["cfg"]["sub"] == "build" and cs["cfg"]["bargs"] == "both" and cs["cfg"]["largs"] == "f2"
                  and cs["expect"]["class"] == "ok" and not compare(cs, observations[k]))
        cs, obs = cases[k0], observations[k0]
        swapped = json.loads(json.dumps(cs))
        swapped["expect"]["argv"] = swapped["expect"]["argv"][1:2] + swapped["expect"]["argv"][:1] + swapped["expect"]["argv"][2:]
        self_results["args_swapped_link_argument_detected"] = any(cl == "backend-args" for cl, _ in compare(swapped, obs))
        cfgwins = json.loads(json.dumps(cs))
        cfgwins["expect"]["argv"] = ["-O3", "-v"] + cfgwins["expect"]["argv"][1:]
        self_results["args_config_instead_of_flag_detected"] = any(cl == "backend-args" for cl, _ in compare(cfgwins, obs))
        k1 = next(k for k, cs_ in enumerate(cases) if cs_["expect"]["class"] == "usage" and cs_["cfg"]["bad"] == "nonutf8" and not compare(cs_, observations[k]))
        ok_status = dict(observations[k1], rc=0)
        self_results["args_status_0_for_unreadable_file_detected"] = any(cl == "exit-status" for cl, _ in compare(cases[k1], ok_status))
        k2 = next(k for k, cs_ in enumerate(cases) if cs_["expect"]["ll"] and cs_["cfg"]["outdir"] == "deep" and cs_["cfg"]["files"] == "a z m"
                  and not compare(cs_, observations[k]))
        lost = dict(observations[k2], ll={f: t for f, t in observations[k2]["ll"].items() if not f.endswith("z.pn.ll")})
        self_results["args_missing_ll_of_third_module_detected"] = any(cl == "out-dir" for cl, _ in compare(cases[k2], lost))
        k3 = next(k for k, cs_ in enumerate(fuzz) if cs_["expect"]["written"] and cs_["fuzz"]["kb"] == 4 and not compare_fuzz(cs_, fobs[k]))
        self_results["fuzz_short_file_detected"] = any(cl == "fuzz-size" for cl, _ in compare_fuzz(fuzz[k3], dict(fobs[k3], size=4000)))
    return {"configurations": len(cases), "agree": agree, "classes": classes, "fuzz_configurations": len(fuzz), "fuzz_agree": fagree,
            "tlc_states": r.distinct, "max_deviations": 2 if tier == "quick" else 3,
            "config_missing_not_named_in_message": unnamed, "notes": notes, "selftests": self_results}


def replay(detail, penne):
    case = detail["case"]
    root = os.path.join(common.WORK, "pipeline-cliargs-replay-%d" % os.getpid())
    os.makedirs(root, exist_ok=True)
    make_backend(root)
    if detail.get("part") == "fuzz":
        obs = run_fuzz(penne, root, 0, case)
        problems = compare_fuzz(case, obs)
    else:
        obs = run_config(penne, root, 0, case)
        problems = compare(case, obs)
    shutil.rmtree(root, ignore_errors=True)
    print("argv:   ", " ".join(obs["argv"]))
    print("status: ", obs["rc"])
    print("backend:", obs.get("backend_log"))
    print("stdout:\n" + obs["stdout"][-1500:])
    print("stderr:\n" + obs["stderr"][-1500:])
    if "ll" in obs:
        print(".ll files:", sorted(obs["ll"]))
    for clause, msg in problems:
        print("DISCREPANCY %s: %s" % (clause, msg))
    return 0

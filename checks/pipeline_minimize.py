"""Delta-debugging of a replay file of the pipeline group (developer tool, not a registered command):

    python3 -m checks.pipeline_minimize replays/C02-xxxx.json [out.json]

Shrinks the modules of the case line-wise and then token-wise while the failure signature (panic site
and message / kind of crash / silent failure / internal error) stays the same; every candidate runs in
an isolated worker child.  Prints the minimal sources."""
import json
import os
import re
import sys

from . import common
from . import pipeline_common as pc


def signature(evs):
    end, last = pc.end_of(evs)
    if end == "panic":
        return ("panic", pc.norm_path(last.get("at")).rsplit(":", 1)[0], last.get("msg", "")[:40])
    if end == "crash":
        return ("crash", last.get("what"))
    if end in ("silent", "hang"):
        return (end,)
    if end == "internal":
        return ("internal", last.get("at"))
    return (end,)


def run_many(cands, tag):
    """cands: list of case dicts -> list of signatures"""
    cpath = os.path.join(common.WORK, "pipeline-min-%s-%d.ndjson" % (tag, os.getpid()))
    epath = cpath.replace(".ndjson", ".events.ndjson")
    for i, c in enumerate(cands):
        c["id"] = "cand%d" % i
    common.write_ndjson(cpath, cands)
    pc.pvh(["run", cpath, epath, "--batch", "8", "--timeout", "10"])
    sigs = {}
    for inp, evs, _ in pc.grouped_events(epath):
        sigs[inp["id"]] = signature(evs)
    os.remove(cpath)
    os.remove(epath)
    return [sigs.get("cand%d" % i) for i in range(len(cands))]


def pieces(text, mode):
    if mode == "lines":
        return text.splitlines(keepends=True)
    return re.findall(r"\s+|[A-Za-z0-9_]+!?|\"(?:[^\"\\\n]|\\.)*\"?|'(?:[^'\\\n]|\\.)*'?|.", text, re.S)


def ddmin(case, target, mode):
    changed = True
    while changed:
        changed = False
        for m in range(len(case["mods"])):
            parts = pieces(case["mods"][m]["src"], mode)
            n = 2
            while len(parts) >= 1:
                size = max(1, len(parts) // n)
                cands = []
                spans = []
                for start in range(0, len(parts), size):
                    rest = parts[:start] + parts[start + size:]
                    c = json.loads(json.dumps(case))
                    c["mods"][m]["src"] = "".join(rest)
                    cands.append(c)
                    spans.append(rest)
                sigs = run_many(cands, mode)
                hit = next((i for i, s in enumerate(sigs) if s == target), None)
                if hit is not None:
                    parts = spans[hit]
                    case["mods"][m]["src"] = "".join(parts)
                    n = max(2, n - 1)
                    changed = True
                elif size == 1:
                    break
                else:
                    n = min(len(parts), n * 2)
        # whole modules
        if len(case["mods"]) > 1:
            cands = []
            for m in range(len(case["mods"])):
                c = json.loads(json.dumps(case))
                del c["mods"][m]
                cands.append(c)
            sigs = run_many(cands, "mods")
            hit = next((i for i, s in enumerate(sigs) if s == target), None)
            if hit is not None:
                del case["mods"][hit]
                changed = True
    return case


def main():
    d = json.load(open(sys.argv[1]))
    case = d["detail"]["case"] if "detail" in d else d
    for k in ("expect", "fault", "toks"):
        case.pop(k, None)
    common.build_harness(pc.EXE)
    target = run_many([json.loads(json.dumps(case))], "orig")[0]
    print("signature:", target)
    if target[0] in ("success", "failure"):
        print("the case does not fail in an interesting way")
        return 1
    case = ddmin(case, target, "lines")
    case = ddmin(case, target, "tokens")
    for m in case["mods"]:
        print("---- %s (%d bytes)" % (m["name"], len(m["src"])))
        print(m["src"])
    if len(sys.argv) > 2:
        json.dump(case, open(sys.argv[2], "w"), indent=1)
    return 0


if __name__ == "__main__":
    sys.exit(main())

"""Repetition coverage of the derived modules: every construct of the grammar that can be repeated (chained casts,
reference steps, address operators, else-if chains, list items, nested parentheses / blocks / types, operator chains,
string pieces) must occur with at least the stated number of repetitions among the exhaustively derived modules.
TLC's -coverage output counts how often a production is applied, not how often it is applied *again inside itself*;
this module counts that, from the trees TLC emitted."""

REQUIRED = {
    "as chain (e as A as B ...)": 3,
    "as after cast (cast e as A as B)": 2,
    "reference steps (x.m[i]...)": 3,
    "reference mixes member and index steps": 1,
    "address operators in an expression (&&&x)": 3,
    "address operators on the left of an assignment": 2,
    "else-if chain": 2,
    "call arguments": 3,
    "parameters": 3,
    "struct/word members": 3,
    "array elements": 3,
    "structure literal fields": 3,
    "declarations in a module": 2,
    "statements in a function body": 3,
    "statements in a block": 3,
    "nested parentheses": 2,
    "nested blocks": 2,
    "nested pointer types (&&T)": 2,
    "nested array types ([N][M]T)": 2,
    "operands of a + - chain": 3,
    "operands of a * / % chain": 3,
    "operands of a bitwise chain": 3,
    "pieces of a string literal": 3,
    "nested calls f(f(..))": 2,
    "nested array literals": 2,
    "nested structure literals": 2,
}


def _chain(t, kind, child, same=lambda a, b: True):
    n = 0
    while isinstance(t, dict) and t.get("k") == kind:
        n += 1
        nxt = t.get(child)
        if not (isinstance(nxt, dict) and nxt.get("k") == kind and same(t, nxt)):
            break
        t = nxt
    return n


ADD, MUL, BIT = {"+", "-"}, {"*", "/", "%"}, {"&", "|", "^"}


def measure(case, best):
    def up(key, n):
        if n > best.get(key, 0):
            best[key] = n

    def nest(t, kind, fields):
        """longest chain kind -> (any of fields) -> kind ... directly nested"""
        if not (isinstance(t, dict) and t.get("k") == kind):
            return 0
        m = 0
        for f in fields:
            v = t.get(f)
            for x in (v if isinstance(v, list) else [v]):
                if isinstance(x, dict) and x.get("name") is not None and "e" in x and "k" not in x:
                    x = x["e"]          # field of a structure literal
                m = max(m, nest(x, kind, fields))
        return 1 + m

    def walk(t, in_type=False):
        if isinstance(t, list):
            for x in t:
                walk(x, in_type)
            return
        if not isinstance(t, dict):
            return
        k = t.get("k")
        if k == "as":
            n = _chain(t, "as", "e")
            up("as chain (e as A as B ...)", n)
            inner = t
            while isinstance(inner.get("e"), dict) and inner["e"].get("k") == "as":
                inner = inner["e"]
            if isinstance(inner.get("e"), dict) and inner["e"].get("k") == "cast":
                up("as after cast (cast e as A as B)", n)
        if "ref" in t and isinstance(t["ref"], dict):
            r = t["ref"]
            steps = r.get("steps", [])
            up("reference steps (x.m[i]...)", len(steps))
            if {s.get("k") for s in steps} >= {"idx", "mem"}:
                up("reference mixes member and index steps", 1)
            if k == "set":
                up("address operators on the left of an assignment", r.get("addr", 0))
            else:
                up("address operators in an expression (&&&x)", r.get("addr", 0))
        if k == "if":
            n = 0
            cur = t
            while isinstance(cur.get("e"), dict) and cur["e"].get("k") == "if":
                n += 1
                cur = cur["e"]
            up("else-if chain", n)
        if k in ("call", "fcall"):
            up("call arguments", len(t.get("args", [])))
            up("nested calls f(f(..))", nest(t, "fcall", ["args"]) if k == "fcall" else 0)
        if k in ("fn", "head"):
            up("parameters", len(t.get("params", [])))
        if k == "fn":
            up("statements in a function body", len(t.get("body", [])))
        if k in ("struct", "word"):
            up("struct/word members", len(t.get("members", [])))
        if k == "array" and "es" in t:
            up("array elements", len(t["es"]))
            up("nested array literals", nest(t, "array", ["es"]))
        if k == "structural":
            up("structure literal fields", len(t.get("fields", [])))
            up("nested structure literals", nest(t, "structural", ["fields"]))
        if k == "block":
            up("statements in a block", len(t.get("b", [])))
            up("nested blocks", nest(t, "block", ["b"]))
        if k == "paren":
            up("nested parentheses", _chain(t, "paren", "e"))
        if k == "ptr":
            up("nested pointer types (&&T)", _chain(t, "ptr", "t"))
        if k in ("array", "arrayc") and "t" in t:
            n, cur = 0, t
            while isinstance(cur, dict) and cur.get("k") in ("array", "arrayc") and "t" in cur:
                n += 1
                cur = cur["t"]
            up("nested array types ([N][M]T)", n)
        if k == "bin":
            for name, ops in (("operands of a + - chain", ADD), ("operands of a * / % chain", MUL), ("operands of a bitwise chain", BIT)):
                if t.get("op") in ops:
                    n, cur = 1, t
                    while isinstance(cur, dict) and cur.get("k") == "bin" and cur.get("op") in ops:
                        n += 1
                        cur = cur["l"]
                    up(name, n)
        for v in t.values():
            walk(v)

    tree = case["tree"]
    up("declarations in a module", len(tree.get("decls", [])))
    walk(tree)
    run = 0
    for tok in case["toks"]:
        run = run + 1 if tok.get("k") == "str" else 0
        up("pieces of a string literal", run)


def missing(best):
    return {k: (best.get(k, 0), need) for k, need in REQUIRED.items() if best.get(k, 0) < need}

"""C12, family `import paths` (spec/ImportPaths.tla): an import string that is both the path of a file as given and a path
relative to the importing file; TLC says which file it binds to (the exact path wins, the order of the files is no part of
the rule); the sets are compiled in every file order as `penne <files>` does and executed."""
import json
import os

from . import common
from .common import log

NAMES = {"main": "main.pn", "top": "util.pn", "sub": "lib/util.pn"}


def render(cell):
    a_name = "lib/a.pn" if cell["dir"] == "sub" else "a.pn"
    texts = {
        "main": (NAMES["main"], 'import "%s";\n\nfn main() -> i32\n{\n\treturn: a_get()\n}\n' % a_name),
        "a": (a_name, 'import "util.pn";\n\npub fn a_get() -> i32\n{\n\treturn: 7 * SCALE\n}\n'),
        "top": (NAMES["top"], "pub const SCALE: i32 = 10;\n"),
        "sub": (NAMES["sub"], "pub const SCALE: i32 = 3;\n"),
    }
    return [list(texts[f]) for f in cell["order"]]


def key_of(cell):
    return "import-paths importer=%s util.pn=%s lib/util.pn=%s order=%s" % ("lib/a.pn" if cell["dir"] == "sub" else "a.pn", cell["top"], cell["sub"], ",".join(cell["order"]))


def run_part(rep, tier, selftest):
    r = common.tlc("ImportPaths", "ImportPaths.cfg", workers=2, timeout=300, tag="c12-importpaths-%d" % os.getpid(), keep_output=False)
    if not r.ok or not r.cases:
        raise common.ToolError("ImportPaths: %s" % (r.violated or "no cases"))
    cells = sorted(r.cases, key=lambda c: json.dumps(c, sort_keys=True))
    inp = os.path.join(common.WORK, "c12-importpaths-%d.ndjson" % os.getpid())
    out = os.path.join(common.WORK, "c12-importpaths-%d-out.ndjson" % os.getpid())
    common.write_ndjson(inp, [{"files": render(c)} for c in cells])
    common.build_harness("pvh_machine")
    common.pvh(["run-files", inp, out], exe_name="pvh_machine", timeout=1800)
    results = [json.loads(l) for l in open(out)]
    os.remove(inp)
    os.remove(out)
    bad = 0
    noticed = False
    for c, o in zip(cells, results):
        if o.get("toolerror"):
            raise common.ToolError("import-paths: %s" % o["toolerror"])
        if c["bound"] == "none":
            ok = bool(o.get("rejected")) and any(d[0] == 470 for d in o.get("diags", []))
            want = "rejected with E470 (no file of that path, none next to the importing file)"
        else:
            ok = o.get("exit") == c["exit"]
            want = "exit status %d (the import binds to %s)" % (c["exit"], NAMES[c["bound"]])
            if ok and selftest and not noticed:
                noticed = o.get("exit") != c["exit"] + 1
        if not ok:
            bad += 1
            got = ("exit %s" % o["exit"]) if "exit" in o else json.dumps({k: o[k] for k in o if k not in ("i", "ir")})[:300]
            rep.violation("import-paths", key_of(c), {"part": "import-paths", "cell": c, "files": render(c), "observed": {k: v for k, v in o.items() if k != "ir"},
                                                      "message": "the rule demands %s; observed %s" % (want, got)})
    if selftest and not noticed:
        raise common.ToolError("import-paths self-test: no cell ran to its expected exit status")
    log("[import-paths] %d cells of ImportPaths.tla (an import that is both an exact and a relative path, every file order) compiled and run: %d violations" % (len(cells), bad))
    return {"cells": len(cells), "states": r.distinct, "generated": r.generated, "violations": bad}


def replay(detail):
    print(json.dumps(detail["cell"]))
    for name, src in detail["files"]:
        print("---- %s\n%s" % (name, src))
    print("observed:", json.dumps(detail["observed"]))
    return 0

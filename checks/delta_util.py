"""Helpers shared by the checks of the second-generation front end (C15, C17): running cases through the
isolated workers of `pvh_delta`, assembling trace files, validating them with TLC and locating the run a
rejection belongs to."""
import json
import os

from . import common
from .common import log


def run_cases(prop, name, cases, events=False, evfilter=None, timeout_s=10, xml=False, retry_timeouts=True, threads=None):
    """Write the case descriptors, run them through `pvh_delta run` (isolated children), return observations."""
    os.makedirs(common.WORK, exist_ok=True)
    cases_path = os.path.join(common.WORK, "%s-%s-cases.ndjson" % (prop, name))
    obs_path = os.path.join(common.WORK, "%s-%s-obs.ndjson" % (prop, name))
    common.write_ndjson(cases_path, cases)
    args = ["run", cases_path, obs_path, "--timeout", timeout_s]
    if events:
        args.append("--events")
    if xml:
        args.append("--xml")
    env = {"PENNE_REPO": common.REPO}
    if evfilter:
        env["PVH_EVFILTER"] = ",".join(evfilter)
    if threads:
        env["PVH_THREADS"] = str(threads)
    common.pvh(args, exe_name="pvh_delta", env=env, timeout=7200)
    obs = common.read_ndjson(obs_path)
    if len(obs) != len(cases):
        raise common.ToolError("pvh_delta returned %d observations for %d cases" % (len(obs), len(cases)))
    # A silent child is only a hang if it stays silent when the machine has time for it: on a box shared with other
    # checks (load average > 100 was seen) a 48 KB nesting whose dump is quadratic took longer than 10 s.  Cases that
    # timed out are run once more, a few at a time, with a generous limit; what is silent then is reported.
    late = [k for k, o in enumerate(obs) if o.get("o") == "timeout"]
    if late and retry_timeouts and len(late) <= 40:
        again = run_cases(prop, name + "-late", [cases[k] for k in late], events=events, evfilter=evfilter,
                          timeout_s=max(180, 12 * timeout_s), xml=xml, retry_timeouts=False, threads=2)
        for k, o in zip(late, again):
            if o.get("o") != "timeout":
                log("[run] %s/%s case %d answered after the first time limit (%s): machine load, not a hang" % (prop, name, k, o.get("o")))
            obs[k] = o
    for o in obs:
        if o.get("o") == "toolerror":
            raise common.ToolError("pvh_delta worker failed: %s" % json.dumps(o)[:400])
    return obs


def interleave(groups):
    """Round-robin merge so that the contiguous ranges the supervisor hands to its lanes are balanced."""
    out = []
    iters = [iter(g) for g in groups]
    while iters:
        nxt = []
        for it in iters:
            try:
                out.append(next(it))
                nxt.append(it)
            except StopIteration:
                pass
        iters = nxt
    return out


def write_traces(prefix, runs, chunks):
    """runs: list of lists of event dicts (one list per run, starting with its `input` event).
    Returns the list of files written (runs spread evenly, whole runs only)."""
    files = []
    chunks = max(1, min(chunks, len(runs)))
    per = (len(runs) + chunks - 1) // chunks
    for c in range(chunks):
        part = runs[c * per:(c + 1) * per]
        if not part:
            continue
        path = "%s.%d.ndjson" % (prefix, c)
        with open(path, "w") as f:
            for run in part:
                for e in run:
                    f.write(json.dumps(e, separators=(",", ":")))
                    f.write("\n")
            # sentinel: only matched when the last run is complete (a truncated last run must not be accepted)
            f.write('{"ev":"end"}\n')
        files.append(path)
    return files


def locate(path, matched):
    """(number of runs in the file, info about the run the first unmatched line belongs to).  If the unmatched
    line is the `input` line of a run, the culprit is the run before it (it ended without an outcome)."""
    n = 0
    cur = None
    prev = None
    bad = None
    with open(path) as f:
        for lineno, line in enumerate(f, 1):
            o = json.loads(line)
            if o.get("ev") == "input":
                n += 1
                prev = cur
                cur = o
            if matched is not None and lineno == matched + 1:
                if o.get("ev") == "input" and prev is not None:
                    bad = {"index": n - 2, "event": o, "input": prev, "ended_without_outcome": True}
                elif o.get("ev") == "end":
                    bad = {"index": n - 1, "event": o, "input": cur, "ended_without_outcome": True}
                else:
                    bad = {"index": n - 1, "event": o, "input": cur}
    if matched is not None and bad is None:
        bad = {"index": n - 1, "event": None, "input": cur, "ended_without_outcome": True}
    return n, bad


def remainder(path, first_run):
    out = []
    n = -1
    with open(path) as f:
        for line in f:
            if '"ev":"input"' in line:
                n += 1
            if n >= first_run:
                out.append(line)
    if not out:
        return None
    base = path[:-len(".ndjson")] if path.endswith(".ndjson") else path
    new = base + "r.ndjson"
    with open(new, "w") as f:
        f.writelines(out)
    return new


def validate_traces(module, cfg, files, on_reject, max_rounds=10, parallel=12):
    """Validate trace files with TLC.  A rejected file is cut after the rejected run and the rest validated
    again, so that one rejection never leaves the remainder unexamined.  on_reject(bad, result) is called once
    per rejected run.  Returns (runs accepted, events matched)."""
    accepted = 0
    events = 0
    todo = list(files)
    rounds = 0
    while todo and rounds < max_rounds:
        rounds += 1
        results = common.tlc_traces(module, cfg, todo, parallel=parallel)
        todo = []
        for res in results:
            events += res["matched"]
            nruns, bad = locate(res["file"], None if res["accepted"] else res["matched"])
            if res["accepted"]:
                accepted += nruns
                continue
            accepted += max(0, bad["index"])
            on_reject(bad, res)
            rest = remainder(res["file"], bad["index"] + 1)
            if rest:
                todo.append(rest)
    if todo:
        log("[trace] more than %d rejections in one file; the rest of %s was not validated" % (max_rounds, todo))
    return accepted, events


def corrupted_copies(path, tag, mutators):
    """Apply each (name, fn(lines) -> lines or None) to a copy of a recording; returns [(name, file)]."""
    lines = open(path).read().splitlines()
    out = []
    for name, fn in mutators:
        new = fn(list(lines))
        if new is None:
            continue
        p = os.path.join(common.WORK, "selftest-%s-%s.ndjson" % (tag, name))
        with open(p, "w") as f:
            f.write("\n".join(new) + "\n")
        out.append((name, p))
    return out

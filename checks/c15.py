"""C15 -- the second-generation front end is total and memory-safe on any bytes (spec/DeltaBuffers.tla).

Level `exploration`: the deciding observation "the process panicked / died / hung" is made by the harness
(isolated workers of `pvh_delta`); the specification contributes
  * the input space: TLC enumerates every derivation of the annotated grammar up to a token bound (with junk
    tokens, truncation and invalid lexemes) and every token sequence up to length 2 (3) over the lexer's
    alphabet in 8 contexts; seeded generators add arbitrary bytes, token soups, well-formed programs of every
    density, deep nesting, mutated and plain corpus files (<= 256 KiB);
  * the verdict oracle: well-formed => accepted without diagnostics, invalid lexeme => rejected, an exhausted
    token buffer => exactly E103, never a crash;
  * the buffer protocol every recorded run is validated against by TLC (Trace_DeltaBuffers.tla): SetLen
    argument = number of initialised slots <= capacity, pushes refused only when full, cursor inside the token
    array, conservation in the header pass.  A crash truncates the recording = rejection.
TLC also model-checks the protocol + grammar itself: with the pinned capacity 5 + 2*tokens the invariant NoCrash
is violated (MC_DeltaBuffers_defect.cfg, 11 tokens); with 5 + 4*tokens and complete expectation texts all of R
holds up to the bound (MC_DeltaBuffers_k4_*.cfg).
"""
import json
import os
import random
import time

from . import common, delta_util
from .common import log

# The algorithm model A is instantiated with the constants of the code under test (capacity factor, complete
# expectation texts); they only matter for MODEL-DRIFT notes -- R does not mention them.
EMIT = {"quick": "MC_DeltaBuffers_emit_quick.cfg", "thorough": "MC_DeltaBuffers_emit_thorough.cfg"}
EMIT_PINNED = {"quick": "MC_DeltaBuffers_emit_pinned_quick.cfg", "thorough": "MC_DeltaBuffers_emit_pinned_thorough.cfg"}
# derivations with TWO junk tokens / truncations / invalid lexemes (a second failing declaration after a first one, an
# invalid lexeme after a parse error, ...), to a smaller token bound
EMIT2 = {"quick": "MC_DeltaBuffers_emit2_quick.cfg", "thorough": "MC_DeltaBuffers_emit2_thorough.cfg"}
SEQ = {"quick": "DeltaSeq_quick.cfg", "thorough": "DeltaSeq_thorough.cfg"}
HOLDS = {"quick": [("MC_DeltaBuffers_k4_quick.cfg", 8), ("MC_DeltaBuffers_k4_lean.cfg", 4), ("MC_DeltaBuffers_k4_aborts2.cfg", 4)],
         "thorough": [("MC_DeltaBuffers_k4_thorough.cfg", 8), ("MC_DeltaBuffers_k4_lean.cfg", 4), ("MC_DeltaBuffers_k4_aborts2.cfg", 4)]}
DEFECTS = [("MC_DeltaBuffers_defect.cfg", "node capacity 5 + 2 * tokens"),
           ("MC_DeltaBuffers_defect_k3.cfg", "node capacity 5 + 3 * tokens"),
           ("MC_DeltaBuffers_defect_unreachable.cfg", "consume(Comma) / consume(Colon) without expectation text")]
# family -> number of random inputs
RANDOM = {
    "quick": {"bytes": 3000, "soup": 1500, "badlex": 1000, "prog": 2400, "deep": 216, "mut": 3000, "corpus": 0, "prog2": 1200},
    "thorough": {"bytes": 30000, "soup": 10000, "badlex": 6000, "prog": 12000, "deep": 720, "mut": 40000, "corpus": 0, "prog2": 6000},
}
EVMAX = 300           # runs with more hook events are recorded with the buffer-protocol events only
TRACE_SAMPLE = {"quick": 1500, "thorough": 20000}   # emitted (TLC) cases whose runs are trace-validated as well
EDGE_CFG = {"quick": "MC_DeltaBuffersEdge.cfg", "thorough": "MC_DeltaBuffersEdge_thorough.cfg"}    # boundary cells (dimension audit)
AGAIN = {"quick": 2000, "thorough": 12000}           # inputs run a second time, in another order, in the same worker processes

RULE = ("Inputs: (a) every derivation of the annotated grammar of DeltaBuffers.tla with <= 11 (12) tokens incl. one junk "
        "token / truncation / invalid lexeme, emitted by TLC with the rule's verdict; (b) every token sequence of length "
        "<= 2 (3) over 58 lexemes (one per BaseToken + an invalid one), emitted by TLC, in 8 contexts; (c) seeded random "
        "inputs <= 256 KiB: arbitrary bytes (uniform, printable, source-like, NUL-heavy, high-bytes, quote/escape-heavy), "
        "token soups, soups with invalid lexemes, well-formed programs in 8 density profiles, deeply nested well-formed "
        "constructs (depth 16..40000), mutated corpus files, all corpus files. Each input runs lex -> errors -> tokens XML "
        "-> parse -> errors -> tree XML -> build_header -> header XML in an isolated worker (8 MiB stack, 10 s timeout); "
        "panics are caught and recorded, a dead or silent child is recorded as crash / timeout for exactly that input. "
        "Verdicts are compared with the rule; recorded hook events of every random run and of a sample of the emitted "
        "ones are validated by TLC against the buffer protocol. (d) boundary cells emitted by TLC with the rule's "
        "expectation (MC_DeltaBuffersEdge.tla): token counts cap-3..cap+2 x 9 source lengths around 2*65536 x {declarations, "
        "`;`, literals} x invalid lexemes {none, first, last, 101} x raw bytes in a comment; 2^8 / 2^16 payloads; 1..250 "
        "lexical / parse errors, stray modifiers; every lexeme cut by the end of input; NUL / control / invalid and valid "
        "multi-byte bytes in comments, strings and between tokens at the first / middle / last byte; address and access "
        "depth 1..256; 0..5000 declarations; names of 1..200000 bytes; 2^31 + 1 bytes (E102). (e) a sample of all inputs "
        "is run a second time in another order in the same worker processes (state left behind by the previous input). "
        "Non-trivial = distinct inputs that reach the parser (no lexical error) or contain an invalid lexeme among valid ones.")

ASSUMPTIONS = [
    "level exploration: 'the process panicked / died / hung' is observed by the harness, not derived by TLC; the "
    "specification supplies input space, verdict oracle and buffer protocol",
    "memory safety is decided through the buffer protocol (every published length = number of initialising writes <= "
    "capacity; every slice starts inside the array) and through crashes; a silent out-of-bounds read that neither "
    "crashes nor breaks the protocol is invisible; in the thorough tier the same front-end runs are repeated under "
    "`cargo +nightly miri` on all single-token inputs and a sample of the emitted derivations as a stricter observer "
    "(an assumption about miri's fidelity, not the deciding technique)",
    "the XML dumps take the source as &str; they are only exercised on inputs that are valid UTF-8 and have no "
    "diagnostics, exactly as src/main.rs does",
    "the front end runs on a thread with an 8 MiB stack (the default main-thread stack on Linux)",
    "E103 is accepted for a well-formed module only when the token buffer really was exhausted, which the rule allows "
    "only above 65536 tokens (the documentation of E103 gives no number)",
    "well-formed programs are drawn from the documented syntax (docs/syntax.md, docs/features.md); constructs that only "
    "occur in tests/samples ([..]T, [:]T, builtins, field-init shorthand) are used in soups and token sequences only",
    "debug assertions are on (the pinned test suite builds with the dev profile as well)",
]


MIRI_CARGO = """[package]
name = "pvh_delta_miri"
version = "0.1.0"
edition = "2024"

[workspace]

[dependencies]
penne = { path = "%s", features = ["penne_verif"] }
"""

MIRI_MAIN = r"""//! Runs the second-generation front end under miri on the inputs listed in the file given as argument
//! (one per line, "\n" for a line feed): a stricter observer of the same runs.
use penne::delta::{lexer, parser};
fn run(src: &str) -> &'static str {
    let tokens = lexer::lex(src.as_bytes(), "case.pn");
    if tokens.errors().is_some() {
        return "lexerr";
    }
    let _ = tokens.as_xml(src).count();
    let tree = parser::parse(&tokens);
    if tree.errors(&tokens).is_some() {
        return "parseerr";
    }
    let _ = tree.as_xml(&tokens, src).count();
    let header = tree.build_header();
    let _ = header.as_xml(&tokens, src).count();
    "ok"
}
fn main() {
    std::panic::set_hook(Box::new(|_| {}));
    let path = std::env::args().nth(1).expect("input file");
    let inputs = std::fs::read_to_string(path).expect("read inputs");
    let (mut n, mut panics) = (0, 0);
    for line in inputs.lines() {
        let src = line.replace("\\n", "\n");
        eprintln!("MIRI-INPUT {n}");
        if std::panic::catch_unwind(|| run(&src)).is_err() {
            panics += 1;
        }
        n += 1;
    }
    println!("MIRI-DONE inputs={n} panics={panics}");
}
"""

LEXEME = {"str": '"s"', "chr": "'a'", "bad": "`", "id": "x", "bi": "f!", "ty": "i32", "lit": "1", "suf": "1u8"}
CONTEXT = {"top": ("", ""), "body": ("fn f ( ) { ", " }"), "stmt": ("fn f ( ) { x = ", " ; }"), "type": ("const c : ", " = 1 ;"),
           "param": ("fn f ( ", " ) ;"), "member": ("struct S { ", " }"), "cond": ("fn f ( ) { if ", " { } }"),
           "pubbody": ("pub fn f ( ) { ", " } fn g ( ) ;"), "aftererr": ("fn ( ; fn g ( ) { ", " }"),
           "afterpub": ("pub fn f ( ) { } ", ""), "eofexpr": ("fn f ( ) { x = ", ""),
           "pubconst": ("fn g ( ) { } pub const c : i32 = ", " ; fn h ( ) ;")}


def toks_source(desc):
    pre, post = CONTEXT[desc.get("ctx", "top")]
    return pre + " ".join(LEXEME.get(t, t) for t in desc["toks"]) + post


def miri_observer(rep, descs, parallel=8):
    """Optional stricter observer (thorough tier): the same front-end runs under `cargo +nightly miri`.
    Returns a dict for the evidence; undefined behaviour reported by miri is a VIOLATION."""
    import shutil
    import subprocess
    d = os.path.join(common.WORK, "delta-miri")
    os.makedirs(os.path.join(d, "src"), exist_ok=True)
    open(os.path.join(d, "Cargo.toml"), "w").write(MIRI_CARGO % os.path.realpath(common.REPO))
    open(os.path.join(d, "src", "main.rs"), "w").write(MIRI_MAIN)
    shutil.copy(os.path.join(common.REPO, "Cargo.lock"), os.path.join(d, "Cargo.lock"))
    env = common.env_with_tools({"MIRIFLAGS": "-Zmiri-disable-isolation"})
    probe = subprocess.run(["cargo", "+nightly", "miri", "--version"], cwd=d, env=env, stdout=subprocess.PIPE, stderr=subprocess.STDOUT, text=True)
    if probe.returncode != 0:
        log("[miri] not available (%s): skipped" % probe.stdout.strip()[:120])
        return {"available": False}
    srcs = [toks_source(x).replace("\n", "\\n") for x in descs]
    parts = [srcs[k::parallel] for k in range(parallel)]
    files = []
    for k, part in enumerate(parts):
        f = os.path.join(d, "inputs.%d.txt" % k)
        open(f, "w").write("\n".join(part) + "\n")
        files.append(f)
    t0 = time.time()
    # build once (the first run compiles the sysroot and the crate), then run the parts in parallel
    first = subprocess.run(["cargo", "+nightly", "miri", "run", "--offline", "--quiet", "--", files[0]], cwd=d, env=env,
                           stdout=subprocess.PIPE, stderr=subprocess.PIPE, text=True, timeout=3000)
    procs = [subprocess.Popen(["cargo", "+nightly", "miri", "run", "--offline", "--quiet", "--", f], cwd=d, env=env,
                              stdout=subprocess.PIPE, stderr=subprocess.PIPE, text=True) for f in files[1:]]
    outs = [(first.returncode, first.stdout, first.stderr)]
    for p in procs:
        o, e = p.communicate(timeout=3000)
        outs.append((p.returncode, o, e))
    inputs = panics = 0
    ub = []
    for k, (rc, o, e) in enumerate(outs):
        m = __import__("re").search(r"MIRI-DONE inputs=(\d+) panics=(\d+)", o)
        if m:
            inputs += int(m.group(1))
            panics += int(m.group(2))
        if "Undefined Behavior" in e or (rc != 0 and not m):
            last = [ln for ln in e.splitlines() if ln.startswith("MIRI-INPUT")]
            idx = int(last[-1].split()[1]) if last else 0
            what = next((ln for ln in e.splitlines() if "Undefined Behavior" in ln or ln.startswith("error")), "miri failed")
            ub.append((parts[k][idx] if idx < len(parts[k]) else "?", what.strip()))
    for src, what in ub:
        rep.violation("delta-miri", what[:160], {"case": {"g": "src", "src": src}, "message": "miri reports: %s" % what,
                                                 "how": "bin/check C15 --replay <this file>"})
    log("[miri] %d inputs run under miri in %.0fs: %d caught panics, %d reports of undefined behaviour" %
        (inputs, time.time() - t0, panics, len(ub)))
    return {"available": True, "inputs": inputs, "caught_panics": panics, "undefined_behaviour_reports": len(ub)}


def cell_key(cell):
    return " ".join("%s=%s" % (k, cell[k]) for k in ("fam", "what", "site", "pos", "unit", "n", "len", "bad", "badat", "raw", "lenk", "lenr")
                    if cell.get(k) not in (None, "", 0))


def case_key(desc):
    if desc.get("name"):
        return desc["name"]
    if desc.get("g") == "cell":
        return "cell: " + cell_key(desc["cell"])
    if desc.get("g") == "toks":
        return "%s: %s" % (desc.get("ctx", "top"), " ".join(desc["toks"]))
    return "%s/%s/%s" % (desc.get("g"), desc.get("seed"), desc.get("i"))


def signature(obs):
    """Failure signature of a run that violates totality, or None."""
    o = obs.get("o")
    if o == "panic":
        key = obs.get("panic") or "?"
        if "Number of parse nodes" in key:
            # which capacity was exceeded?  The known defect is "5 + 2 * tokens is too small"; a node buffer that
            # overflows with any other capacity is a different failure and must not hide behind it.
            nc = [e for e in obs.get("ev") or [] if e.get("ev") == "nodecap"]
            if nc and nc[0]["toks"] > 0 and (nc[0]["cap"] - 5) % nc[0]["toks"] == 0 and nc[0]["cap"] >= 5:
                key += " (capacity 5 + %d*tokens)" % ((nc[0]["cap"] - 5) // nc[0]["toks"])
            elif nc:
                key += " (capacity %d for %d tokens)" % (nc[0]["cap"], nc[0]["toks"])
        return "delta-panic", key
    if o in ("crash", "timeout"):
        # the known stack overflows need tens of kilobytes of nesting / list length; a crash on a small input
        # is a different failure and must not hide behind them
        n = obs.get("len", -1)
        size = "input >= 16 KiB" if n >= 16384 else "input < 16 KiB"
        return "delta-crash", "%s (%s)" % (obs.get("how") or o, size)
    return None


def verdict_problems(desc, obs):
    """Property-level discrepancies other than crashes, for inputs whose verdict the rule fixes."""
    out = []
    o = obs.get("o")
    if o not in ("accepted", "rejected"):
        return out
    codes = obs.get("codes") or []
    if (o == "accepted") != (not codes):
        out.append(("delta-outcome", "outcome %s with codes %s" % (o, codes)))
    if desc.get("wf") and o != "accepted" and codes != [103]:
        out.append(("delta-rejected-wellformed", "a well-formed module is rejected with %s" % codes))
    if desc.get("wf") and codes == [103] and (obs.get("len", 0) < 65536):
        out.append(("delta-e103-small", "E103 on an input of %s bytes" % obs.get("len")))
    if desc.get("badlex") and o == "accepted":
        out.append(("delta-accepted-invalid-lexeme", "an input containing an invalid lexeme is accepted"))
    if obs.get("malformed"):
        out.append(("delta-malformed-dump", "%d MALFORMED nodes in the XML dumps of an accepted module" % obs["malformed"]))
    return out


def cell_problems(c, obs):
    """Compare the observation of a boundary cell with the expectation TLC computed for it (R on the cell)."""
    o = obs.get("o")
    if o not in ("accepted", "rejected"):
        return []         # panics / crashes / timeouts are reported by their failure signature
    codes = obs.get("codes") or []
    exp = c["expect"]
    if exp == "accepted" and o != "accepted":
        return [("delta-rejected-wellformed", "a well-formed module is rejected with %s" % codes[:5])]
    if exp == "accepted-or-E103" and not (o == "accepted" or codes == [103]):
        return [("delta-rejected-wellformed", "a well-formed module is rejected with %s" % codes[:5])]
    if exp == "rejected" and o != "rejected":
        return [("delta-accepted-invalid-lexeme", "an input containing an invalid lexeme is accepted")]
    if exp == "E102" and codes != [102]:
        return [("delta-limit-not-reported", "a source of more than 2^31 bytes ends %s with %s instead of E102" % (o, codes[:5]))]
    return []


INT_MAX = 2 ** 31 - 1


def digest(obs):
    """What a run of an input must reproduce whatever ran before it in the same process."""
    return [obs.get(x) for x in ("o", "codes", "ntok", "nnode", "ndecl", "hnode", "hdecl", "xml", "panic", "how")]


def trace_of(desc, obs):
    """input / hook events / outcome of one run; a crash or panic leaves no outcome line."""
    n = obs.get("len", -1)
    # TLC integers are 32-bit: lengths travel clipped, with their KiB quotient and remainder
    run = [{"ev": "input", "len": min(n, INT_MAX), "lenk": max(n, 0) // 1024, "lenr": max(n, 0) % 1024,
            "wf": bool(obs.get("wf", desc.get("wf", False))),
            "badlex": bool(obs.get("badlex", desc.get("badlex", False))), "light": "evlight" in obs, "case": case_key(desc)}]
    for e in obs.get("ev") or []:
        if e.get("ev") == "tokcap" and e.get("len", 0) > INT_MAX:
            e = dict(e, len=INT_MAX)
        run.append(e)
    if obs.get("o") in ("accepted", "rejected"):
        run.append({"ev": "outcome", "ok": obs["o"] == "accepted", "codes": obs.get("codes") or []})
    return run


def run(rep, tier, seed, selftest):
    selftest = selftest or tier == "thorough"
    common.build_harness()
    rnd = random.Random(seed)
    tlc_states = 0
    model = {}
    # ---- 1. the model itself --------------------------------------------------------------------
    for cfg, workers in HOLDS[tier]:
        r = common.tlc("MC_DeltaBuffers", cfg, workers=workers, timeout=3000, heap="8g", tag="C15-mc-" + cfg.replace(".cfg", ""))
        log("[tlc] MC_DeltaBuffers/%s: %d states generated, %d distinct, %.1fs, %s" %
            (cfg, r.generated, r.distinct, r.wall, "R holds (capacity 5 + 4*tokens, complete expectation texts)" if r.ok
             else "INVARIANT %s VIOLATED" % r.violated))
        tlc_states += r.distinct
        model[cfg] = "holds" if r.ok else "violated:%s" % r.violated
        if not r.ok:
            rep.note_drift("the repaired model violates %s (%s)" % (r.violated, cfg))
    for cfg, what in DEFECTS:
        r = common.tlc("MC_DeltaBuffers", cfg, workers=4, timeout=900, heap="4g", tag="C15-defect-" + cfg.replace(".cfg", ""))
        log("[tlc] MC_DeltaBuffers/%s (%s): %s after %d states" %
            (cfg, what, "NoCrash VIOLATED -- the defect is exhibited by the model" if r.violated else "no violation", r.distinct))
        model[cfg] = "violated:%s" % r.violated if r.violated else "holds"
    # ---- 2. spec -> impl: everything TLC emits -----------------------------------------------------
    probe = delta_util.run_cases("C15", "probe", [{"g": "src", "src": "fn f();"}], events=True, evfilter=["nodecap"])
    nc = [e for e in probe[0].get("ev", []) if e["ev"] == "nodecap"]
    pinned = bool(nc) and nc[0]["cap"] == 5 + 2 * nc[0]["toks"]
    emit_cfg = (EMIT_PINNED if pinned else EMIT)[tier]
    strict_cfg = "Trace_DeltaBuffers_strict_pinned.cfg" if pinned else "Trace_DeltaBuffers_strict.cfg"
    log("[probe] node capacity of the code under test: %s -> algorithm model constants of the %s tree" %
        ("%d for %d tokens" % (nc[0]["cap"], nc[0]["toks"]) if nc else "?", "pinned" if pinned else "fixed"))
    r = common.tlc("MC_DeltaBuffers", emit_cfg, workers=8, timeout=3000, heap="12g", tag="C15-emit", keep_output=False)
    log("[tlc] MC_DeltaBuffers/%s: %d states, %d derivations emitted, %.1fs, %s" %
        (emit_cfg, r.distinct, len(r.cases), r.wall, "protocol invariants hold" if r.ok else "INVARIANT %s VIOLATED" % r.violated))
    if not r.ok:
        rep.note_drift("emission model violates %s" % r.violated)
    tlc_states += r.distinct
    derivs = r.cases
    if not pinned:
        r2 = common.tlc("MC_DeltaBuffers", EMIT2[tier], workers=4, timeout=3000, heap="8g", tag="C15-emit2", keep_output=False)
        two = [c for c in r2.cases if c["errs"] >= 2 or c["bad"] >= 2]
        log("[tlc] MC_DeltaBuffers/%s: %d states, %d derivations with two faults emitted, %.1fs, %s" %
            (EMIT2[tier], r2.distinct, len(two), r2.wall, "protocol invariants hold" if r2.ok else "INVARIANT %s VIOLATED" % r2.violated))
        if not r2.ok:
            rep.note_drift("emission model (two faults) violates %s" % r2.violated)
        tlc_states += r2.distinct
        derivs = derivs + two
    rs = common.tlc("DeltaSeq", SEQ[tier], workers=4, timeout=3000, heap="8g", tag="C15-seq", keep_output=False)
    ctxs = next((p for t, p in rs.notes if t == "CTX"), None)
    if not ctxs or not rs.cases:
        raise common.ToolError("DeltaSeq emitted no sequences / contexts")
    log("[tlc] DeltaSeq/%s: %d token sequences x %d contexts, %.1fs" % (SEQ[tier], len(rs.cases), len(ctxs), rs.wall))
    tlc_states += rs.distinct
    log("[time] %.0fs" % (time.time() - rep.t0))
    def d_desc_of(c):
        return {"g": "toks", "toks": c["toks"], "ctx": "top", "wf": c["wf"], "badlex": c["bad"] > 0}

    n_seq = len(rs.cases) * len(ctxs)
    n_emitted = len(derivs) + n_seq

    def emitted_at(k):
        if k < len(derivs):
            return d_desc_of(derivs[k])
        q = k - len(derivs)
        c = rs.cases[q // len(ctxs)]
        return {"g": "toks", "toks": c["toks"], "ctx": ctxs[q % len(ctxs)], "badlex": c["badlex"]}

    # a sample of the emitted cases is recorded with all hook events and trace-validated as well
    sample = set(rnd.sample(range(n_emitted), min(TRACE_SAMPLE[tier], n_emitted)))
    failures = {}     # (kind, signature) -> list of (size, desc, obs)
    problems = []
    nontrivial = set()
    agree = 0
    skipped = 0
    emitted_samples = []
    selftest_cases = {}

    def classify(desc, obs):
        nonlocal skipped
        if obs.get("o") == "skipped":
            skipped += 1
            return
        sig = signature(obs)
        if sig:
            lst = failures.setdefault(sig, [])
            lst.append((obs.get("len") or len(json.dumps(desc)), desc, {k: v for k, v in obs.items() if k != "ev"}))
            if len(lst) > 2000:       # keep the smallest witnesses only
                lst.sort(key=lambda x: x[0])
                del lst[200:]
        for kind, msg in verdict_problems(desc, obs):
            problems.append((kind, desc, obs, msg))
        if obs.get("ntok", 0) > 1 and (obs.get("stage") not in ("lex",) or obs.get("badlex") or desc.get("badlex")):
            nontrivial.add(case_key(desc))

    failure_counts = {}
    first_digest = {}
    CHUNK = 150000
    for base in range(0, n_emitted, CHUNK):
        part = [emitted_at(k) for k in range(base, min(base + CHUNK, n_emitted))]
        obs_part = delta_util.run_cases("C15", "emitted", part, events=True, evfilter=["toklen", "nodecap", "nodelen", "nodefull"])
        for j, (desc, o) in enumerate(zip(part, obs_part)):
            k = base + j
            if k in sample:
                first_digest[k] = digest(o)[:3]
            classify(desc, o)
            sig = signature(o)
            if sig:
                failure_counts[sig] = failure_counts.get(sig, 0) + 1
            if len(emitted_samples) < 3 and k % 997 == 3:
                emitted_samples.append({"input": case_key(desc), "wf": desc.get("wf"), "badlex": desc.get("badlex"),
                                        "observed": {x: o.get(x) for x in ("o", "codes", "ntok", "nnode", "panic")}})
            if "ok" not in selftest_cases and desc.get("wf") and o.get("o") == "accepted":
                selftest_cases["ok"] = (desc, o)
            if "bad" not in selftest_cases and desc.get("badlex") and o.get("o") == "rejected":
                selftest_cases["bad"] = (desc, o)
            if k < len(derivs):
                c = derivs[k]
                # A-level: the model's prediction of the run (MODEL-DRIFT only)
                nl = [e for e in o.get("ev", []) if e["ev"] == "nodelen"]
                d = []
                predicted_crash = c["crash"]
                if predicted_crash != (o.get("o") == "panic"):
                    d.append("model predicts %s, observed %s" % ("a panic (%s)" % c["how"] if predicted_crash else c["outcome"], o.get("o")))
                elif not predicted_crash and c["bad"] == 0:
                    if not nl or nl[0]["pushes"] != c["nodes"]:
                        d.append("model predicts %d nodes, the parser pushed %s" % (c["nodes"], nl[0]["pushes"] if nl else None))
                    if c["outcome"] != o.get("o"):
                        d.append("model predicts %s, observed %s" % (c["outcome"], o.get("o")))
                if d:
                    rep.note_drift("%s: %s" % (" ".join(c["toks"]), "; ".join(d)))
                else:
                    agree += 1
        del obs_part
    log("[replay] %d emitted inputs (%d derivations, %d sequences x contexts) run on the real front end; "
        "model agreement on derivations %d/%d" % (n_emitted, len(derivs), n_seq, agree, len(derivs)))
    # ---- 3. random families ----------------------------------------------------------------------
    corpus = common.pvh(["corpus"], exe_name="pvh_delta", env={"PENNE_REPO": common.REPO}).stdout.split()
    counts = dict(RANDOM[tier])
    counts["corpus"] = len(corpus)
    groups = [[{"g": fam, "seed": seed, "i": i} for i in range(n)] for fam, n in counts.items()]
    rdesc = delta_util.interleave(groups)
    os.environ["PVH_EVMAX"] = str(EVMAX)
    obs_r = delta_util.run_cases("C15", "random", rdesc, events=True)
    for desc, o in zip(rdesc, obs_r):
        desc2 = dict(desc, wf=o.get("wf"), badlex=o.get("badlex"))
        classify(desc2, o)
        sig = signature(o)
        if sig:
            failure_counts[sig] = failure_counts.get(sig, 0) + 1
    by_family = {}
    for desc, o in zip(rdesc, obs_r):
        fam = by_family.setdefault(desc["g"], {})
        fam[o.get("o")] = fam.get(o.get("o"), 0) + 1
    log("[random] %d inputs: %s" % (len(rdesc), json.dumps(by_family)))
    log("[time] %.0fs" % (time.time() - rep.t0))
    # ---- 3b. boundary cells: Gen + R in MC_DeltaBuffersEdge.tla, rendered by harness/src/delta/edge.rs ----------
    rc = common.tlc("MC_DeltaBuffersEdge", EDGE_CFG[tier], workers=2, timeout=900, heap="2g", tag="C15-edge")
    if not rc.ok or not rc.cases:
        raise common.ToolError("MC_DeltaBuffersEdge: %s" % (rc.violated or "no cells emitted"))
    tlc_states += rc.distinct
    cells = rc.cases
    cdesc = [{"g": "cell", "cell": c["cell"], "wf": c["wf"], "badlex": c["bad"]} for c in cells]
    # (the inputs of tens of megabytes of the thorough tier run two at a time: each needs up to 1 GiB)
    heavy = [k for k, c in enumerate(cells) if c["cell"]["len"] > (1 << 22) or c["cell"]["what"] == "nodes24"]
    light = [k for k in range(len(cells)) if k not in set(heavy)]
    cobs = [None] * len(cells)
    for k, o in zip(light, delta_util.run_cases("C15", "cells", [cdesc[k] for k in light], events=True, timeout_s=60)):
        cobs[k] = o
    if heavy:
        old_threads = os.environ.get("PVH_THREADS")
        os.environ["PVH_THREADS"] = "2"
        try:
            for k, o in zip(heavy, delta_util.run_cases("C15", "heavycells", [cdesc[k] for k in heavy], events=True, timeout_s=300)):
                cobs[k] = o
        finally:
            if old_threads is None:
                del os.environ["PVH_THREADS"]
            else:
                os.environ["PVH_THREADS"] = old_threads
    cell_stats = {}
    cell_agree = 0
    for c, desc, o in zip(cells, cdesc, cobs):
        classify(desc, o)
        sig = signature(o)
        if sig:
            failure_counts[sig] = failure_counts.get(sig, 0) + 1
        for kind, msg in cell_problems(c, o):
            problems.append((kind, desc, o, "%s (the rule expects: %s)" % (msg, c["expect"])))
        st = cell_stats.setdefault(c["cell"]["fam"], {})
        k = "%s->%s" % (c["expect"], o.get("o") if (o.get("codes") or []) != [103] else "E103")
        st[k] = st.get(k, 0) + 1
        if c["cell"]["fam"] == "tok" and o.get("o") in ("accepted", "rejected"):
            full = any(e.get("ev") == "tokfull" for e in o.get("ev") or [])
            if full != c["afull"]:
                rep.note_drift("%s: the model predicts that the token buffer %s, observed %s" %
                               (case_key(desc), "overflows" if c["afull"] else "suffices", "tokfull" if full else "no tokfull"))
            else:
                cell_agree += 1
        if "cell" not in selftest_cases and c["expect"] == "accepted" and o.get("o") == "accepted":
            selftest_cases["cell"] = (c, o)
    log("[cells] %d boundary cells emitted by TLC (%.1fs) and run on the real front end: %s; token-buffer model agreement %d" %
        (len(cells), rc.wall, json.dumps(cell_stats), cell_agree))
    # ---- 3b'. integer literals at the 128-bit boundary in every spelling (MC_LexNumbers.tla; the reference automaton of
    # PenneLex.tla decides which are valid lexemes), each inside a well-formed module `const X: u128 = <literal>;`
    rn = common.tlc("MC_LexNumbers", "MC_LexNumbers.cfg", workers=4, timeout=900, heap="4g", tag="C15-numbers", keep_output=False)
    if not rn.ok or len(rn.cases) < 300:
        raise common.ToolError("MC_LexNumbers: %s" % (rn.violated or "%d literals emitted (vacuous)" % len(rn.cases)))
    tlc_states += rn.distinct
    ndesc = []
    for c in rn.cases:
        kinds = [it[0] for it in c["d"] if it[0] != "EndOfSource"]
        bad = "Error" in kinds
        lit = bytes(c["s"]).decode("ascii")
        ndesc.append({"g": "src", "name": "numlit: %s" % lit, "src": "const X: u128 = %s;\n" % lit,
                      "wf": (not bad) and len(kinds) == 1, "badlex": bad})
    nobs = delta_util.run_cases("C15", "numbers", ndesc, events=True, timeout_s=60)
    num_stats = {}
    for desc, o in zip(ndesc, nobs):
        classify(desc, o)
        sig = signature(o)
        if sig:
            failure_counts[sig] = failure_counts.get(sig, 0) + 1
        k = "%s->%s" % ("valid" if desc["wf"] else "invalid" if desc["badlex"] else "open", o.get("o"))
        num_stats[k] = num_stats.get(k, 0) + 1
    if not any(d["wf"] for d in ndesc) or not any(d["badlex"] for d in ndesc):
        raise common.ToolError("MC_LexNumbers: the family has no valid or no invalid literal (vacuous)")
    log("[numbers] %d boundary literals emitted by TLC (%.1fs) inside a constant declaration: %s" % (len(ndesc), rn.wall, json.dumps(num_stats)))
    # ---- 3c. the same inputs once more, in another order, in the same worker processes -----------------------
    pool = [(d, o) for d, o in zip(rdesc, obs_r) if 0 <= (o.get("len") or 0) < 20000 and o.get("o") in ("accepted", "rejected")]
    pool += [(d, o) for d, o in zip(cdesc, cobs) if 0 <= (o.get("len") or 0) < 300000 and o.get("o") in ("accepted", "rejected")]
    rnd.shuffle(pool)
    pool = pool[:AGAIN[tier]]
    adesc = [d for d, _ in pool]
    aobs = delta_util.run_cases("C15", "again", adesc, events=True, timeout_s=60) if adesc else []
    history_dependent = 0
    for (d, o1), o2 in zip(pool, aobs):
        classify(dict(d, wf=o2.get("wf", d.get("wf")), badlex=o2.get("badlex", d.get("badlex"))), o2)
        sig = signature(o2)
        if sig:
            failure_counts[sig] = failure_counts.get(sig, 0) + 1
        if digest(o1) != digest(o2):
            history_dependent += 1
            rep.note_drift("%s: the observation depends on what ran before in the same process: %s / %s" %
                           (case_key(d), json.dumps(digest(o1))[:200], json.dumps(digest(o2))[:200]))
    log("[again] %d inputs run a second time in another order: %d observations differ" % (len(adesc), history_dependent))
    log("[time] %.0fs" % (time.time() - rep.t0))
    # ---- 4. report failures, one witness (the smallest input) per failure signature ------------------
    for (kind, sig), items in sorted(failures.items()):
        items.sort(key=lambda x: x[0])
        size, desc, o = items[0]
        rep.violation(kind, sig, {"case": desc, "observed": {k: v for k, v in o.items() if k != "ev"},
                                  "inputs_with_this_signature": failure_counts.get((kind, sig), len(items)),
                                  "other_witnesses": [case_key(d) for _, d, _ in items[1:6]],
                                  "message": "the front end %s (%s) on %d inputs; smallest witness: %s" %
                                             ("panicked" if kind == "delta-panic" else "died or hung", sig,
                                              failure_counts.get((kind, sig), len(items)), case_key(desc)),
                                  "how": "bin/check C15 --replay <this file>"})
    for kind, desc, o, msg in problems:
        rep.violation(kind, case_key(desc), {"case": desc, "observed": {k: v for k, v in o.items() if k != "ev"}, "message": msg,
                                             "how": "bin/check C15 --replay <this file>"})
    if skipped:
        log("[run] %d cases were skipped because workers kept hanging or dying" % skipped)
        if not rep.violations:
            raise common.ToolError("%d cases were skipped because workers kept hanging or dying" % skipped)
    # ---- 5. impl -> spec: the buffer protocol of every recorded run, validated by TLC ------------------
    sample_idx = sorted(sample)
    if sample_idx:
        rnd.shuffle(sample_idx)       # another order than in the first run (the recordings do not depend on it)
        sdesc = [emitted_at(k) for k in sample_idx]
        sobs = delta_util.run_cases("C15", "sample", sdesc, events=True)
        for k, d, o in zip(sample_idx, sdesc, sobs):
            if k in first_digest and first_digest[k] != digest(o)[:3]:
                rep.note_drift("%s: the observation depends on what ran before in the same process: %s / %s" %
                               (case_key(d), first_digest[k], digest(o)[:3]))
    else:
        sdesc, sobs = [], []
    runs = ([trace_of(d, o) for d, o in zip(sdesc, sobs)] + [trace_of(d, o) for d, o in zip(rdesc, obs_r)]
            + [trace_of(d, o) for d, o in zip(cdesc, cobs)] + [trace_of(d, o) for d, o in zip(adesc, aobs)])
    # A run that panicked or died has no outcome line: its recording is truncated, which is a rejection by
    # definition (and it has been reported above by its failure signature).  TLC is asked to confirm that on a
    # few of them; all complete recordings are validated.
    good_runs = [r_ for r_ in runs if r_[-1].get("ev") == "outcome"]
    cut_runs = [r_ for r_ in runs if r_[-1].get("ev") != "outcome"]
    crashed_runs = [len(cut_runs)]
    prefix = os.path.join(common.WORK, "C15-trace")
    files = delta_util.write_traces(prefix, good_runs, 12)

    def rejected(bad, res):
        inp = bad["input"] or {}
        rep.violation("delta-protocol", inp.get("case", "?"),
                      {"trace_file": res["file"], "first_unmatched_line": res["matched"] + 1, "unmatched_event": bad["event"],
                       "input": inp, "message": "the recorded run is not a behaviour the buffer protocol / verdict rule allows"})

    traces_ok, trace_events = delta_util.validate_traces("Trace_DeltaBuffers", "Trace_DeltaBuffers_rule.cfg", files, rejected,
                                                          max_rounds=20)
    truncated_rejected = None
    if cut_runs:
        cut_files = delta_util.write_traces(os.path.join(common.WORK, "C15-truncated"), cut_runs[:6], 6)
        res = common.tlc_traces("Trace_DeltaBuffers", "Trace_DeltaBuffers_rule.cfg", cut_files)
        truncated_rejected = all(not x["accepted"] for x in res)
        if not truncated_rejected:
            raise common.ToolError("a recording without outcome was accepted by Trace_DeltaBuffers")
    log("[trace] %d complete recorded runs (%d events) validated by TLC against the buffer protocol and the verdict rule: "
        "%d accepted; %d recordings truncated by a panic/crash (reported above by signature; TLC rejects them: %s)" %
        (len(good_runs), trace_events, traces_ok, crashed_runs[0], truncated_rejected))
    strict_files = delta_util.write_traces(os.path.join(common.WORK, "C15-strict"), good_runs, 12)
    strict = common.tlc_traces("Trace_DeltaBuffers", strict_cfg, strict_files)
    strict_ok = sum(1 for s in strict if s["accepted"])
    for s in strict:
        if not s["accepted"]:
            rep.note_drift("strict (capacity formulas) trace validation stops at line %d of %s" % (s["matched"] + 1, s["file"]))
    log("[time] %.0fs" % (time.time() - rep.t0))
    log("[trace] strict mode (capacity formulas, %s): %d/%d files accepted" % (strict_cfg, strict_ok, len(strict_files)))
    # ---- 5b. optional stricter observer -----------------------------------------------------------
    miri = None
    if tier == "thorough" or os.environ.get("VERIF_MIRI") == "1":
        one = [emitted_at(k) for k in range(len(derivs), n_emitted) if len(emitted_at(k)["toks"]) <= 1]
        some = [d_desc_of(derivs[k]) for k in sorted(rnd.sample(range(len(derivs)), min(2400 if tier == "thorough" else 400, len(derivs))))]
        miri = miri_observer(rep, one + some)
    # ---- 6. self-tests ---------------------------------------------------------------------------
    selftests = {}
    if selftest:
        ok_case = selftest_cases["ok"]
        flipped = dict(ok_case[1], o="rejected", codes=[300])
        selftests["rejected_wellformed_detected"] = bool(verdict_problems(ok_case[0], flipped))
        bad_case = selftest_cases["bad"]
        flipped = dict(bad_case[1], o="accepted", codes=[])
        selftests["accepted_invalid_lexeme_detected"] = bool(verdict_problems(bad_case[0], flipped))
        selftests["panic_is_a_failure"] = signature({"o": "panic", "panic": "x"}) is not None
        cc, co = selftest_cases["cell"]
        selftests["cell_rejected_wellformed_detected"] = bool(cell_problems(cc, dict(co, o="rejected", codes=[300])))
        selftests["cell_accepted_invalid_lexeme_detected"] = bool(cell_problems(dict(cc, expect="rejected"), co))
        selftests["cell_missing_E102_detected"] = bool(cell_problems(dict(cc, expect="E102"), dict(co, o="rejected", codes=[110])))
        for cfg, _ in DEFECTS:
            selftests["defect_exhibited_" + cfg.replace("MC_DeltaBuffers_", "").replace(".cfg", "")] = model[cfg].startswith("violated")
        src = strict_files[0] if strict_files else None
        if src:
            def edit(ev, fn):
                def m(lines):
                    for k, ln in enumerate(lines):
                        if '"ev":"%s"' % ev in ln:
                            o = json.loads(ln)
                            if fn(o):
                                lines[k] = json.dumps(o, separators=(",", ":"))
                                return lines
                    return None
                return m

            def drop(ev):
                def m(lines):
                    for k, ln in enumerate(lines):
                        if '"ev":"%s"' % ev in ln:
                            return lines[:k] + lines[k + 1:]
                    return None
                return m

            def setlen_too_long(o):
                o["n"] = o["n"] + 1
                return True

            def cursor_past_end(o):
                o["from"] = o["len"] + 1
                return True

            def flip_ok(o):
                o["ok"] = not o["ok"]
                return True

            def over_capacity(o):
                o["n"] = o["cap"] + 1
                o["pushes"] = o["n"]
                return True

            def long_source_accepted(o):
                o["lenk"] = 2097152
                o["lenr"] = 1
                return True

            def drop_outcome(lines):
                for k, ln in enumerate(lines):
                    if '"ev":"outcome"' in ln:
                        return lines[:k] + lines[k + 1:]
                return None

            muts = delta_util.corrupted_copies(src, "C15", [
                ("setlen_argument_not_pushes_rejected", edit("toklen", setlen_too_long)),
                ("node_setlen_over_capacity_rejected", edit("nodelen", over_capacity)),
                ("cursor_past_tokens_rejected", edit("tfrom", cursor_past_end)),
                ("flipped_outcome_rejected", edit("outcome", flip_ok)),
                ("missing_outcome_rejected", drop_outcome),
                ("dropped_toklen_rejected", drop("toklen")),
                ("source_over_2GiB_without_E102_rejected", edit("input", long_source_accepted)),
            ])
            res = common.tlc_traces("Trace_DeltaBuffers", "Trace_DeltaBuffers_rule.cfg", [p for _, p in muts])
            by = {x["file"]: x for x in res}
            for name, p in muts:
                selftests[name] = not by[p]["accepted"]
        log("[selftest] %s" % json.dumps(selftests))
        for name, ok in selftests.items():
            if not ok:
                raise common.ToolError("self-test %s failed" % name)
    # ---- 7. evidence ------------------------------------------------------------------------------
    evaluations = n_emitted + len(rdesc) + len(cdesc) + len(adesc)
    samples = list(emitted_samples)
    for k in sorted(rnd.sample(range(len(rdesc)), 3)):
        samples.append({"input": case_key(rdesc[k]), "head": obs_r[k].get("head", "")[:80], "len": obs_r[k].get("len"),
                        "observed": {x: obs_r[k].get(x) for x in ("o", "codes", "ntok", "nnode", "panic", "how")}})
    samples.append({"trace_head": runs[0][:8] if runs else []})
    coverage = {
        "evaluations": evaluations,
        "distinct_nontrivial": len(nontrivial),
        "rule": RULE,
        "samples": samples,
        "states": tlc_states,
        "traces_validated_against_impl": traces_ok,
        "trace_events_matched": trace_events,
        "recorded_runs": len(runs),
        "runs_truncated_by_reported_crash": crashed_runs[0],
        "strict_trace_files_accepted": "%d/%d" % (strict_ok, len(strict_files)),
        "emitted_derivations": len(derivs),
        "emitted_sequences_x_contexts": n_seq,
        "model_agreement_on_derivations": "%d/%d" % (agree, len(derivs)),
        "random_inputs": counts,
        "boundary_literals": {"emitted": len(ndesc), "by_rule_verdict_and_outcome": num_stats},
        "boundary_cells": {"emitted": len(cells), "by_family_expectation_outcome": cell_stats,
                           "token_buffer_model_agreement": cell_agree},
        "second_pass_in_another_order": {"inputs": len(adesc) + len(first_digest), "observations_that_differ": history_dependent},
        "outcomes_by_family": by_family,
        "failure_signatures": {"%s: %s" % k: v for k, v in failure_counts.items()},
        "model_checking": model,
        "selftests": selftests,
        "miri_observer": miri,
        "exhaustive": False,
    }
    # the recogniser of the documented grammar (spec/SyntaxRules.tla, docs/notes-syntax.md): this check receives the kinds of
    # discrepancy that belong to its property (syntax_part.PROPERTY_KINDS); one computation is shared by C02, C13, C15, C16
    from . import syntax_part
    syn = syntax_part.run_part(rep, tier, seed, selftest)
    coverage["syntax_part"] = syn
    coverage["states"] = coverage.get("states", 0) + syn["states"]
    coverage["transitions"] = coverage.get("transitions", 0) + syn["transitions"]
    coverage["traces_validated_against_impl"] = coverage.get("traces_validated_against_impl", 0) + syn["cases_replayed"] + syn["traces_accepted"]
    coverage["evaluations"] = coverage.get("evaluations", 0) + syn["evaluations"]
    return rep.finish("exploration", coverage, ASSUMPTIONS)


def replay(path):
    if json.load(open(path)).get("detail", {}).get("part") == "syntax":
        from . import syntax_part
        return syntax_part.replay(path)
    d = json.load(open(path))
    print("kind:", d["kind"])
    print("key: ", d["key"])
    print("message:", d["detail"].get("message"))
    case = d["detail"].get("case")
    if case is None:
        print(json.dumps(d, indent=1)[:4000])
        return 0
    common.build_harness()
    case = {k: v for k, v in case.items() if k in ("g", "seed", "i", "toks", "ctx", "src", "hex", "cell", "wf", "badlex")}
    dump = os.path.join(common.WORK, "C15-replay-input.pn")
    if (case.get("cell") or {}).get("fam") != "huge":      # (2 GiB of zeros are not written to disk)
        case["dump"] = dump
    p = common.pvh(["show", json.dumps(case)], exe_name="pvh_delta", check=False, env={"PENNE_REPO": common.REPO})
    print(p.stdout[-6000:])
    if p.returncode != 0:
        print("(the process ended with status %s)\n%s" % (p.returncode, p.stderr[-800:]))
    return 0

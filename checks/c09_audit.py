"""C09, dimension audit (docs/notes-lex.md "Dimension audit"): replay of the further case families that
spec/Literals.tla emits (posv, idx, alen, strp, long) and of the families that arrange already judged literals
(many literals in one module, the same literals in two modules).  The verdicts (value bits, decoded bytes,
in-range flag) are TLC's; this module renders programs, runs them and compares.

A batch of cases is rendered into ONE program; the batch passes iff the program is accepted without L1142 and
prints exactly the expected lines.  Otherwise every case of the batch is run in a program of its own and judged
there, so that a deviation is attributed to one literal (and a crash of the compiler is an observation of that
literal, not a tool error).
"""
import os

from . import common, lexlib
from .common import log

BATCH = 60

DUMPL_FN = """pub fn dumpl(s: []char8)
{
	print!(|s|, ":");
	var i: usize = 0;
	{
		if i == |s|
			goto end;
		print!(" ", s[i] as u8);
		i = i + 1;
		loop;
	}
	end:
	print!("\\n");
}

"""


def _base():
    from . import c09
    return c09


def lit(case):
    return ("-" if case.get("neg") else "") + bytes(case["lit"]).decode("utf-8")


def first_code(obs):
    return obs["diags"][0][0] if obs.get("diags") else None


def has_l1142(obs):
    return any(x[0] == 1142 for x in obs.get("lints", []))


def stdout_bytes(obs):
    if "stdout_hex" in obs:
        return bytes.fromhex(obs["stdout_hex"])
    if "stdout" in obs:
        return obs["stdout"].encode("utf-8", "replace")
    return None


# ---- rendering: (declarations, statements) per case ---------------------------------------------------
def posv_parts(c, i):
    t, L, pos = c["t"], lit(c), c["pos"]
    P = 'print!(%s, "\\n");'
    if pos == "const":
        return ["const K%d: %s = %s;" % (i, t, L)], [P % ("K%d" % i)]
    if pos == "constelem":
        return ["const A%d: [2]%s = [%s, 0];" % (i, t, L)], [P % ("A%d[0]" % i)]
    if pos == "arg":
        return ["fn f%d(a: %s) -> %s\n{\n\treturn: a\n}" % (i, t, t)], ["var r%d: %s = f%d(%s);" % (i, t, i, L), P % ("r%d" % i)]
    if pos == "ret":
        return ["fn g%d() -> %s\n{\n\treturn: %s\n}" % (i, t, L)], ["var r%d: %s = g%d();" % (i, t, i), P % ("r%d" % i)]
    if pos == "elem":
        return [], ["var a%d: [2]%s = [0, %s];" % (i, t, L), P % ("a%d[1]" % i)]
    if pos == "member":
        return ["struct S%d\n{\n\tp: u8,\n\tm: %s,\n}" % (i, t)], ["var s%d = S%d { p: 1, m: %s };" % (i, i, L), P % ("s%d.m" % i)]
    if pos == "assign":
        return [], ["var x%d: %s = 0;" % (i, t), "x%d = %s;" % (i, L), P % ("x%d" % i)]
    if pos == "binop":
        return [], ["var z%d: %s = 0;" % (i, t), "var x%d: %s = %s + z%d;" % (i, t, L, i), P % ("x%d" % i)]
    if pos == "cmp":
        L2 = ("-" if c.get("neg") else "") + bytes(c["lit2"]).decode()
        return [], ["var x%d: %s = %s;" % (i, t, L), "if x%d == %s" % (i, L2), "{", '\tprint!("1\\n");', "}", "else", "{",
                    '\tprint!("0\\n");', "}"]
    if pos == "castop":
        return [], ["var y%d: %s = (%s%s) as %s;" % (i, c["wide"], L, t, c["wide"]), P % ("y%d" % i)]
    if pos == "printsfx":
        return [], [P % (L + t)]
    if pos == "nested":
        return [], ["var x%d: %s = 0;" % (i, t), "{", "\t{", "\t\tx%d = (%s);" % (i, L), "\t}", "}", P % ("x%d" % i)]
    raise common.ToolError("unknown position %s" % pos)


def posv_expected(c):
    return "1" if c["pos"] == "cmp" else _base().expected_decimal(c)


def idx_parts(c, i):
    return [], ["var b%d: [4]u8 = [10, 11, 12, 13];" % i, 'print!(b%d[%s], "\\n");' % (i, lit(c))]


def alen_parts(c, i):
    return [], ['print!(|:[%s]u8|, "\\n");' % lit(c)]


def strp_parts(c, i):
    at, L = c["at"], lit(c)
    if at == "var":
        return [], ["var s%d = %s;" % (i, L), "dump(s%d);" % i]
    if at == "const":
        return ["const S%d: [%d]char8 = %s;" % (i, c["nbytes"], L)], ["dump(S%d);" % i]
    if at == "print":
        return [], ["print!(%s);" % L, 'print!("\\n");']
    if at == "printmix":
        # a value next to the literal: print! then builds a format string (the literal must survive that: `%`)
        return [], ['print!(%s, 7u8, "\\n");' % L]
    if at == "chrarg":
        return [], ["show(%s);" % L]
    if at == "chrconst":
        return ["const C%d: char8 = %s;" % (i, L)], ['print!(C%d as u8, "\\n");' % i]
    if at == "chrelem":
        return [], ["var e%d: [2]char8 = ['a', %s];" % (i, L), 'print!(e%d[1] as u8, "\\n");' % i]
    if at == "chrcmp":
        # (not `u%d`: u8, u16, u32 ... are type keywords)
        return [], ["var ub%d: u8 = %d;" % (i, c["bytes"][0]), "var k%d: char8 = ub%d as char8;" % (i, i), "if k%d == %s" % (i, L), "{",
                    '\tprint!("1\\n");', "}", "else", "{", '\tprint!("0\\n");', "}"]
    raise common.ToolError("unknown position %s" % at)


SHOW_FN = "fn show(c: char8)\n{\n\tprint!(c as u8, \"\\n\");\n}\n\n"


def strp_expected(c):
    """expected standard output of the case's statements, as bytes"""
    at, bs = c["at"], c["bytes"]
    if at == "print":
        return bytes(bs) + b"\n"
    if at == "printmix":
        return bytes(bs) + b"7\n"
    if at in ("chrarg", "chrconst", "chrelem"):
        return b"%d\n" % bs[0]
    if at == "chrcmp":
        return b"1\n"
    return (("%d:" % len(bs)) + "".join(" %d" % b for b in bs) + "\n").encode()


def program(parts, prelude=""):
    decls, stmts = [], []
    for d, s in parts:
        decls += d
        stmts += s
    return (prelude + "".join(d + "\n\n" for d in decls) + "fn main() -> u8\n{\n" + "".join("\t" + s + "\n" for s in stmts)
            + "\treturn: 0\n}\n")


def run_raw(progs, tag, timeout=60):
    """progs: list of source texts (or lists of [name, source] modules) -> observations with stdout_hex"""
    inp = os.path.join(common.WORK, "C09-audit-%s-%d.in.ndjson" % (tag, os.getpid()))
    outp = os.path.join(common.WORK, "C09-audit-%s-%d.out.ndjson" % (tag, os.getpid()))
    rows = []
    for p in progs:
        if isinstance(p, str):
            rows.append({"src": p, "run": True, "raw": True, "timeout": timeout})
        else:
            rows.append({"mods": p, "run": True, "timeout": timeout})
    obs = run_rows(rows, inp, outp)
    if len(obs) != len(progs):
        raise common.ToolError("lit harness returned %d results for %d programs" % (len(obs), len(progs)))
    return obs


def run_rows(rows, inp, outp):
    """Run the literal harness on the rows.  The compiler runs inside the harness process and LLVM aborts the process
    on broken IR: if the process dies, every row is run in a process of its own and the death is the OBSERVATION of
    the row that causes it (a crash is data, not a tool error)."""
    common.write_ndjson(inp, rows)
    p = common.pvh(["lit", inp, outp], exe_name="pvh_lex", timeout=3000, check=False)
    if p.returncode == 0:
        obs = common.read_ndjson(outp)
    elif p.returncode in (125, 126, 127, 2):
        raise common.ToolError("pvh lit exited with %d: %s" % (p.returncode, p.stderr[-500:]))
    else:
        obs = []
        for row in rows:
            common.write_ndjson(inp, [row])
            q = common.pvh(["lit", inp, outp], exe_name="pvh_lex", timeout=3000, check=False)
            if q.returncode == 0:
                obs += common.read_ndjson(outp)
            else:
                obs.append({"ok": False, "diags": [], "lints": [],
                            "panic": "the compiler process died with status %d: %s" % (q.returncode, q.stderr.strip()[-200:])})
    for f in (inp, outp):
        if os.path.exists(f):
            os.remove(f)
    return obs


def clean(obs, expected):
    return bool(obs.get("ok")) and not obs.get("panic") and obs.get("exit") == 0 and not has_l1142(obs) \
        and stdout_bytes(obs) == expected


def batches(cases, parts_of, expected_of, tag, prelude="", size=BATCH):
    """-> {index: (obs of the case alone or None if its batch was clean)}"""
    groups = [list(range(k, min(k + size, len(cases)))) for k in range(0, len(cases), size)]
    progs = [program([parts_of(cases[i], i) for i in g], prelude) for g in groups]
    obs = run_raw(progs, tag + "-batch") if progs else []
    result = {}
    alone = []
    for g, o in zip(groups, obs):
        exp = b"".join(expected_of(cases[i]) for i in g)
        if clean(o, exp):
            for i in g:
                result[i] = None
        else:
            alone += g
    if alone:
        obs = run_raw([program([parts_of(cases[i], i)], prelude) for i in alone], tag + "-single")
        for i, o in zip(alone, obs):
            result[i] = o
    return result, len(groups), len(alone)


def judge_value(c, o, expected, where):
    """deviations of a case that was run alone"""
    if o.get("panic"):
        return ["crash %s: %s" % (where, o["panic"][:60])]
    if not o.get("ok"):
        return ["rejected-valid %s: E%s" % (where, first_code(o))]
    devs = []
    if has_l1142(o):
        devs.append("lint %s: false L1142 on an in-range literal" % where)
    out = stdout_bytes(o)
    if out is None or o.get("exit") != 0:
        devs.append("no-output %s" % where)
    elif out != expected:
        devs.append("value %s" % where)
    return devs


def shape(c):
    base = {10: "decimal", 16: "hex", 2: "binary"}.get(c.get("base"), "")
    return "%s %s%s" % (c["t"], "negated " if c.get("neg") else "", base)


def describe(c):
    f = c["fam"]
    if f == "posv":
        return "%s position, %s: %s" % (c["pos"], c["t"], lit(c))
    if f == "idx":
        return "index position: [10, 11, 12, 13][%s]" % lit(c)
    if f == "alen":
        return "array length position: |:[%s]u8|" % lit(c)
    if f == "strp":
        return "%s position: %s" % (c["at"], lexlib.esc(bytes(c["lit"])))
    if f == "long":
        return "string literal of %d bytes, unit %s" % (c["len"], lexlib.esc(bytes(c["unit"])))
    return lexlib.esc(bytes(c.get("lit", [])))


def long_text(c):
    return b'"' + bytes(c["unit"]) * c["reps"] + b"x" * c["pad"] + b'"'


def long_bytes(c):
    return bytes(c["ubytes"]) * c["reps"] + b"x" * c["pad"]


def dump_line(bs):
    return (("%d:" % len(bs)) + "".join(" %d" % b for b in bs) + "\n").encode()


def selftest(cases):
    """the binding of the new families detects a flipped expectation (value by position, string in print position)"""
    base = _base()
    out = {}
    c = next(x for x in cases if x["fam"] == "posv" and x["pos"] == "member" and lexlib.limbs_to_int(x["bits"]) > 1)
    s = next(x for x in cases if x["fam"] == "strp" and x["at"] == "printmix" and not x["rej"] and not x["uncs"] and not x["uncp"]
             and len(x["bytes"]) >= 2)
    o1, o2 = run_raw([program([posv_parts(c, 0)]), program([strp_parts(s, 0)])], "selftest")
    good = (posv_expected(c) + "\n").encode()
    wrong = dict(c, bits=lexlib.int_to_limbs(lexlib.limbs_to_int(c["bits"]) ^ 1, len(c["bits"])))
    out["position_case_clean"] = clean(o1, good) and judge_value(c, o1, good, "x") == []
    out["position_wrong_value_detected"] = bool(judge_value(wrong, o1, (base.expected_decimal(wrong) + "\n").encode(), "x"))
    bad = dict(s, bytes=s["bytes"][:-1] + [(s["bytes"][-1] + 1) % 256])
    out["print_position_clean"] = clean(o2, strp_expected(s))
    out["print_position_wrong_byte_detected"] = bool(judge_value(bad, o2, strp_expected(bad), "x"))
    return out


def run(rep, tier, cases, report, nontrivial, samples):
    """report(case, devs, obs, expected) as in c09.run; returns (number of cases replayed, coverage dict)"""
    base = _base()
    replayed = 0
    cov = {}
    # ---- posv: value fidelity by position ------------------------------------------------------------
    posv = [c for c in cases if c["fam"] == "posv"]
    posv.sort(key=lambda c: c["pos"])
    res, nb, ns = batches(posv, posv_parts, lambda c: (posv_expected(c) + "\n").encode(), "posv")
    for i, c in enumerate(posv):
        replayed += 1
        nontrivial.add(("posv", describe(c)))
        if res[i] is not None:
            devs = judge_value(c, res[i], (posv_expected(c) + "\n").encode(), "position-%s (%s)" % (c["pos"], shape(c)))
            report(c, devs, res[i], posv_expected(c))
    log("[replay] %d literals by position (value printed from 12 positions): %d batch programs, %d cases re-run alone" % (len(posv), nb, ns))
    cov["position_value_cases"] = len(posv)
    if posv:
        k = len(posv) // 2
        samples.append({"case": {x: posv[k][x] for x in ("fam", "pos", "t", "neg", "bits")}, "program_lines": posv_parts(posv[k], 0)})
    # ---- idx ---------------------------------------------------------------------------------------
    idx = [c for c in cases if c["fam"] == "idx"]
    res, nb, ns = batches(idx, idx_parts, lambda c: (base.expected_decimal(c) + "\n").encode(), "idx")
    for i, c in enumerate(idx):
        replayed += 1
        nontrivial.add(("idx", describe(c)))
        if res[i] is not None:
            report(c, judge_value(c, res[i], (base.expected_decimal(c) + "\n").encode(), "position-index"), res[i], base.expected_decimal(c))
    # ---- alen: every case in a program of its own ------------------------------------------------------
    alen = [c for c in cases if c["fam"] == "alen"]
    obs = run_raw([program([alen_parts(c, 0)]) for c in alen], "alen") if alen else []
    for c, o in zip(alen, obs):
        replayed += 1
        nontrivial.add(("alen", describe(c)))
        n = lexlib.limbs_to_int(c["bits"]) if c["inrange"] else None
        devs = []
        if c["inrange"]:
            # a length that fits usize: |:[N]u8| = N; an internal limit of the compiler that REJECTS the program
            # noisily is not a matter of this property (never silently altered)
            if o.get("ok") and o.get("exit") == 0 and stdout_bytes(o) != b"%d\n" % n:
                devs.append("value position-array-length: |:[N]u8| is not N")
            if o.get("ok") and has_l1142(o):
                devs.append("lint position-array-length: false L1142")
        else:
            # the length does not fit usize: rejected, or announced by L1142 -- never silently altered
            if o.get("ok") and not o.get("panic") and not has_l1142(o):
                devs.append("silent array-length: an array length above 2^64-1 is accepted without any diagnostic (%s)" %
                            ("|:[N]u8| printed %s" % (stdout_bytes(o) or b"").decode("ascii", "replace").strip()))
        report(c, devs, o, ("%d" % n) if n is not None else "rejected or L1142")
    log("[replay] %d index cases, %d array length cases" % (len(idx), len(alen)))
    cov["index_cases"] = len(idx)
    cov["array_length_cases"] = len(alen)
    # ---- strp: strings and characters by position ----------------------------------------------------
    strp = [c for c in cases if c["fam"] == "strp"]
    unconstrained = 0
    for at in sorted({c["at"] for c in strp}):
        prints = ("print", "printmix")
        sub = [c for c in strp if c["at"] == at and not c["rej"] and not c["uncs"] and not (at in prints and c["uncp"])]
        unconstrained += sum(1 for c in strp if c["at"] == at and not c["rej"] and (c["uncs"] or (at in prints and c["uncp"])))
        prelude = base.DUMP_FN if at in ("var", "const") else SHOW_FN if at == "chrarg" else ""
        res, nb, ns = batches(sub, strp_parts, strp_expected, "strp-" + at, prelude)
        for i, c in enumerate(sub):
            replayed += 1
            nontrivial.add(("strp", at, bytes(c["lit"])))
            if res[i] is not None:
                report(c, judge_value(c, res[i], strp_expected(c), "position-%s (%s)" % (at, c["form"])), res[i],
                       strp_expected(c).decode("latin-1"))
        log("[replay] %d string / character literals in position %s: %d batch programs, %d cases re-run alone" % (len(sub), at, nb, ns))
    cov["string_position_cases"] = len(strp)
    cov["string_position_unconstrained"] = unconstrained
    # ---- long: string literals of 255 .. 65537 bytes -------------------------------------------------
    longs = [c for c in cases if c["fam"] == "long"]
    progs, exps = [], []
    for c in longs:
        text = long_text(c).decode("utf-8")
        bs = long_bytes(c)
        stmts = ["dump(%s);" % text, "dump(L0);"]
        exp = dump_line(bs) * 2
        if c["len"] < 1000:
            # (a local array of 2^16 bytes initialised from a literal takes LLVM's code generator minutes: no matter of C09)
            stmts += ["var v0 = %s;" % text, "dump(v0);"]
            exp += dump_line(bs)
        if not c["uncp"]:
            stmts += ["print!(%s);" % text, 'print!("\\n");', 'print!(%s, 7u8, "\\n");' % text]
            exp += bs + b"\n" + bs + b"7\n"
        progs.append(program([(["const L0: [%d]char8 = %s;" % (c["len"], text)], stmts)], base.DUMP_FN))
        exps.append(exp)
    obs = run_raw(progs, "long", timeout=120) if progs else []
    for c, o, exp in zip(longs, obs, exps):
        replayed += 1
        nontrivial.add(("long", c["len"], bytes(c["unit"])))
        report(c, judge_value(c, o, exp, "long-string (%d bytes)" % c["len"]), {k: v for k, v in o.items() if k != "stdout_hex"},
               "%d bytes, as argument / constant / variable / print argument" % c["len"])
    log("[replay] %d string literals of 255..65537 bytes (argument, constant, variable, print argument)" % len(longs))
    cov["long_string_cases"] = len(longs)
    # ---- the literal is (almost) the LAST thing in the file: constant declared last, four endings ------
    ENDINGS = [("no-newline", ""), ("lf", "\n"), ("crlf", "\r\n"), ("comment-no-newline", " // end")]
    lastc = [c for c in posv if c["pos"] == "const"] + [c for c in strp if c["at"] == "const" and not c["rej"] and not c["uncs"]][::12]
    progs, meta = [], []
    for c in lastc:
        for ename, etext in ENDINGS:
            if c["fam"] == "posv":
                body = 'fn main() -> u8\n{\n\tprint!(K0, "\\n");\n\treturn: 0\n}\n\nconst K0: %s = %s;%s' % (c["t"], lit(c), etext)
                exp = (posv_expected(c) + "\n").encode()
            else:
                body = (base.DUMP_FN + 'fn main() -> u8\n{\n\tdump(S0);\n\treturn: 0\n}\n\nconst S0: [%d]char8 = %s;%s'
                        % (c["nbytes"], lit(c), etext))
                exp = strp_expected(c)
            progs.append(body)
            meta.append((c, ename, exp))
    obs = run_raw(progs, "ends") if progs else []
    for (c, ename, exp), o in zip(meta, obs):
        replayed += 1
        if not clean(o, exp):
            report(c, judge_value(c, o, exp, "end-of-file (%s)" % ename) or ["end-of-file (%s): not as the rule prescribes" % ename], o,
                   exp.decode("latin-1"))
    log("[replay] %d literals as the last token but one of the file x 4 endings (none, LF, CRLF, comment without line end)" % len(lastc))
    cov["end_of_file_cases"] = len(progs)
    # ---- many literals in one module; the same literals in two modules -------------------------------
    strs = [c for c in cases if c["fam"] == "str" and not c["rej"] and not c["uncs"] and not c["chr"] and c["pos"] != "chr"]
    ints = [c for c in cases if c["fam"] == "int" and not c["rej"] and not c["unca"] and c["inrange"] and not c.get("uncl")]
    seen, distinct = set(), []
    for c in strs:
        k = bytes(c["bytes"])
        if k not in seen:
            seen.add(k)
            distinct.append(c)
    n_distinct = 400 if tier == "quick" else 3000
    n_same = 300 if tier == "quick" else 66000
    pick = distinct[:n_distinct]
    # every literal once, then n_same more calls that cycle through them (each payload again and again, interleaved)
    many = pick + [pick[(k * 7) % len(pick)] for k in range(n_same)]
    src = base.DUMP_FN + "fn main() -> u8\n{\n" + "".join("\tdump(%s);\n" % lit(c) for c in many) + "\treturn: 0\n}\n"
    exp = b"".join(dump_line(bytes(c["bytes"])) for c in many)
    step = max(1, len(ints) // (700 if tier == "quick" else 3000))
    manyi = ints[::step]
    srci = "fn main() -> u8\n{\n" + "".join("\t" + base.int_statement(c, "v%d" % k) + "\n" for k, c in enumerate(manyi)) + "\treturn: 0\n}\n"
    expi = "".join(base.expected_decimal(c) + "\n" for c in manyi).encode()
    # two modules, both file orders: the library dumps 20 literals, the main module the same 20 (other order) and 20 others
    a, b = pick[10:30], pick[30:50]
    ki = [c for c in manyi if c["t"] != "char8"][:40]
    ilit = lambda c: ("-" if c["neg"] else "") + base.lit_text(c)
    libsrc = (DUMPL_FN + "".join("pub const LK%d: %s = %s;\n" % (k, c["t"], ilit(c)) for k, c in enumerate(ki))
              + "\npub fn lib_show()\n{\n" + "".join("\tdumpl(%s);\n" % lit(c) for c in a) + "}\n")
    mainsrc = ('import "lib.pn";\n\n' + base.DUMP_FN + "fn main() -> u8\n{\n"
               + "".join("\tdump(%s);\n" % lit(c) for c in reversed(a))
               + "\tlib_show();\n"
               + "".join("\tdump(%s);\n" % lit(c) for c in b)
               + "".join("\tvar w%d: %s = %s; print!(w%d, \"\\n\"); print!(LK%d, \"\\n\");\n" % (k, c["t"], ilit(c), k, k)
                         for k, c in enumerate(ki))
               + "\treturn: 0\n}\n")
    exp2 = (b"".join(dump_line(bytes(c["bytes"])) for c in reversed(a)) + b"".join(dump_line(bytes(c["bytes"])) for c in a)
            + b"".join(dump_line(bytes(c["bytes"])) for c in b)
            + "".join(base.expected_decimal(c) + "\n" + base.expected_decimal(c) + "\n" for c in ki).encode())
    n2 = 2 * len(a) + len(b) + 2 * len(ki)
    progs = [src, srci, [["lib.pn", libsrc], ["main.pn", mainsrc]], [["main.pn", mainsrc], ["lib.pn", libsrc]]]
    names = ["many-strings (%d dump calls, %d distinct, %d identical)" % (len(many), len(pick), n_same),
             "many-integers (%d literals in one function)" % len(manyi), "two-modules lib-first", "two-modules main-first"]
    obs = run_raw(progs, "many", timeout=600)
    for name, o, e, n in zip(names, obs, [exp, expi, exp2, exp2], [len(many), len(manyi), n2, n2]):
        replayed += n
        tag = name.split(" ")[0]
        pseudo = {"fam": "arranged", "lit": list(name.encode()), "what": name}
        devs = []
        if o.get("panic"):
            devs.append("crash %s: %s" % (tag, o["panic"][:60]))
        elif not o.get("ok"):
            devs.append("rejected-valid %s: E%s" % (tag, first_code(o)))
        else:
            out = stdout_bytes(o)
            if has_l1142(o):
                devs.append("lint %s: false L1142" % tag)
            if out != e:
                got, want = (out or b"").split(b"\n"), e.split(b"\n")
                bad = next((k for k in range(max(len(got), len(want))) if k >= len(got) or k >= len(want) or got[k] != want[k]), -1)
                devs.append("value %s: output line %d differs (expected %r, got %r)" %
                            (tag, bad + 1, want[bad][:40] if 0 <= bad < len(want) else b"-", got[bad][:40] if 0 <= bad < len(got) else b"-"))
        report(pseudo, devs, {k: v for k, v in o.items() if k != "stdout_hex"}, "every literal as judged alone (the rule is context-free)")
        nontrivial.add(("arranged", name))
    # two modules whose OUT-of-range literals stand at the SAME place of their files (same line, same columns, same
    # spelling length): "a value outside the range of its type ALWAYS raises L1142" -- once per literal, in whichever
    # module it stands, whatever another module holds at the same offsets.  Both file orders.
    over = [("u8", "300", "256"), ("i8", "128", "200"), ("u16", "65536", "70000"), ("i16", "40000", "32768")]
    liba = "".join("const AA%d: %s = %s;\n" % (k, t, x) for k, (t, x, y) in enumerate(over)) + "\npub fn lib_total() -> u8\n{\n\treturn: AA0\n}\n"
    mainb = ("".join("const BB%d: %s = %s;\n" % (k, t, y) for k, (t, x, y) in enumerate(over))
             + '\nimport "liba.pn";\n\nfn main() -> u8\n{\n\tvar r: u8 = BB0 + lib_total();\n\tprint!(r, "\\n");\n\treturn: 0\n}\n')
    for order_name, mods in (("lib-first", [["liba.pn", liba], ["mainb.pn", mainb]]), ("main-first", [["mainb.pn", mainb], ["liba.pn", liba]])):
        o = run_raw([mods], "over2", timeout=120)[0]
        replayed += 2 * len(over)
        name = "two-modules-out-of-range %s" % order_name
        pseudo = {"fam": "arranged", "lit": list(name.encode()), "what": name}
        devs = []
        if o.get("panic"):
            devs.append("crash two-modules-out-of-range: %s" % o["panic"][:60])
        elif not o.get("ok"):
            devs.append("rejected-valid two-modules-out-of-range: E%s" % first_code(o))
        else:
            for fname, decl in (("liba.pn", "AA"), ("mainb.pn", "BB")):
                lines = sorted(x[1] for x in o.get("lints", []) if x[0] == 1142 and str(x[2]).endswith(fname))
                # the declarations stand on lines 1..len(over) of both files
                missing = [k + 1 for k in range(len(over)) if (k + 1) not in lines]
                if missing:
                    devs.append("lint two-modules-out-of-range: no L1142 for the out-of-range literal(s) on line(s) %s of %s (%s)" %
                                (missing, fname, order_name))
        report(pseudo, devs, {k: v for k, v in o.items() if k != "stdout_hex"}, "one L1142 per out-of-range literal, in each of the two modules")
        nontrivial.add(("arranged", name))
        names.append(name)
    log("[replay] arranged programs: %s" % "; ".join(names))
    cov["arranged_programs"] = names
    return replayed, cov

"""C05 -- no variable is used out of scope, shadowed, or with its declaration skipped (spec/VarScope.tla)."""
import json
import zlib

from . import common, flatcheck


def positions(obs, code):
    return sorted(line - obs["off"] for c, line in obs["diags"] if c == code)


def compare(case, obs):
    out = []
    if obs.get("panic"):
        return [("crash", "the compiler panicked: %s" % obs["panic"])]
    for code, key in ((402, "e402"), (422, "e422")):
        got = sorted(set(positions(obs, code)))
        if got != sorted(case[key]):
            out.append(("E%d" % code, "E%d reported at items %s, the rule demands %s" % (code, got, case[key])))
    plines = [pl[1] for pl in obs["pl"]]
    want424 = sorted(plines[i - 1] for i in case["e424"])
    got424 = sorted(set(line for c, line in obs["diags"] if c == 424))
    if got424 != want424:
        out.append(("E424", "E424 reported at lines %s, the rule demands %s" % (got424, want424)))
    if case["labelok"] and case["nodup"]:
        got = set(positions(obs, 482))
        if not set(case["e482first"]) <= got:
            out.append(("E482-missing", "E482 at items %s, the rule demands at least %s" % (sorted(got), case["e482first"])))
        if not got <= set(case["baduses"]):
            out.append(("E482-spurious", "E482 at items %s but the uses reachable past a skipped declaration are %s" %
                        (sorted(got), case["baduses"])))
    if case["ok"] and not obs["ok"]:
        out.append(("rejected-valid", "a body the rule accepts is rejected: %s" % obs["diags"]))
    if case["labelok"] and not case["ok"] and obs["ok"]:
        out.append(("accepted-invalid", "a body the rule rejects is accepted"))
    return out


def drift(case, obs):
    out = []
    if obs.get("panic"):
        return out
    if case["labelok"] and case["nodup"] and sorted(set(positions(obs, 482))) != sorted(case["m482"]):
        out.append("E482 at %s, model %s" % (positions(obs, 482), case["m482"]))
    clines = [cl[1] for cl in obs["cl"]]
    want423 = sorted(clines[i - 1] for i in case["e423"])
    got423 = sorted(set(line for c, line in obs["diags"] if c == 423))
    if want423 != got423:
        out.append("E423 at lines %s, model %s" % (got423, want423))
    return out


# Layouts (no part of the rule, docs/notes-flat.md): where the constants stand, a result type, comments, the end of the file
LAYOUTS = [
    {},
    {"consts_after": True},
    {"ret": True, "comments": True},
    {"nonl": True, "consts_after": True, "pparam": True},
    {"ret": True, "nonl": True, "var_form": 1},
    {"comments": True, "consts_after": True, "var_form": 2},
]
_state = {"seed": 0}


def prepare(case):
    c = dict(case)
    key = " ".join(case["b"]) + "|" + ",".join(case.get("consts", [])) + "|" + ",".join(case.get("params", []))
    lay = dict(LAYOUTS[(zlib.crc32(key.encode()) + _state["seed"]) % len(LAYOUTS)])
    if any(x.endswith("return") for x in case["b"]):
        lay.pop("ret", None)
    if lay:
        c["layout"] = lay
    return c


def nontrivial(c):
    b = c["b"]
    return any(x[0] == "V" for x in b) and any(x[0] == "U" for x in b)


CFG = {
    "module": "MC_VarScope",
    # dimension audit (docs/notes-flat.md): fns / fnscfgs = modules of two function bodies (state of the scoper that
    # survives a function: scopes, pruned / poisoned sets, resolution ids; parameters and constants); ctx = uses as
    # assignment target and inside their own declaration, else-parts, a label named like the variable; ret = the result
    # expression after `return:` with `goto return`; phased = two labels x two variables in longer bodies; else = if / else
    # chains of blocks and gotos up to 6 (7) items (`if c { } else goto y; var a; y: x = a;` has 6); dead = bodies that open with a
    # block, bare gotos, two label names, 7 (8) items: `{ goto y; var a; z: x = a; y: }` -- declarations in dead code after an
    # unconditional goto, used after a later label (seventh round of seeded changes)
    "mc_cfg": {"quick": ["MC_VarScope_quick.cfg", "MC_VarScope_quick_cfgs.cfg", "MC_VarScope_fns_quick.cfg",
                         "MC_VarScope_fnscfgs_quick.cfg", "MC_VarScope_ctx_quick.cfg", "MC_VarScope_ret_quick.cfg",
                         "MC_VarScope_phased_quick.cfg", "MC_VarScope_else_quick.cfg", "MC_VarScope_dead_quick.cfg", "MC_VarScope_empty_quick.cfg"],
               "thorough": ["MC_VarScope_thorough.cfg", "MC_VarScope_thorough_cfgs.cfg", "MC_VarScope_thorough_2labels.cfg",
                            "MC_VarScope_fns_thorough.cfg", "MC_VarScope_fnscfgs_thorough.cfg", "MC_VarScope_ctx_thorough.cfg",
                            "MC_VarScope_ret_thorough.cfg", "MC_VarScope_phased_thorough.cfg", "MC_VarScope_else_thorough.cfg",
                            "MC_VarScope_dead_thorough.cfg", "MC_VarScope_empty_thorough.cfg"]},
    "prepare": prepare,
    "workers": 8,
    "compare": compare,
    "drift": drift,
    "nontrivial": nontrivial,
    "trace_module": "Trace_VarScope",
    "trace_cfg_rule": "Trace_VarScope_rule.cfg",
    "trace_cfg_strict": "Trace_VarScope_strict.cfg",
    "record_prop": "C05",
    "record_count": {"quick": 600, "thorough": 12000},
    "rule_text": "TLC enumerates every body over {block, var a/b, use a/b, label, goto, if-goto, loop} (and, in a second "
                 "configuration, modules with constants and parameters that collide with body names; in a third, two label "
                 "names and if-blocks) up to the bound; on each it checks the variable-scoper model against the syntactic rule "
                 "(E402/E422/E424/E482) and walks the control-flow graph of every accepted body to check that each use finds "
                 "its declaration executed (invariant Sound, the independent path-based analysis). Every body is replayed on "
                 "the real compiler. Random bodies (<= 40 items, 3 names, depth 4, if/else blocks) are recorded with hook "
                 "events and validated by TLC. Dimension audit: modules of two function bodies (item F: scopes, pruned / poisoned "
                 "sets, resolution ids and parameters must not survive a function; constants must), uses as assignment target "
                 "(`n = x;`), inside their own declaration (`var n: i32 = n;`) and as result expression after `return:` with "
                 "`goto return`, else-blocks / else-gotos, a label named like the variable, two labels x two variables in phased "
                 "bodies up to 6 (thorough 7) items; layouts (constants after the functions, result type, comments, no final "
                 "newline); every third random run has 1-3 functions, results, else-if forms, nesting up to 8. "
                 "Non-trivial = distinct bodies with at least one declaration and one use.",
    "assumptions": [
        "uses are reads (`x = n;`), declarations are `var n: i32 = 0;`; scoping does not depend on types",
        "E482 is compared only on bodies whose labels are all legal and without duplicate declarations "
        "(otherwise resolution of a use is ambiguous); E402/E422/E424 are compared on every body",
        "one E482 per skipped variable is demanded (at its first use after the label), further ones are permitted (cascade policy)",
        "the path exploration covers {goto, if-goto, loop, if-block} of single function bodies; else-chains and modules of several "
        "functions are covered syntactically (the rule for a module is the rule for each body)",
        "the parameters of a configuration belong to the first function of a module; assignment targets are never constants or parameters",
    ],
}


def run(rep, tier, seed, selftest):
    _state["seed"] = seed
    return flatcheck.run_flat(rep, tier, seed, selftest or tier == "thorough", CFG)


def replay(path):
    d = json.load(open(path))
    case = d["detail"].get("case")
    if case is None:
        print(json.dumps(d, indent=1))
        return 0
    p = common.pvh(["show-flat", json.dumps(case)])
    print(p.stdout)
    print("rule:", json.dumps({k: case[k] for k in case if k != "b"}))
    return 0

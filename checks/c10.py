"""C10 -- compile-time evaluation agrees with run time (spec/Machine.tla, spec/Layout.tla).

 a. constant expressions: every cell of the operator matrix (binary, unary, cast) and of the depth-2 tree
    matrix ((a op1 b) op2 c) is written (1) as `const C: T = <expr over literals>` and (2) as a chain of
    named constants declared in reverse order of dependency, and (3) evaluated at run time from variables;
    all three printed values must equal the value TLC computed with Machine.tla.
 b/c. array lengths: `|x|` for arrays of every length 0..8 by name, through a view, a slice pointer, a
    pointer to the array, as a constant, with a named-constant length, as a structure member (Layout.tla: LenOf).
 d. `|:T|`: every structure with up to MaxMembers members over the member alphabet (Layout.tla: SizeOf),
    `|:[3]S|` = 3 * `|:S|`, and words of the computed size.
 e. huge types: `|:T|` of arrays, nested arrays and structures around 2^29 .. 2^33 bytes (the size in bits passes 2^32),
    expected sizes in Wide.tla limbs (MC_Layout: PickHuge).
"""
import json
import os
import random

from . import common, machine_common as mc
from .common import log

PACK = 50


def py_literal(t, limbs):
    x = mc.limbs_to_int(limbs, t)
    if t == "bool":
        return "true" if x else "false"
    if x < 0:
        if t == "i128" and x == -(1 << 127):
            return "(-170141183460469231731687303715884105727i128 - 1i128)"
        return "(-%d%s)" % (-x, t)
    return "%d%s" % (x, t)


def cells(tier):
    out = []
    st = {"states": 0, "transitions": 0}
    # chain: casts chained three deep, ((a as T1) as T2) as T3 (dimension audit)
    for mode in ("bin", "un", "cast", "tree", "chain"):
        cfg = "MC_MachineOps_%s%s.cfg" % (mode, "_thorough" if tier == "thorough" else "")
        if mode == "tree" and tier == "quick":
            cfg = "MC_MachineOps_tree_small.cfg"
        r = common.tlc("MC_MachineOps", cfg, workers=6, timeout=3000, heap="6g", tag="C10-%s-%d" % (mode, os.getpid()))
        if not r.ok:
            raise common.ToolError("MC_MachineOps/%s: invariant %s violated" % (cfg, r.violated))
        log("[tlc] MC_MachineOps/%s: %d states, %d cells, %.1fs" % (cfg, r.distinct, len(r.cases), r.wall))
        st["states"] += r.distinct
        st["transitions"] += r.generated
        out += r.cases
    return out, st


def expr_src(c, a, b, cc):
    """source of the cell's expression over the operand spellings a, b, cc"""
    if c["mode"] == "bin":
        return "%s %s %s" % (a, c["op"], b)
    if c["mode"] == "un":
        return "%s%s" % (c["op"], a if not a.startswith("(") and not a[0] == "-" else a)
    if c["mode"] == "cast":
        return "%s as %s" % (a, c["op"])
    if c["mode"] == "chain":
        return "((%s as %s) as %s) as %s" % (a, c["op"], c["op2"], c["t3"])
    return "(%s %s %s) %s %s" % (a, c["op"], b, c["op2"], cc)


def cell_key(c):
    if c["mode"] == "chain":
        return "chain %s as %s as %s as %s a=%s" % (c["t"], c["op"], c["op2"], c["t3"], mc.limbs_to_int(c["a"], c["t"]))
    return "%s %s %s%s a=%s b=%s c=%s" % (c["mode"], c["t"], c["op"], " " + c["op2"] if c.get("op2") else "",
                                          mc.limbs_to_int(c["a"], c["t"]),
                                          mc.limbs_to_int(c["b"], c["t"]) if c["b"] else "",
                                          mc.limbs_to_int(c["c"], c["t"]) if c.get("c") else "")


def const_programs(live):
    """pack cells into source programs; per cell three printed lines: const, const chain, run time"""
    programs, expected, keys = [], [], []
    for start in range(0, len(live), PACK):
        chunk = live[start:start + PACK]
        consts, body, exp, ks = [], [], [], []
        for k, c in enumerate(chunk):
            t, rt = c["t"], c["rt"]
            la, lb = py_literal(t, c["a"]), (py_literal(t, c["b"]) if c["b"] else "")
            lc = py_literal(t, c["c"]) if c.get("c") else ""
            # (1) one constant with literal operands
            consts.append("const C%d: %s = %s;" % (k, rt, expr_src(c, la, lb, lc)))
            # (2) a chain of named constants, declared in reverse order of dependency
            if c["mode"] == "tree":
                consts.append("const Y%d: %s = X%d %s QC%d;" % (k, rt, k, c["op2"], k))
                consts.append("const X%d: %s = QA%d %s QB%d;" % (k, rt, k, c["op"], k))
                consts.append("const QC%d: %s = %s;" % (k, t, lc))
            elif c["mode"] == "chain":
                # one cast per constant, each declared before the one it uses
                consts.append("const Y%d: %s = X%d as %s;" % (k, rt, k, c["t3"]))
                consts.append("const X%d: %s = XX%d as %s;" % (k, c["op2"], k, c["op2"]))
                consts.append("const XX%d: %s = QA%d as %s;" % (k, c["op"], k, c["op"]))
            else:
                consts.append("const Y%d: %s = %s;" % (k, rt, expr_src(c, "QA%d" % k, "QB%d" % k, "")))
            consts.append("const QA%d: %s = %s;" % (k, t, la))
            if c["b"]:
                consts.append("const QB%d: %s = %s;" % (k, t, lb))
            # (3) run time, operands in variables
            body.append('print!("#", %dusize, "\\n");' % k)
            body.append("var a%d: %s = %s;" % (k, t, la))
            if c["b"]:
                body.append("var b%d: %s = %s;" % (k, t, lb))
            if c.get("c"):
                body.append("var c%d: %s = %s;" % (k, t, lc))
            body.append("var v%d: %s = %s;" % (k, rt, expr_src(c, "a%d" % k, "b%d" % k, "c%d" % k)))
            body.append('print!(C%d, "\\n");' % k)
            body.append('print!(Y%d, "\\n");' % k)
            body.append('print!(v%d, "\\n");' % k)
            want = mc.shown(c["r"], rt)
            if c["mode"] == "bin":
                # (4), (5) one operand known at compile time next to one known at run time only: where a compiler
                # specialises an operation on its constant operand (seeded change C10j: division by a constant)
                body.append("var m%d: %s = a%d %s QB%d;" % (k, rt, k, c["op"], k))
                body.append("var n%d: %s = %s %s b%d;" % (k, rt, la, c["op"], k))
                body.append('print!(m%d, "\\n");' % k)
                body.append('print!(n%d, "\\n");' % k)
                exp.append([want, want, want, want, want])
            else:
                exp.append([want, want, want])
            ks.append(cell_key(c))
        src = "\n".join(consts) + "\nfn main() -> u8\n{\n" + "\n".join(body) + "\nreturn: 0u8\n}\n"
        programs.append({"src": src})
        expected.append(exp)
        keys.append(ks)
    return programs, expected, keys


ELEM_LIT = {"i32": "7i32", "u8": "7u8", "i128": "7i128", "bool": "true"}


def len_program(cases):
    """one program for all (n, mode, elem) cases"""
    decls, body, exp, ks = [], [], [], []
    seen_fn = set()
    for k, c in enumerate(cases):
        n, mode, e = c["n"], c["mode"], c["elem"]
        lit = "[" + ", ".join([ELEM_LIT[e]] * n) + "]"
        ty = "[%d]%s" % (n, e)
        for fn, sig in (("v_%s" % e, "x: []%s" % e), ("s_%s" % e, "x: &[]%s" % e)):
            if fn not in seen_fn:
                seen_fn.add(fn)
                decls.append("fn %s(%s) -> usize\n{\nreturn: |x|\n}" % (fn, sig))
        body.append('print!("#", %dusize, "\\n");' % k)
        if mode == "name":
            body += ["var x%d: %s = %s;" % (k, ty, lit), 'print!(|x%d|, "\\n");' % k]
        elif mode == "view":
            body += ["var x%d: %s = %s;" % (k, ty, lit), 'var l%d: usize = v_%s(x%d);' % (k, e, k), 'print!(l%d, "\\n");' % k]
        elif mode == "slicepointer":
            body += ["var x%d: %s = %s;" % (k, ty, lit), 'var l%d: usize = s_%s(&x%d);' % (k, e, k), 'print!(l%d, "\\n");' % k]
        elif mode == "arraypointer":
            decls.append("fn p%d(x: &%s) -> usize\n{\nreturn: |x|\n}" % (k, ty))
            body += ["var x%d: %s = %s;" % (k, ty, lit), 'var l%d: usize = p%d(&x%d);' % (k, k, k), 'print!(l%d, "\\n");' % k]
        elif mode == "const":
            decls.append("const K%d: %s = %s;" % (k, ty, lit))
            body += ['print!(|K%d|, "\\n");' % k]
        elif mode == "namedlength":
            # the constant is declared after its use as a length and computed from an expression
            decls.append("fn q%d() -> usize\n{\nvar x: [N%d]%s = %s;\nreturn: |x|\n}" % (k, k, e, lit))
            decls.append("const N%d: usize = %dusize + M%d;" % (k, n, k))
            decls.append("const M%d: usize = 0usize;" % k)
            body += ['var l%d: usize = q%d();' % (k, k), 'print!(l%d, "\\n");' % k]
        elif mode == "member":
            decls.append("struct H%d\n{\nm: %s,\n}" % (k, ty))
            body += ["var h%d: H%d = H%d { m: %s };" % (k, k, k, lit), 'print!(|h%d.m|, "\\n");' % k]
        elif mode == "row":
            outer = "[" + ", ".join([lit] * (n + 2)) + "]"
            body += ["var x%d: [%d]%s = %s;" % (k, n + 2, ty, outer), 'print!(|x%d[1]|, "\\n");' % k]
        elif mode == "constrow":
            outer = "[" + ", ".join([lit] * (n + 2)) + "]"
            decls.append("const K%d: [%d]%s = %s;" % (k, n + 2, ty, outer))
            body += ['print!(|K%d[0]|, "\\n");' % k]
        elif mode == "elemmember":
            decls.append("struct H%d\n{\nm: %s,\n}" % (k, ty))
            one = "H%d { m: %s }" % (k, lit)
            body += ["var hs%d: [%d]H%d = [%s];" % (k, n + 2, k, ", ".join([one] * (n + 2))), 'print!(|hs%d[1].m|, "\\n");' % k]
        body.append('print!(|:%s|, "\\n");' % ty)
        exp.append([str(c["expect"]), str(c["size"])])
        ks.append("len n=%d mode=%s elem=%s" % (n, mode, e))
    src = "\n".join(decls) + "\nfn main() -> u8\n{\n" + "\n".join(body) + "\nreturn: 0u8\n}\n"
    return {"src": src}, exp, ks


SIZE_LABELS = ["sizeof", "sizeof-array-of-3", "const-sizeof-word-plus-sizeof", "const-sizeof-plus-sizeof-word", "sizeof-word", "sizeof-array-of-3-words", "sizeof-underfilled-word", "sizeof-array-of-3-underfilled-words"]
PRELUDE_TYPES = ("struct P8\n{\na: u8,\nx: i32,\n}\nword16 W2\n{\na: u8,\nb: u8,\n}\n"
                 # dimension audit: words of every declared size, a structure nested three deep (MC_Layout.Extra)
                 "word8 WA\n{\na: u8,\n}\nword32 WB\n{\na: u16,\nb: u8,\nc: u8,\n}\nword64 WC\n{\na: i32,\nb: i32,\n}\n"
                 "word128 WE\n{\na: i64,\nb: i64,\n}\nstruct Q3\n{\na: u8,\np: P8,\nb: u8,\n}\n")
WORD_MEMBERS = ("i8", "i16", "i32", "i64", "i128", "u8", "bool", "W2", "WA", "WB", "WC", "WE")


def size_programs(cases):
    programs, expected, keys = [], [], []
    for start in range(0, len(cases), PACK):
        chunk = cases[start:start + PACK]
        early, decls, body, exp, ks = [], [PRELUDE_TYPES], [], [], []
        for k, c in enumerate(chunk):
            members = "".join("m%d: %s,\n" % (i, t) for i, t in enumerate(c["ms"]))
            decls.append("struct S%d\n{\n%s}" % (k, members))
            body.append('print!("#", %dusize, "\\n");' % k)
            body.append('print!(|:S%d|, "\\n");' % k)
            body.append('print!(|:[3]S%d|, "\\n");' % k)
            # the alignment of word members is undocumented: both layouts are accepted (alternatives joined by "|")
            alts = sorted(set([c["size"], c["size2"]]))
            want = ["|".join(str(x) for x in alts), "|".join(str(3 * x) for x in alts)]
            # constants that measure TWO declared types (the prelude word W2, 2 bytes, and this structure, which may
            # itself hold a W2), in both operand orders; declared before every structure for even units, after them
            # for odd ones: a constant is evaluated at compile time, wherever it stands, to the storage really used
            (early if k % 2 == 0 else decls).append("const ZA%d: usize = |:W2| + |:S%d|;\nconst ZB%d: usize = |:S%d| + |:W2|;" % (k, k, k, k))
            body.append('print!(ZA%d, "\\n");' % k)
            body.append('print!(ZB%d, "\\n");' % k)
            want += ["|".join(str(2 + x) for x in alts)] * 2
            # words over the same members, when the members are allowed in words.  A word occupies the storage of
            # its members (the typer only demands that they fit into the declared width), so `|:W|` is the same
            # layout size as for the structure, for an exactly declared word and for an under-filled one alike;
            # and `|:[3]W|` = 3 * `|:W|`.
            if c["size"] in (1, 2, 4, 8, 16) and c["ms"] and all(t in WORD_MEMBERS for t in c["ms"]):
                decls.append("word%d V%d\n{\n%s}" % (8 * c["size"], k, members))
                body.append('print!(|:V%d|, "\\n");' % k)
                body.append('print!(|:[3]V%d|, "\\n");' % k)
                want.append(want[0])
                want.append(want[1])
                if c["size"] < 16:
                    decls.append("word128 U%d\n{\n%s}" % (k, members))
                    body.append('print!(|:U%d|, "\\n");' % k)
                    body.append('print!(|:[3]U%d|, "\\n");' % k)
                    want.append(want[0])
                    want.append(want[1])
            exp.append(want)
            ks.append("size {" + ", ".join(c["ms"]) + "}")
        src = "\n".join(early + decls) + "\nfn main() -> u8\n{\n" + "\n".join(body) + "\nreturn: 0u8\n}\n"
        programs.append({"src": src})
        expected.append(exp)
        keys.append(ks)
    return programs, expected, keys


def wasm_sizes(rep, cases, selftest):
    """`|:T|` under `--wasm` (pointers and usize are 4 bytes wide): the same structures, measured in a function, through a
    constant and as `|:[3]T|`, compiled by the real `penne emit --wasm`; the folded values are read off the IR
    (`ret i32 N`) and compared with MC_Layout's wsize (Layout.tla SizeOfT with pw = 4).  (Ninth round of seeded changes:
    the size used a layout cached for the native target.)"""
    import re
    import shutil
    import subprocess
    from . import pipeline_common as pc
    penne = pc.build_penne()
    root = os.path.join(common.WORK, "c10-wasm-%d" % os.getpid())
    bad = n = 0
    noticed = False
    for start in range(0, len(cases), PACK):
        chunk = cases[start:start + PACK]
        decls, fns = [PRELUDE_TYPES], []
        for k, c in enumerate(chunk):
            members = "".join("m%d: %s,\n" % (i, t) for i, t in enumerate(c["ms"]))
            decls.append("struct S%d\n{\n%s}" % (k, members))
            decls.append("const Z%d: usize = |:S%d|;" % (k, k))
            fns.append("pub fn size_%d() -> usize\n{\nreturn: |:S%d|\n}\npub fn csize_%d() -> usize\n{\nreturn: Z%d\n}\n"
                       "pub fn asize_%d() -> usize\n{\nreturn: |:[3]S%d|\n}" % (k, k, k, k, k, k))
        shutil.rmtree(root, ignore_errors=True)
        os.makedirs(root)
        with open(os.path.join(root, "sizes.pn"), "w") as f:
            f.write("\n".join(decls + fns) + "\n")
        p = subprocess.run([penne, "emit", "--wasm", "--out-dir", "out", "--color", "never", "sizes.pn"], cwd=root, stdout=subprocess.PIPE,
                           stderr=subprocess.PIPE, timeout=300, env=common.env_with_tools({"RUST_BACKTRACE": "0"}))
        ir = ""
        if p.returncode == 0:
            ir = open(os.path.join(root, "out", "sizes.pn.ll")).read()
        got = {m.group(1): int(m.group(2)) for m in re.finditer(r'define [^@]*@"?([ac]?size_\d+)"?\(\)[^{]*\{[^}]*?ret i32 (\d+)', ir)}
        for k, c in enumerate(chunk):
            alts = sorted(set([c["wsize"], c["wsize2"]]))
            for label, name, mult in (("sizeof", "size_%d" % k, 1), ("const-sizeof", "csize_%d" % k, 1), ("sizeof-array-of-3", "asize_%d" % k, 3)):
                n += 1
                obs = got.get(name)
                ok = obs is not None and obs in [mult * x for x in alts]
                if ok and selftest and not noticed:
                    noticed = obs not in [mult * x + 1 for x in alts]
                if not ok:
                    bad += 1
                    rep.violation("wasm-size", "wasm %s {%s}" % (label, ", ".join(c["ms"])),
                                  {"case": c, "observed": obs, "rc": p.returncode, "stderr": p.stderr.decode("utf-8", "replace")[-600:],
                                   "message": "`penne emit --wasm`: %s of struct {%s} is %s, the layout rule for 4-byte pointers and usize gives %s" %
                                              (label, ", ".join(c["ms"]), obs, " or ".join(str(mult * x) for x in alts))})
    shutil.rmtree(root, ignore_errors=True)
    if selftest and not noticed:
        raise common.ToolError("C10 wasm sizes: no comparison succeeded (self-test)")
    log("[wasm] %d structures x 3 measurements through `penne emit --wasm`, read off the IR: %d comparisons, %d violations" % (len(cases), n, bad))
    return n


HUGE_LABELS = ["sizeof", "const-sizeof", "sizeof-array-of-3"]


def huge_programs(cases):
    """`|:T|` of types whose size in bits passes 2^32 (nothing is allocated: size-of is a compile-time constant);
    the expected sizes are the 64-bit limb sequences MC_Layout computed with Wide.tla"""
    programs, expected, keys = [], [], []
    for start in range(0, len(cases), PACK):
        chunk = cases[start:start + PACK]
        decls, body, exp, ks = [], [], [], []
        for k, c in enumerate(chunk):
            n = mc.limbs_to_int(c["n"], "usize")
            e = c["elem"]
            if c["form"] == "array":
                ty = "[%d]%s" % (n, e)
            elif c["form"] == "nested":
                ty = "[%d][2]%s" % (n, e)
            else:
                decls.append("struct HG%d\n{\na: [%d]%s,\nx: i32,\n}" % (k, n, e))
                ty = "HG%d" % k
            # the constant is declared before the structure it measures for even units, after it for odd ones
            line = "const HK%d: usize = |:%s|;" % (k, ty)
            if k % 2 == 0:
                decls.insert(0, line)
            else:
                decls.append(line)
            body.append('print!("#", %dusize, "\\n");' % k)
            body.append('print!(|:%s|, "\\n");' % ty)
            body.append('print!(HK%d, "\\n");' % k)
            body.append('print!(|:[3]%s|, "\\n");' % ty)
            size = mc.limbs_to_int(c["size"], "usize")
            exp.append([str(size), str(size), str(mc.limbs_to_int(c["size3"], "usize"))])
            ks.append("huge 2^%d%+d %s %s" % (c["total"], c["delta"] - 2, c["form"], e))
        src = "\n".join(decls) + "\nfn main() -> u8\n{\n" + "\n".join(body) + "\nreturn: 0u8\n}\n"
        programs.append({"src": src})
        expected.append(exp)
        keys.append(ks)
    return programs, expected, keys


def run_sources(programs, tag):
    inp = os.path.join(common.WORK, "%s-%d-src.ndjson" % (tag, os.getpid()))
    out = os.path.join(common.WORK, "%s-%d-res.ndjson" % (tag, os.getpid()))
    common.write_ndjson(inp, programs)
    common.pvh(["run-src", inp, out], exe_name="pvh_machine", timeout=7200)
    res = common.read_ndjson(out)
    if len(res) != len(programs):
        raise common.ToolError("pvh_machine returned %d results for %d programs" % (len(res), len(programs)))
    return res


def split_units(stdout):
    units, cur = {}, None
    for line in stdout.split("\n"):
        if line.startswith("#"):
            cur = int(line[1:])
            units[cur] = []
        elif cur is not None and line != "":
            units[cur].append(line)
    return units


def compare(rep, kind, programs, results, expected, keys, labels):
    checked = 0
    for prog, r, exp, ks in zip(programs, results, expected, keys):
        if "toolerror" in r:
            raise common.ToolError(r["toolerror"])
        if "stdout" not in r:
            what = "rejected" if "rejected" in r else "crash"
            sig = ",".join(sorted(set("E%d" % d[0] for d in r.get("diags", []) or []))) or str(r.get("crash") or r.get("lli") or r.get("panic"))[:80]
            # localise: which units does the diagnostic point into?
            rep.violation(kind, "pack:%s .. (%d units) :: %s %s" % (ks[0], len(ks), what, sig),
                          {"problem": "a program of valid constant/length/size expressions is %s" % what,
                           "result": {k: r[k] for k in r if k != "ir"}, "source": prog["src"]})
            continue
        units = split_units(r["stdout"])
        for k, (want, key) in enumerate(zip(exp, ks)):
            got = units.get(k)
            checked += 1
            ok = got is not None and len(got) == len(want) and all(g in w.split("|") for g, w in zip(got, want))
            if ok and kind == "huge":
                ok = int(got[2]) == 3 * int(got[0])
            if ok and kind == "size":
                # whichever alternative the compiler uses, `|:[3]T|` = 3 * `|:T|` (the property's own equation)
                # (lines 2 and 3 are the two-type constants ZA, ZB)
                ok = all(int(got[i + 1]) == 3 * int(got[i]) for i in range(0, len(got) - 1, 2) if i != 2) and got[2] == got[3]
            if not ok:
                which = [labels[i] for i in range(min(len(want), len(got or []))) if got[i] not in want[i].split("|")] if got else ["missing"]
                rep.violation(kind, "%s :: %s" % (key, "+".join(which) or "count"),
                              {"unit": key, "expected_lines": dict(zip(labels, want)), "observed_lines": got,
                               "source": prog["src"]})
    return checked


def run(rep, tier, seed, selftest):
    allcells, st = cells(tier)
    live = [c for c in allcells if not c["ub"]]
    programs, expected, keys = const_programs(live)
    results = run_sources(programs, "C10-const")
    n1 = compare(rep, "const", programs, results, expected, keys, ["const", "const-chain", "runtime", "runtime-op-constant", "literal-op-runtime"])
    log("[replay] constant expressions: %d cells (%d defined) in %d programs, %d comparisons (const / const chain / run time)" %
        (len(allcells), len(live), len(programs), n1))
    r = common.tlc("MC_Layout", "MC_Layout_%s.cfg" % tier, workers=4, timeout=1200, tag="C10-layout-%d" % os.getpid())
    if not r.ok:
        raise common.ToolError("MC_Layout: invariant %s violated (the rule contradicts the property's own consequences)" % r.violated)
    lens = [c for c in r.cases if c["kind"] == "len"]
    sizes = [c for c in r.cases if c["kind"] == "struct"]
    huges = sorted((c for c in r.cases if c["kind"] == "huge"), key=lambda c: (c["total"], c["delta"], c["form"], c["elem"]))
    log("[tlc] MC_Layout: %d states, %d length cases, %d structures, %d huge types, %.1fs" % (r.distinct, len(lens), len(sizes), len(huges), r.wall))
    if not huges:
        raise common.ToolError("MC_Layout emitted no huge types")
    lprogs, lexp, lkeys = [], [], []
    for start in range(0, len(lens), PACK):
        p, e, k = len_program(lens[start:start + PACK])
        lprogs.append(p)
        lexp.append(e)
        lkeys.append(k)
    lres = run_sources(lprogs, "C10-len")
    n2 = compare(rep, "len", lprogs, lres, lexp, lkeys, ["length", "sizeof-array"])
    sprogs, sexp, skeys = size_programs(sizes)
    sres = run_sources(sprogs, "C10-size")
    n3 = compare(rep, "size", sprogs, sres, sexp, skeys, SIZE_LABELS)
    n_wasm = wasm_sizes(rep, sizes, True)
    hprogs, hexp, hkeys = huge_programs(huges)
    hres = run_sources(hprogs, "C10-huge")
    n4 = compare(rep, "huge", hprogs, hres, hexp, hkeys, HUGE_LABELS)
    log("[replay] lengths: %d cases, %d comparisons; sizes: %d structures, %d comparisons; huge types: %d, %d comparisons" %
        (len(lens), n2, len(sizes), n3, len(huges), n4))
    # f. mixed constant expressions (dimension audit): `|:T|` of every type form, casts and other constants three deep;
    # constants of word / array-of-structure type whose members are constant expressions; array lengths that are chains of
    # constant expressions in every position a length can stand (MC_MachineConst; packed by checks/machine_fam.py, the
    # constants written in dependency order, in reverse order, and in reverse order after the functions)
    from . import machine_fam as mf
    rc = common.tlc("MC_MachineConst", "MC_MachineConst_%s.cfg" % tier, workers=4, timeout=1200, heap="4g", tag="C10-cmix-%d" % os.getpid())
    if not rc.ok:
        raise common.ToolError("MC_MachineConst: invariant %s violated (a cell has undefined behaviour, or a constant differs from "
                               "the same expression evaluated at run time IN THE SPECIFICATION)" % rc.violated)
    mixed = sorted(rc.cases, key=lambda c: json.dumps(c["par"], sort_keys=True))
    random.Random(seed).shuffle(mixed)         # cells of different families share a source file
    if len(mixed) < 100:
        raise common.ToolError("MC_MachineConst emitted %d cells (vacuous)" % len(mixed))
    n5, mpacks = mf.check_packed_cells(rep, "cmix", "cmix", mixed, 1, seed, "C10-cmix")
    fams = {}
    for c in mixed:
        fams[c["par"]["fam"]] = fams.get(c["par"]["fam"], 0) + 1
    log("[tlc] MC_MachineConst: %d states, %d cells (%s), %.1fs; [replay] %d programs, %d comparisons" %
        (rc.distinct, len(mixed), ", ".join("%s %d" % kv for kv in sorted(fams.items())), rc.wall, mpacks, n5))
    selftests = {}
    if selftest or tier == "thorough":
        probe = common.Report("C10", tier, seed)
        probe.known = []
        import io, contextlib
        with contextlib.redirect_stdout(io.StringIO()):
            bad = [[list(x) for x in sexp[0]]]
            bad[0][0][0] = str(int(bad[0][0][0].split("|")[0]) + 1000)
            compare(probe, "size", sprogs[:1], sres[:1], bad, skeys[:1], SIZE_LABELS)
        selftests["corrupted_expectation_detected"] = len(probe.violations) == 1
        for f in probe.violations:
            if os.path.exists(f):
                os.remove(f)
        probe3 = common.Report("C10", tier, seed)
        probe3.known = []
        with contextlib.redirect_stdout(io.StringIO()):
            badc = json.loads(json.dumps(mixed[:3]))
            badc[1]["out"][0]["v"][0] = (badc[1]["out"][0]["v"][0] + 1) % 256
            mf.check_packed_cells(probe3, "cmix", "cmix", badc, 1, seed, "C10-selftest-cmix")
        # (one violation per variant of the program that holds the corrupted cell: canonical text, layout, second module)
        selftests["corrupted_mixed_constant_detected"] = len(probe3.violations) >= 1
        for f in probe3.violations:
            if os.path.exists(f):
                os.remove(f)
        log("[selftest] %s" % json.dumps(selftests))
        if not all(selftests.values()):
            raise common.ToolError("self-test failed: %s" % selftests)
    rs = random.Random(seed)
    coverage = {
        "states": st["states"] + r.distinct + rc.distinct,
        "transitions": st["transitions"] + r.generated + rc.generated,
        "traces_validated_against_impl": len(live) + len(lens) + len(sizes) + len(huges) + len(mixed),
        "samples": [{"cell": c} for c in rs.sample(live, 3)] + [{"length": c} for c in rs.sample(lens, 2)] +
                   [{"structure": c} for c in rs.sample(sizes, 2)] + [{"program_head": programs[0]["src"][:800]}],
        "evaluations": len(allcells) + len(lens) + len(sizes) + len(mixed),
        "distinct_nontrivial": len(live) + len(lens) + len(sizes) + len(mixed),
        "rule": "TLC evaluates every cell of the operator matrix and of the depth-2 tree matrix with Machine.tla, every "
                "(length 0..8 x passing mode x element type) with Layout.tla's LenOf and every structure up to the member bound "
                "with SizeOf; each cell is compiled as a constant with literal operands, as a chain of named constants declared "
                "in reverse dependency order, and evaluated at run time from variables; all printed values must equal the "
                "specification's. MC_MachineConst: cells mixing size-of of every type form, casts and other constants three deep, "
                "aggregate constants with constant-expression members, lengths that are chains of constant expressions in every "
                "position (each run by the machine, invariant constant = same expression at run time; packed with the constants "
                "written in three different orders). Non-trivial = cells with defined behaviour + all length, size and mixed cases.",
        "exhaustive": True,
        "const_cells": len(allcells), "const_cells_defined": len(live), "length_cases": len(lens), "structures": len(sizes), "huge_types": len(huges), "mixed_constant_cells": fams,
        "comparisons": n1 + n2 + n3 + n4 + n5, "selftests": selftests,
    }
    return rep.finish("model_checking", coverage, [
        "decimal text <-> limbs conversion in Python is trusted",
        "cells with undefined behaviour (division by zero, MIN / -1, oversized shifts) are not compiled",
        "the layout rule (members in order, natural alignment capped at 8 bytes, total padded to the largest member alignment, "
        "a word occupies the storage of its members, which must fit the declared width) is read off the property, docs and tests/samples/valid/size_of_struct.pn",
        "bitwise operators on usize are an unconstrained cell (docs silent, code rejects) and are not enumerated",
    ])


def replay(path):
    d = json.load(open(path))
    det = d["detail"]
    print(json.dumps({k: det[k] for k in det if k != "source"}, indent=1))
    if "source" in det:
        print(det["source"])
    return 0

"""impl -> spec for the Machine group: random programs are compiled and executed by the real compiler,
the recorded output is validated by TLC running spec/Machine.tla on the logged program (Trace_Machine)."""
import json
import os
import re

from . import common, machine_common as mc
from .common import log


def split_shape(p):
    """shape classes of a program that matter when it is split over two files (known-finding keys name the input class):
    two structures / words whose member types are the same list (the open defects around imported structures of equal layout)"""
    tags = []
    # (the layout as LLVM sees it: signedness is no part of an LLVM integer type, usize is a 64-bit integer)
    def llvm_like(ty):
        if isinstance(ty, dict):
            if ty.get("k") == "prim":
                t = ty.get("t", "")
                bits = {"usize": "64", "char8": "8"}.get(t) or (t[1:] if t[:1] in "iu" and t[1:].isdigit() else t)
                return {"k": "prim", "t": bits}
            return {k: llvm_like(v) for k, v in ty.items()}
        if isinstance(ty, list):
            return [llvm_like(x) for x in ty]
        return ty
    layouts = [json.dumps([llvm_like(m["ty"]) for m in d["ms"]], sort_keys=True) for d in p.get("structs", [])]
    if len(set(layouts)) < len(layouts):
        tags.append("imported-same-layout")
    return (" [" + ",".join(tags) + "]") if tags else ""


def build_trace(programs, results):
    """-> (lines, index): ndjson lines and, per program, the line number of its `prog` record"""
    lines = []
    where = {}
    direct = []     # programs that cannot be traced: rejected / crashed (reported directly)
    for i, (p, r) in enumerate(zip(programs, results)):
        x = r["results"][0]
        if "stdout" in x:
            vals = []
            for line in x["stdout"].split("\n"):
                if line == "":
                    continue
                v = mc.decimal_to_limbs128(line)
                # a line that is not a number (seen: "-" printed after a 128-bit division by zero) matches no
                # value of the machine: the program is accepted only if the specification finds undefined
                # behaviour before it
                vals.append(v if v is not None else [])
            where[len(lines) + 1] = i
            lines.append({"ev": "prog", "i": i, "p": p})
            for v in vals:
                lines.append({"ev": "print", "v": v})
            lines.append({"ev": "exit", "code": x["exit"]})
        elif x.get("lli") == "timeout":
            where[len(lines) + 1] = i
            lines.append({"ev": "prog", "i": i, "p": p})
            lines.append({"ev": "hang"})
        elif str(x.get("lli", "")).startswith("signal"):
            # the running program was killed by a signal (its buffered output is lost): acceptable only if
            # the specification finds undefined behaviour in it
            where[len(lines) + 1] = i
            lines.append({"ev": "prog", "i": i, "p": p})
            lines.append({"ev": "crash"})
        else:
            direct.append(i)
    return lines, where, direct


def validate(trace_lines, where, tag, module="Trace_Machine", cfg="Trace_Machine.cfg", chunks=12):
    """Split the recording into files at program boundaries, validate, re-validate remainders after a
    rejection.  Returns (accepted_programs, trivial {program index: why}, rejections [(program index, line obj)], states)."""
    # program blocks
    blocks = []
    for ln in trace_lines:
        if ln["ev"] == "prog":
            blocks.append([])
        blocks[-1].append(ln)
    chunks = max(1, min(chunks, len(blocks) // 20 or 1))
    per = (len(blocks) + chunks - 1) // chunks
    files = []
    for c in range(chunks):
        part = blocks[c * per:(c + 1) * per]
        if not part:
            continue
        path = os.path.join(common.WORK, "%s-%d-trace.%d.ndjson" % (tag, os.getpid(), c))
        common.write_ndjson(path, [ln for b in part for ln in b])
        files.append((path, part))
    accepted = 0
    trivial = {}
    rejections = []
    states = 0
    todo = files
    rounds = 0
    while todo and rounds < 10:
        rounds += 1
        results = common.tlc_traces(module, cfg, [f for f, _ in todo], timeout=3000)
        by = {r["file"]: r for r in results}
        nxt = []
        for path, part in todo:
            r = by[path]
            states += r.get("states", 0)
            # TRIVIAL notes: line number within this file -> program
            starts = []
            n = 0
            for b in part:
                starts.append(n + 1)
                n += len(b)
            for line in open(r["output"], errors="replace"):
                if line.startswith('<<"TRIVIAL"'):
                    d = common._decode_print(line.rstrip("\n"))
                    if d and isinstance(d[1], dict):
                        k = starts.index(d[1]["line"])
                        trivial[part[k][0]["i"]] = d[1]["why"] + (": " + d[1]["detail"] if d[1].get("detail") else "")
            if r["accepted"]:
                accepted += len(part)
                continue
            # locate the rejected program
            k = max(j for j, s in enumerate(starts) if s <= r["matched"] + 1)
            accepted += k
            rejections.append((part[k][0]["i"], part[k], r["matched"] + 1 - starts[k]))
            rest = part[k + 1:]
            if rest:
                npath = path[:-len(".ndjson")] + "r.ndjson"
                common.write_ndjson(npath, [ln for b in rest for ln in b])
                nxt.append((npath, rest))
        todo = nxt
    return accepted, trivial, rejections, states


def run_random(rep, prop, tier, seed, layouts, count=None, gen_args=None, tag=None):
    tag = tag or ("%s-rnd" % prop)
    count = count or {"quick": 240, "thorough": 4000}[tier]
    cfg = "Trace_Machine.cfg" if tier == "quick" else "Trace_Machine_thorough.cfg"
    path = os.path.join(common.WORK, "%s-%d-gen.ndjson" % (tag, os.getpid()))
    # thorough: three quarters of the programs of the usual size, one quarter twice as large (longer loops, deeper fuel)
    if gen_args is None and tier == "thorough":
        big = count // 4
        path2 = path + ".big"
        common.pvh(["gen", count - big, seed, path], exe_name="pvh_machine")
        common.pvh(["gen", big, seed + 1, path2, 2], exe_name="pvh_machine")
        with open(path, "a") as f:
            f.write(open(path2).read())
    else:
        common.pvh(["gen", count, seed, path] + (gen_args or []), exe_name="pvh_machine")
    programs = common.read_ndjson(path)
    results = mc.run_programs(programs, layouts, seed, tag, split=True)
    lines, where, direct = build_trace(programs, results)
    for i in direct:
        x = results[i]["results"][0]
        what = "rejected" if "rejected" in x else "crash"
        sig = ""
        if what == "rejected":
            sig = ",".join(sorted(set("E%d" % d[0] for d in x.get("diags", []))))
            if x.get("panic"):
                sig = "panic:" + str(x["panic"])[:60]
        else:
            sig = str(x.get("crash") or x.get("lli"))[:60]
        rep.violation("random-" + what, "%s :: %s" % (what, sig),
                      {"problem": "a generated well-formed program is %s" % what, "result": x,
                       "source": results[i]["source"], "program": programs[i]})
    accepted, trivial, rejections, states = validate(lines, where, tag, cfg=cfg)
    for i, block, offset in rejections:
        ev = block[offset] if offset < len(block) else None
        rep.violation("random-output", "program seed=%d index=%d :: output" % (seed, i),
                      {"problem": "the output of the compiled program is not the one the specification's machine produces",
                       "first_unmatched_event": ev, "event_number": offset, "stdout": results[i]["results"][0].get("stdout"),
                       "exit": results[i]["results"][0].get("exit"), "source": results[i]["source"], "program": programs[i]})
    # metamorphic: layouts must agree on programs free of undefined behaviour
    rejected_idx = set(i for i, _, _ in rejections)
    nontrivial = 0
    for i, r in enumerate(results):
        if i in trivial or i in rejected_idx or i in direct:
            continue
        base = r["results"][0]
        if "stdout" not in base:
            continue
        if base["stdout"].strip():
            nontrivial += 1
        for x in r["results"][1:]:
            if x.get("stdout") != base["stdout"] or x.get("exit") != base.get("exit"):
                sig = ""
                if x.get("rejected"):
                    codes = ",".join(sorted(set("E%d" % d[0] for d in x.get("diags", []) or [])))
                    sig = " rejected" + (" " + codes if codes else "") + (" panic=" + "-".join(str(x["panic"]).split()[:4]) if x.get("panic") else "")
                elif "stdout" not in x:
                    sig = " crash"
                if x.get("split"):
                    # the same declarations split over lib.pn (everything but main, marked pub) and main.pn (imports it)
                    rep.violation("random-split", "program seed=%d index=%d :: split%s%s" % (seed, i, sig, split_shape(programs[i])),
                                  {"problem": "the program split over two files does not behave like the single file",
                                   "canonical": {"stdout": base["stdout"], "exit": base.get("exit")},
                                   "variant": {k: x.get(k) for k in ("stdout", "exit", "rejected", "diags", "crash", "panic")},
                                   "source": r["source"], "variant_source": x.get("source")})
                    continue
                rep.violation("random-layout", "program seed=%d index=%d :: layout%s" % (seed, i, sig),
                              {"problem": "formatting / comments / parentheses changed the result",
                               "canonical": {"stdout": base["stdout"], "exit": base.get("exit")},
                               "variant": {k: x.get(k) for k in ("stdout", "exit", "rejected", "diags", "crash", "panic")},
                               "source": r["source"], "variant_source": x.get("source")})
    log("[trace] %d random programs: %d traced, %d accepted by Trace_Machine, %d trivial (ub/fuel), %d rejected traces, %d not executable" %
        (len(programs), len(where), accepted, len(trivial), len(rejections), len(direct)))
    selftests = {}
    # binding self-test: corrupt one printed value of a non-trivial program and require rejection
    victim = None
    for ln_no, i in sorted(where.items()):
        if i not in trivial and i not in rejected_idx:
            blk = []
            for ln in lines[ln_no - 1:]:
                if ln["ev"] == "prog" and blk:
                    break
                blk.append(ln)
            if any(x["ev"] == "print" and len(x["v"]) == 16 for x in blk):
                victim = blk
                break
    if victim:
        corrupted = json.loads(json.dumps(victim))
        for x in corrupted:
            if x["ev"] == "print" and len(x["v"]) == 16:
                x["v"][0] = (x["v"][0] + 1) % 256
                break
        p = os.path.join(common.WORK, "%s-%d-selftest.ndjson" % (tag, os.getpid()))
        common.write_ndjson(p, corrupted)
        r = common.tlc_traces("Trace_Machine", cfg, [p])[0]
        selftests["corrupted_print_rejected"] = not r["accepted"]
    samples = []
    for i in range(min(2, len(programs))):
        samples.append({"random_program_source": results[i]["source"][:1500],
                        "stdout": results[i]["results"][0].get("stdout", "")[:300]})
    return {"programs": len(programs), "accepted": accepted - len(trivial), "trivial": len(trivial), "nontrivial": nontrivial,
            "states": states, "transitions": states, "selftests": selftests, "samples": samples}

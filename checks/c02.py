"""C02 -- the compiler never crashes and never fails silently (spec/Pipeline.tla, Trace_Pipeline.tla).

What decides what (said plainly): the observation "the process died / hung / panicked" is made by the
harness (isolated worker children, `penne emit` on a sample); the specification supplies the protocol
(order of calls, poison algebra), the invariants I1..I4 and the exhaustive part of the input space
(all token sequences up to the bound, all module sets up to the bound), and TLC decides for every
recorded run whether it is a behaviour of that protocol ending in a terminal state."""
import hashlib
import json
import os
import random
import re
import shutil
import subprocess
from concurrent.futures import ThreadPoolExecutor

from . import common
from . import pipeline_common as pc
from .common import log

DEFECT_CFGS = [
    ("MC_Pipeline_export.cfg", "I2", "export() keeps poisoned declarations => Poisoned without a root Error in the importer"),
    ("MC_Pipeline_noroot.cfg", "I1", "a stage may yield Poisoned without a root => failure with an empty error list"),
    ("MC_Pipeline_naive.cfg", "I3Naive", "naive I3 (without 'an earlier module failed first') is refuted for two modules"),
]


def classify(case, evs, rej):
    """(kind, key, message) for a run TLC rejected"""
    end, last = pc.end_of(evs)
    who = pc.ident(case)
    stage = "%s(m%s)" % (rej["after"][0], rej["after"][1])
    if end == "panic":
        at = pc.norm_path(last.get("at"))
        # hooks are add-only, so line numbers of /repo shift: the signature is file + message, the line is informative
        return ("panic", "%s | %s | line %s | %s" % (at.rsplit(":", 1)[0], last.get("msg", "")[:70].replace("\n", " "),
                                                      at.rsplit(":", 1)[-1], who),
                "the compiler panicked after %s: %s" % (stage, last.get("msg", "")[:300]))
    if end == "crash":
        return ("crash", "%s signal=%s after=%s | %s | %s" % (last.get("what"), last.get("signal"), stage, pc.tags_of(case), who),
                "the compiler process died (%s, signal %s) after %s; stderr: %s" %
                (last.get("what"), last.get("signal"), stage, last.get("stderr", "")[-400:]))
    if end == "hang":
        return ("hang", "no progress for %ss after=%s | %s | %s" % (last.get("secs"), stage, pc.tags_of(case), who),
                "the compiler made no progress for %s s (re-run alone with the longer limit) after %s" % (last.get("secs"), stage))
    if end == "internal":
        return ("internal", "%s: %s | %s" % (last.get("at"), last.get("msg", "")[:80].replace("\n", " "), who),
                "the driver would print `Error: %s` without any diagnostic" % last.get("msg", "")[:300])
    if end == "silent" or (rej["ev"] in ("resolve", "surface", "outcome") and any(
            e["ev"] in ("resolve", "surface") and e.get("ok") is False and not e.get("codes") for e in evs)):
        return ("silent", "failure with an empty error list at %s | %s | %s" % (stage, pc.tags_of(case), who),
                "compilation failed after %s but the list of errors is empty (fails silently)" % stage)
    return ("protocol", "rejected at %s after %s | %s" % (rej["ev"], stage, who),
            "the recorded run is not a behaviour of Pipeline.tla: event `%s` after %s is not allowed "
            "(order of calls, surface codes, cascade root, expected lexical code or expected outcome)" % (rej["ev"], stage))


TAG_RE = re.compile(r"\[(E\d{3}|L\d{4})\]")


def emit_one(penne, root, case, timeout):
    d = os.path.join(root, case["id"])
    shutil.rmtree(d, ignore_errors=True)
    os.makedirs(d)
    args = []
    for m in case["mods"]:
        name = m["name"]
        args.append(name)
        if name.startswith(("core:", "vendor:")):
            continue
        path = os.path.join(d, name)
        os.makedirs(os.path.dirname(path) or d, exist_ok=True)
        with open(path, "w", newline="") as f:
            f.write(m["src"])
    cmd = [penne, "emit", "--out-dir", "out", "--color", "never"] + (["--wasm"] if case.get("wasm") else []) + args
    try:
        p = subprocess.run(cmd, cwd=d, stdout=subprocess.PIPE, stderr=subprocess.PIPE, timeout=timeout,
                           env=dict(os.environ, RUST_BACKTRACE="0"))
        res = {"rc": p.returncode, "stderr": p.stderr.decode("utf-8", "replace"), "stdout": p.stdout.decode("utf-8", "replace")}
    except subprocess.TimeoutExpired:
        res = {"rc": "timeout", "stderr": "", "stdout": ""}
    res["ll"] = []
    for dp, dn, fn in os.walk(os.path.join(d, "out")):
        for f in fn:
            res["ll"].append(os.path.relpath(os.path.join(dp, f), os.path.join(d, "out")))
    shutil.rmtree(d, ignore_errors=True)
    return res


def compare_cli(case, end, last, res):
    """the real driver against the observed protocol outcome; returns (kind, message) or None"""
    rc = res["rc"]
    if rc == "timeout":
        return ("cli-hang", "penne emit did not finish within the limit")
    if isinstance(rc, int) and rc < 0:
        if end == "crash":
            return None          # the same crash, already reported from the worker
        return ("cli-crash", "penne emit was killed by signal %d; the library run ended as %s" % (-rc, end))
    if rc == 101:
        if end == "panic":
            return None
        return ("cli-crash", "penne emit panicked (exit 101); the library run ended as %s; stderr: %s" % (end, res["stderr"][-300:]))
    if end == "success":
        if rc != 0:
            return ("cli-mismatch", "library pipeline succeeds but penne emit exits with %s: %s" % (rc, res["stderr"][-300:]))
        # ... and the tool shows the lints of EVERY module (eighth round of seeded changes: it took them once, after its loop
        # over the modules): as many tags per lint code as the library pipeline collected
        want = sorted("L%d" % d["code"] for d in last.get("lints", []) if d.get("code", 0) >= 1000)
        got = sorted(t for t in TAG_RE.findall(res["stderr"] + res["stdout"]) if t.startswith("L"))
        if want != got:
            return ("cli-lints", "library pipeline collects the lints %s, penne emit shows %s" % (want, got))
        return None
    if end in ("failure", "silent", "internal"):
        if rc == 0:
            return ("cli-mismatch", "library pipeline fails (%s) but penne emit exits with 0" % end)
        if end == "failure":
            code = last["codes"][0]
            tag = "[%s%d]" % ("L" if code >= 1000 else "E", code)
            if tag not in res["stderr"]:
                return ("cli-mismatch", "penne emit exits with %s but does not render %s: %s" % (rc, tag, res["stderr"][-300:]))
        return None
    if end == "crash" and last.get("what") == "worker exited" and last.get("exit") == rc and not TAG_RE.search(res["stderr"]):
        return None              # the same death: LLVM's linker ends the process with this status (already reported from the worker)
    if end in ("panic", "crash", "hang"):
        return ("cli-mismatch", "the library run ended as %s but penne emit exits with %s" % (end, rc))
    return None


def isolation_selftest(work_prefix):
    """the parent must survive a hanging, an aborting and a panicking case and attribute each to the right input"""
    ok_src = "fn main() -> i32\n{\n\treturn: 1\n}\n"
    mk = lambda i, kind: {"id": i, "kind": kind, "wasm": False, "mods": [{"name": "s.pn", "src": ok_src}]}
    cases = [mk("s0", "selftest:ok"), mk("s1", "selftest:hang"), mk("s2", "selftest:ok"), mk("s3", "selftest:abort"),
             mk("s4", "selftest:panic"), mk("s5", "selftest:ok")]
    cpath, epath = work_prefix + "-iso-cases.ndjson", work_prefix + "-iso-events.ndjson"
    common.write_ndjson(cpath, cases)
    pc.pvh(["run", cpath, epath, "--timeout", "1", "--batch", "6"], timeout=300)
    ends = {}
    for inp, evs, _ in pc.grouped_events(epath):
        end, last = pc.end_of(evs)
        ends[inp["id"]] = (end, (last or {}).get("signal"))
    os.remove(cpath)
    os.remove(epath)
    return {"isolation_hang_abort_panic_attributed": ends == {"s0": ("success", None), "s1": ("hang", None), "s2": ("success", None),
                                                              "s3": ("crash", 6), "s4": ("panic", None), "s5": ("success", None)}}


def selftests(rep, meta, work_prefix):
    """corrupt recordings; every corruption must be rejected by TLC"""
    events = pc.paths(meta)["events"]
    groups = []
    for inp, evs, _ in pc.grouped_events(events):
        # (the first 4000 runs, and the nesting cells with a verdict wherever they are)
        if len(groups) < 4000 or inp.get("expect", {}).get("t") in ("e390", "no390"):
            groups.append((inp, evs))
    out = {}
    tests = []

    def find(pred):
        for i, (inp, evs) in enumerate(groups):
            if pred(inp, evs):
                return i
        return None

    def variant(name, idx, fn):
        if idx is None:
            return
        inp, evs = groups[idx]
        inp2, evs2 = fn(json.loads(json.dumps(inp)), json.loads(json.dumps(evs)))
        path = "%s-self-%s.ndjson" % (work_prefix, name)
        with open(path, "w") as f:
            for g_inp, g_evs in (groups[max(0, idx - 1)], (inp2, evs2), groups[min(len(groups) - 1, idx + 1)]):
                f.write(json.dumps(g_inp) + "\n")
                for e in g_evs:
                    f.write(json.dumps(e) + "\n")
        tests.append((name, path, inp["id"]))

    ok_idx = find(lambda i, e: pc.end_of(e)[0] == "success" and i["n"] == 1)
    fail_idx = find(lambda i, e: pc.end_of(e)[0] == "failure" and any(x["ev"] == "resolve" for x in e))
    lex_idx = find(lambda i, e: i.get("expect", {}).get("t") == "lex" and pc.end_of(e)[0] == "failure"
                   and all(d["line"] >= i["expect"]["line"] for d in e[-1]["diags"]))
    surf_idx = find(lambda i, e: pc.end_of(e)[0] == "failure" and any(x["ev"] == "surface" and x["codes"] for x in e))

    variant("dropped_outcome", ok_idx, lambda i, e: (i, e[:-1]))

    def silent(i, e):
        for x in e:
            if x["ev"] in ("resolve", "outcome"):
                x["codes"] = []
                if "diags" in x:
                    x["diags"] = []
        return i, e
    variant("empty_error_list", fail_idx, silent)

    def swapped(i, e):
        a = next(k for k, x in enumerate(e) if x["ev"] == "scope")
        e[a], e[a + 1] = e[a + 1], e[a]
        return i, e
    variant("calls_out_of_order", ok_idx, swapped)

    def wrong_code(i, e):
        i["expect"]["code"] = 999
        return i, e
    variant("lexeme_code_missing", lex_idx, wrong_code)

    def surface_dropped(i, e):
        for x in e:
            if x["ev"] == "surface" and x["codes"]:
                x["codes"] = x["codes"][:-1]
        return i, e
    variant("surface_check_drops_an_error", surf_idx, surface_dropped)

    def flipped(i, e):
        e[-1]["ok"] = False
        return i, e
    variant("success_reported_as_failure", ok_idx, flipped)

    # nesting at the documented bound: the verdict E390 / no E390 is TLC's (DepthOK): swap the expectations
    deep_idx = find(lambda i, e: i.get("expect", {}).get("t") == "e390" and pc.end_of(e)[0] == "failure")
    shallow_idx = find(lambda i, e: i.get("expect", {}).get("t") == "no390" and pc.end_of(e)[0] in ("success", "failure"))

    def expect_as(t):
        def fn(i, e):
            i["expect"]["t"] = t
            return i, e
        return fn
    variant("e390_shown_where_forbidden", deep_idx, expect_as("no390"))
    variant("e390_missing_where_demanded", shallow_idx, expect_as("e390"))
    if deep_idx is None or shallow_idx is None:
        out["nesting_cells_present"] = False

    res = pc.validate_traces("Trace_Pipeline", "Trace_Pipeline_plain.cfg", [p for _, p, _ in tests], parallel=6)
    by = {r["file"]: r for r in res}
    for name, path, cid in tests:
        out[name + "_rejected"] = any(r["id"] == cid for r in by[path]["rejects"]) or (
            name == "lexeme_code_missing" and any(r["id"] == cid for r in by[path]["notes"]))
        os.remove(path)
    return out


def run(rep, tier, seed, selftest):
    selftest = selftest or tier == "thorough"
    state0 = pc.repo_state()
    common.build_harness(pc.EXE)
    penne = pc.build_penne()
    meta = pc.ensure_run(tier, seed)
    p = pc.paths(meta)
    cases = pc.load_cases(p["cases"])
    mc_name = pc.TIERS[tier]["mc"]
    mc = meta["tlc"][mc_name]
    place_name = pc.TIERS[tier]["place"]
    if not mc.get("ok", True):
        rep.violation("model", "invariant %s of Pipeline.tla" % mc.get("violated"),
                      {"message": "TLC: the protocol model violates %s (design-level counterexample, see work/)" % mc.get("violated")})
    # ---- vacuity / design questions: defective variants of the protocol must violate the invariants
    self_results = {}
    if selftest:
        for cfg, inv, what in DEFECT_CFGS:
            r = common.tlc("MC_Pipeline", cfg, workers=pc.TLC_WORKERS, timeout=900, heap="4g",
                           tag="pipeline-defect-%s-%d" % (cfg.replace(".cfg", ""), os.getpid()), keep_output=False)
            self_results["%s_violates_%s" % (cfg.replace("MC_Pipeline_", "").replace(".cfg", ""), inv)] = (r.violated == inv)
            log("[tlc] %s: %s (%s)" % (cfg, "violates %s as expected" % inv if r.violated == inv else "UNEXPECTED: %s" % r.violated, what))
    # ---- impl -> spec: every recorded run against the protocol
    prefix = os.path.join(common.WORK, "pipeline-c02-%d" % os.getpid())
    files, nruns = pc.split_events(p["events"], prefix, parts=max(12, meta["events"] // 80000))
    results = pc.validate_traces("Trace_Pipeline", "Trace_Pipeline_plain.cfg", files, parallel=6)
    rejected = {}
    trace_states = 0
    hidden = []
    for r in results:
        trace_states += r["states"]
        for rej in r["rejects"]:
            rejected.setdefault(rej["id"], rej)
        for note in r["notes"]:
            if note.get("what") == "lexeme-code-hidden":
                hidden.append(note)
    for note in hidden[:3]:
        rep.note_drift("I3 (soft): the code E%s of the first invalid lexeme (line %s of %s) is hidden behind %s" %
                       (note["code"], note["line"], note["id"], note["shown"]))
    rep.drift += max(0, len(hidden) - 3)
    for f in files:
        os.remove(f)
    ends = {}
    nontrivial = set()
    by_kind = {}
    stats = {}
    sample_cases = []
    signatures = {}
    stack_pending = {}
    findings = pc.Findings()
    dup_notes = []
    for inp, evs, _ in pc.grouped_events(p["events"]):
        cid = inp["id"]
        end, last = pc.end_of(evs)
        ends[cid] = (end, last)
        stats[end] = stats.get(end, 0) + 1
        k = inp["kind"].split(":")[0]
        by_kind.setdefault(k, {}).setdefault(end, 0)
        by_kind[k][end] += 1
        ntok = sum(e.get("ntok", 0) for e in evs if e["ev"] == "lex")
        if ntok >= 2:
            nontrivial.add(hashlib.sha1(json.dumps([m["src"] for m in cases[cid]["mods"]]).encode()).hexdigest())
        if cid in rejected:
            kind, key, msg = classify(cases[cid], evs, rejected[cid])
            sig = (kind, " | ".join(key.split(" | ")[:2 if kind in ("panic", "internal") else 1]))
            signatures[sig] = signatures.get(sig, 0) + 1
            if inp["kind"] == "dup" and end == "crash" and last.get("what") == "worker exited":
                # the same module named twice is no SET of modules (outside the quantifier): LLVM's linker ends the process
                # ("symbol multiply defined"); noted -- two DIFFERENT modules that define the same public name are reported
                dup_notes.append("%s: %s" % (pc.ident(cases[cid]), (last.get("stderr") or "").strip().splitlines()[-1:][0:1]))
                continue
            if end == "crash" and last.get("what") == "stack overflow":
                # the worker is built with opt-level 1: decided below on the optimised `penne` binary
                stack_pending[cid] = (sig, kind, key, {"case": cases[cid], "events": evs[-6:], "rejected_at": rejected[cid],
                                                       "message": msg, "how": "bin/check C02 --replay <this file>"})
                continue
            findings.add(sig, kind, key, {"case": cases[cid], "events": evs[-6:], "rejected_at": rejected[cid], "message": msg,
                                          "how": "bin/check C02 --replay <this file>"})
        elif end not in ("success", "failure"):
            raise common.ToolError("run %s ended as %s but TLC accepted the trace" % (cid, end))
    verdict_cells = {}
    for cid_ in cases:
        if cid_.startswith(("shape", "wset")):
            t_ = cases[cid_].get("expect", {}).get("t", "free")
            verdict_cells.setdefault(t_, [0, 0])
            verdict_cells[t_][0] += 1
            verdict_cells[t_][1] += cid_ not in rejected
    for t_, least in (("e390", 30), ("no390", 25), ("valid", 200), ("set", 300), ("free", 1000)):
        if verdict_cells.get(t_, [0, 0])[1] < least:
            raise common.ToolError("only %s cells of MC_PipelineWide / PipelineShapes with the verdict `%s` were run and accepted (at least %d "
                                   "expected): the generators or their renderers are stale" % (verdict_cells.get(t_), t_, least))
    log("[trace] %d recorded runs validated by TLC against Pipeline.tla: %d accepted, %d rejected; ends: %s" %
        (nruns, nruns - len(rejected), len(rejected), json.dumps(stats, sort_keys=True)))
    for sig, cnt in sorted(signatures.items(), key=lambda x: -x[1]):
        log("[trace]   %4d x %s: %s" % (cnt, sig[0], sig[1]))
    for note in meta.get("notes", []):
        rep.note_drift("worker: %s" % json.dumps(note)[:300])
    if dup_notes:
        rep.note_drift("the same module named twice on the command line ends inside LLVM's linker without a diagnostic (%d inputs, e.g. %s)" %
                       (len(dup_notes), dup_notes[0]))
    # ---- the real driver on a 5 % sample (plus every anomalous run)
    rnd = random.Random(seed)
    ids = sorted(cases)
    sample = [i for i in ids if rnd.random() < 0.05 and len(json.dumps(cases[i])) < 200000]
    # ... and EVERY nesting input: the optimised binary has the 8 MiB stack of a main thread and its own frame sizes; the
    # bound of the property (depth 256) is close to what it can take (a fix of this session moved the limit across it)
    sample += [i for i in ids if cases[i].get("kind") == "nest"]
    # ... and successful runs of SEVERAL modules that collected lints (up to 300): what the tool shows per module
    linted = [i for i in ids if ends[i][0] == "success" and len(cases[i].get("mods", [])) >= 2 and ends[i][1].get("lints")]
    sample += linted[:300]
    # ... and the cells whose crash depends on what LLVM's C++ does with a value that is no integer constant (undefined
    # behaviour there: the optimised binary may die where the worker does not)
    sample += [i for i in ids if cases[i].get("kind") in ("shape:constdiv", "shape:opaque", "shape:target")]
    anomalies = [i for i in ids if ends[i][0] not in ("success", "failure")]
    anomalies = sorted(set(anomalies[:200] + [i for i in anomalies if i in stack_pending]))
    root = os.path.join(common.WORK, "pipeline-emit-%d" % os.getpid())
    os.makedirs(root, exist_ok=True)
    todo = sorted(set(sample + anomalies))
    with ThreadPoolExecutor(max_workers=int(pc.THREADS)) as ex:
        cli = list(ex.map(lambda i: emit_one(penne, root, cases[i], 30), todo))
    n_cli_bad = 0
    for cid, res in zip(todo, cli):
        if res["rc"] == "timeout":
            res = emit_one(penne, root, cases[cid], 240)       # alone, longer, before calling it a hang
        end, last = ends[cid]
        if cid in stack_pending:
            if isinstance(res["rc"], int) and res["rc"] < 0:
                sig, kind, key, detail = stack_pending.pop(cid)
                detail["cli"] = {"rc": res["rc"], "stderr": res["stderr"][-300:]}
                findings.add(sig, kind, key, detail)
            else:
                stack_pending.pop(cid)
                rep.note_drift("%s: stack overflow in the worker (opt-level 1) but the optimised penne binary ends with status %s" % (cid, res["rc"]))
            continue
        bad = compare_cli(cases[cid], end, last, res)
        if bad:
            n_cli_bad += 1
            log("[cli]   %s: %s (%s)" % (cid, bad[1][:200].replace("\n", " "), pc.ident(cases[cid])))
            findings.add((bad[0], str(res["rc"])), bad[0], "%s | library=%s cli=%s | %s" % (bad[0], end, res["rc"], pc.ident(cases[cid])),
                         {"case": cases[cid], "cli": {k: (v[-600:] if isinstance(v, str) else v) for k, v in res.items()},
                          "message": bad[1]})
    shutil.rmtree(root, ignore_errors=True)
    pc.assert_same_tree(state0)
    findings.flush(rep)
    log("[cli] penne emit on %d inputs (5%% sample + %d anomalous runs): %d disagreements with the library pipeline" %
        (len(todo), len(anomalies), n_cli_bad))
    if selftest:
        self_results.update(selftests(rep, meta, prefix))
        self_results.update(isolation_selftest(prefix))
        log("[selftest] %s" % json.dumps(self_results))
        for name, ok in self_results.items():
            if not ok:
                raise common.ToolError("self-test %s failed: the binding does not detect it" % name)
    for cid in ids[:2] + [i for i in ids if i.startswith("mut")][:2] + [i for i in ids if i.startswith("multi")][:1]:
        c = cases[cid]
        sample_cases.append({"id": cid, "kind": c["kind"], "modules": [m["name"] for m in c["mods"]],
                             "source_head": c["mods"][0]["src"][:160], "end": ends[cid][0],
                             "codes": (ends[cid][1] or {}).get("codes")})
    tl = meta["tlc"]
    coverage = {
        "evaluations": meta["cases"],
        "distinct_nontrivial": len(nontrivial),
        "rule": "inputs: every token sequence up to the bound over the %d-symbol alphabet at top level and in a function body "
                "(TLC, PipelineTokens.tla), every module set of MC_Pipeline (TLC), every statement placement of MC_Placement up to 6 tokens (TLC) "
                "compiled through the whole pipeline, seeded mutants of all corpus files (delete/duplicate/swap/replace/insert/splice/"
                "truncate one token; swap/delete/duplicate/move one LINE), structure/word programs with shuffled literals, token soup, 16 nesting shapes up to depth 256, "
                "near-valid programs with one lexical fault, generated 2-3-module sets; each run in an isolated child process, "
                "every event sequence validated by TLC against Pipeline.tla. Also from TLC: module sets of 4-6 modules in 8 import topologies "
                "(MC_PipelineWide) and the structured cells of PipelineShapes.tla (every builtin x arguments x context x modules, nesting at the "
                "documented bound of 127 with the E390 verdict, exact sizes up to 64 KiB, symbol-table shapes, names shared between modules); layout "
                "variants of every invalid sample, repeated modules. Non-trivial = distinct source texts with >= 2 tokens." % 95,
        "samples": sample_cases,
        "states": mc["distinct"] + sum(v["distinct"] for k, v in tl.items() if k not in (mc_name, place_name) and not v.get("foreign")),
        "transitions": mc["generated"] + sum(v["generated"] for k, v in tl.items() if k not in (mc_name, place_name) and not v.get("foreign")),
        "traces_validated_against_impl": nruns - len(rejected),
        "traces_rejected": len(rejected),
        "trace_states": trace_states,
        "tlc": tl,
        "ends": stats,
        "rejection_signatures": {"%s: %s" % k: v for k, v in signatures.items()},
        "ends_by_input_kind": by_kind,
        "from_tlc": meta["from_tlc"],
        "cells_with_verdict_run_and_accepted": verdict_cells,
        "lexeme_code_hidden_behind_consequential_error": len(hidden),
        "cli_runs": len(todo),
        "cli_disagreements": n_cli_bad,
        "worker_notes": meta.get("notes", []),
        "selftests": self_results,
        "exhaustive": False,
        "observation_note": "the observation 'the process died / hung / panicked' is made by the harness; the specification supplies "
                            "protocol, invariants and the exhaustive part of the input space",
    }
    assumptions = [
        "the worker drives the library in the order compile_to_ir_using_alpha uses (harness/src/pipeline/drive.rs); "
        "that this is the order of the real driver is checked on the 5% sample run through `penne emit`",
        "declare/type/analyze/lint happen inside one call and are not observable without hooks; the trace event `resolve` stands "
        "for the composite step whose summary (fails => >= 1 code) TLC checks on Pipeline.tla",
        "a crash is reported only if it reproduces in a process of its own; a hang only after a re-run alone with a 6x limit",
        "CLI-level observations use the optimised build (cargo build --release) with the default 8 MiB main-thread stack; the worker "
        "is built with opt-level 1; a stack overflow counts only if the optimised binary shows it too",
    ]
    # the recogniser of the documented grammar (spec/SyntaxRules.tla, docs/notes-syntax.md): this check receives the kinds of
    # discrepancy that belong to its property (syntax_part.PROPERTY_KINDS); one computation is shared by C02, C13, C15, C16
    from . import syntax_part
    syn = syntax_part.run_part(rep, tier, seed, selftest)
    coverage["syntax_part"] = syn
    coverage["states"] = coverage.get("states", 0) + syn["states"]
    coverage["transitions"] = coverage.get("transitions", 0) + syn["transitions"]
    coverage["traces_validated_against_impl"] = coverage.get("traces_validated_against_impl", 0) + syn["cases_replayed"] + syn["traces_accepted"]
    coverage["evaluations"] = coverage.get("evaluations", 0) + syn["evaluations"]
    return rep.finish("exploration", coverage, assumptions)


def replay(path):
    if json.load(open(path)).get("detail", {}).get("part") == "syntax":
        from . import syntax_part
        return syntax_part.replay(path)
    d = json.load(open(path))
    print("kind:", d["kind"])
    print("key: ", d["key"])
    print("message:", d["detail"].get("message"))
    case = d["detail"].get("case")
    if case is None:
        print(json.dumps(d, indent=1))
        return 0
    tmp = os.path.join(common.WORK, "pipeline-replay-%d.json" % os.getpid())
    json.dump(case, open(tmp, "w"))
    p = pc.pvh(["show", tmp], check=False)
    print(p.stdout)
    os.remove(tmp)
    return 0

"""C16 -- the second-generation parser builds a faithful parse tree (spec/PenneGrammar.tla, PenneAst.tla,
Trace_Grammar.tla).

spec -> impl: TLC derives every module of each focus up to the bound together with its own syntax tree
(R: Parse(Toks(ast)) = ast by construction); every derived module is rendered in K random layouts and parsed by the
real second-generation lexer+parser (XML dump -> tree) and by the first generation; the three trees must be equal and
the dump well formed.
impl -> spec: larger random modules (TLC simulation mode) and the corpus are run through the real delta lexer and
parser; TLC (Trace_Grammar.tla) re-parses the recorded token stream along the recorded tree.
"""
import json
import os
import random

from . import common, grammar_cfgs, grammar_common as gc, grammar_reps
from .common import log

LAYOUTS = {"quick": 2, "thorough": 6}      # seeded random layouts (0 = single spaces); one systematic layout is added per module
SPECIAL_LAYOUT, N_SPECIAL_LAYOUTS = 100, 3     # harness/src/grammar/render.rs: SPECIAL, N_SPECIAL
# Every cell is re-parsed by Trace_Grammar except the nests of LISTS (f(f(..)), [[..]], S { m: S { .. } }): the grammar
# offers an optional trailing comma per list, which the trace specification can only refute at the closing bracket, i.e.
# 2^depth open alternatives (measured: 1.2 million states and no end for depth 130).
UNTRACEABLE_DEEP = {"call", "array", "structural", "mixed"}
SIM = {"quick": 200, "thorough": 3000}
TRACE_SAMPLE = {"quick": 1500, "thorough": 12000}


class Findings:
    """Discrepancies aggregated by (kind, key): a key names a failure signature or an input shape, so that thousands
    of inputs hitting one defect give one report (with examples) and everything else is still reported."""

    def __init__(self):
        self.by_key = {}

    def add(self, kind, key, example):
        e = self.by_key.setdefault((kind, key), {"count": 0, "examples": []})
        e["count"] += 1
        if len(e["examples"]) < 4:
            e["examples"].append(example)

    def report(self, rep, seed):
        order = ["delta-panic", "delta-xml", "delta-tree", "delta-rejects-valid", "alpha-panic", "alpha-tree",
                 "panic", "rebuild-error", "rebuild-unparsable", "rebuild-tree", "rebuild-unstable", "corpus-tree", "trace"]
        rank = lambda kk: (order.index(kk[0][0]) if kk[0][0] in order else len(order), kk[0])
        for (kind, key), e in sorted(self.by_key.items(), key=rank):
            new = rep.violation(kind, key, {"kind": kind, "key": key, "inputs_affected_this_run": e["count"], "seed": seed,
                                            "examples": e["examples"], "how": "bin/check %s --replay <this file>" % rep.prop})
            if not new:
                # matched a known finding: let the KNOWN-FINDING line count the inputs, not the keys
                k = rep.match_known(kind, key)
                if k is not None:
                    rep.known_hits[k["id"]].extend([key] * (e["count"] - 1))


def example(case, layout, d, a, message):
    return {"case": {"id": case["id"], "focus": case.get("focus"), "cell": case.get("cell"), "toks": case["toks"], "tree": case["tree"]},
            "source_tokens": gc.canon(case)[:4000], "layout": layout, "message": message, "delta": d, "alpha": a}


def compare_case(case, obs, k, fnd, stats, rep):
    exp = case["tree"]
    unconstrained = case["focus"] in gc.UNCONSTRAINED
    d0, a0 = obs["d"][0], obs["a"][0]
    # k seeded random layouts, then one systematic layout (harness render.rs: SPECIAL + id % 3)
    for jj in range(len(obs["d"])):
        j = jj if jj < k else SPECIAL_LAYOUT + case["id"] % N_SPECIAL_LAYOUTS
        d = d0 if obs["d"][jj] == "=" else obs["d"][jj]
        a = a0 if obs["a"][jj] == "=" else obs["a"][jj]
        stats["evaluations"] += 1
        if jj >= k:
            stats["systematic_layouts"] = stats.get("systematic_layouts", 0) + 1
        # ---- first generation (reference) ----------------------------------------------------------------
        alpha_tree = None
        alpha_rejects = False
        if a == "=d":
            alpha_tree = d["tree"]
        elif a["o"] == "ok":
            alpha_tree = a["tree"]
            if a.get("issues"):
                rep.note_drift("first-generation tree outside the exchange format: %s" % a["issues"][:2])
        elif a["o"] == "rejected":
            alpha_rejects = True
            stats["alpha_rejects"] += 1
            if not unconstrained:
                rep.note_drift("the specification derives `%s` but the first generation rejects it (%s)" % (gc.shape_key(case)[:160], a.get("codes")))
        else:
            fnd.add("alpha-panic", gc.panic_signature(a.get("panic")), example(case, j, None, a, "the first-generation parser panicked"))
        if alpha_tree is not None and alpha_tree != exp:
            fnd.add("alpha-tree", gc.tree_diff_key(exp, alpha_tree),
                    example(case, j, None, a if a != "=d" else {"tree": alpha_tree}, "the first-generation tree differs from the module's own syntax tree"))
        # ---- second generation ---------------------------------------------------------------------------
        if d["o"] == "panic":
            fnd.add("delta-panic", gc.panic_signature(d.get("panic")), example(case, j, d, None, "the second-generation parser panicked on a valid module"))
            stats["delta_panics"] += 1
        elif d["o"] == "rejected":
            if unconstrained or alpha_rejects:
                stats["unconstrained_rejected"] += 1
            else:
                fnd.add("delta-rejects-valid", "%s %s" % (sorted(set(d.get("codes") or [])), gc.shape_key(case)),
                        example(case, j, d, None, "a syntactically valid module is rejected by the second-generation %s" % d.get("stage")))
        else:
            for issue in d.get("wf", []):
                fnd.add("delta-xml", issue, example(case, j, {"wf": d["wf"]}, None, "the XML dump is not well formed"))
            if d["tree"] != exp:
                fnd.add("delta-tree", ("undocumented form: " if unconstrained else "") + gc.tree_diff_key(exp, d["tree"]),
                        example(case, j, d, None, "the second-generation tree differs from the module's own syntax tree"))
            else:
                stats["delta_tree_equal"] += 1
                if alpha_tree == exp:
                    stats["three_way_equal"] += 1


def nontrivial(case):
    kinds = gc.node_kinds(case["tree"])
    return sum(kinds.values()) >= 4


def check_corpus(rep, fnd, stats, tag):
    obs = gc.run_corpus(tag)
    both = 0
    samples = []
    records = []
    for o in obs:
        if "unreadable" in o:
            raise common.ToolError("corpus file unreadable: %s" % o["file"])
        d, a = o["d"], o["a"]
        pseudo = {"id": o["rel"], "focus": "corpus", "toks": [], "tree": None, "src_file": o["file"]}
        ex = lambda msg: {"file": o["rel"], "message": msg, "delta": {k: v for k, v in d.items() if k != "tree"},
                          "alpha": {k: v for k, v in a.items() if k != "tree"}}
        if a["o"] == "panic":
            fnd.add("alpha-panic", gc.panic_signature(a.get("panic")), ex("the first-generation parser panicked"))
            continue
        if a["o"] != "ok":
            stats["corpus_alpha_rejects"] += 1
            continue
        if d["o"] == "panic":
            fnd.add("delta-panic", gc.panic_signature(d.get("panic")), ex("the second-generation parser panicked on a corpus file"))
            stats["delta_panics"] += 1
            continue
        if d["o"] == "rejected":
            fnd.add("delta-rejects-valid", "corpus %s %s" % (o["rel"], d.get("codes")), ex("corpus file accepted by generation 1 is rejected by generation 2"))
            continue
        both += 1
        for issue in d.get("wf", []):
            fnd.add("delta-xml", issue, ex("the XML dump is not well formed"))
        if d["tree"] != a["tree"]:
            fnd.add("corpus-tree", "%s: %s" % (o["rel"], gc.diff_signature(a["tree"], d["tree"])),
                    ex("the two parsers build different trees (expected = first generation, observed = second)"))
        else:
            stats["corpus_equal"] += 1
            if len(samples) < 2:
                samples.append({"file": o["rel"], "nodes": len(o["rec"].get("pre", []))})
        rec = o["rec"]
        rec["id"] = o["rel"]
        records.append(rec)
    stats["corpus_files"] = len(obs)
    stats["corpus_both_accept"] = both
    log("[corpus] %d files, %d accepted by both parsers, %d with equal trees" % (len(obs), both, stats["corpus_equal"]))
    return records, samples


def run(rep, tier, seed, selftest):
    selftest = selftest or tier == "thorough"
    common.build_harness()
    os.makedirs(common.WORK, exist_ok=True)
    k = LAYOUTS[tier]
    d = gc.derive(tier)
    total = d["count"]
    missing = gc.production_coverage(d["coverage"])
    if missing:
        raise common.ToolError("vacuity: productions never applied by any focus: %s" % missing)
    fnd = Findings()
    stats = {key: 0 for key in ("evaluations", "alpha_rejects", "delta_panics", "unconstrained_rejected", "delta_tree_equal",
                                "three_way_equal", "corpus_equal", "corpus_alpha_rejects", "corpus_files", "corpus_both_accept")}
    # ---- 1. spec -> impl: every derived module, k layouts, both parsers (streamed) ---------------------------
    obs_path = os.path.join(common.WORK, "C16-obs.ndjson")
    killers = gc.pvh_cases("replay", d["cases_path"], obs_path, [k, seed], layouts=k + 1)
    nontriv = 0
    samples = []
    rnd = random.Random(seed)
    sample_ids = set(rnd.sample(range(total), min(4, total)))
    trace_ids = set(rnd.sample(range(total), min(TRACE_SAMPLE[tier] * 2 // 3, total)))
    trace_pool = []
    swap_target = None
    kinds = {}
    reps = {}
    cells_seen = {}
    eof_kinds = set()
    n_obs = 0
    with open(obs_path) as f:
        for case, line in zip(gc.iter_cases(d["cases_path"]), f):
            obs = json.loads(line)
            n_obs += 1
            if "toolerror" in obs:
                raise common.ToolError("renderer: %s (case %s)" % (obs["toolerror"], case["id"]))
            if obs["id"] != case["id"]:
                raise common.ToolError("replay output out of order")
            compare_case(case, obs, k, fnd, stats, rep)
            grammar_reps.measure(case, reps)
            ck = gc.node_kinds(case["tree"])
            for kk, vv in ck.items():
                kinds[kk] = kinds.get(kk, 0) + vv
            if sum(ck.values()) >= 4:
                nontriv += 1
            if case["id"] in sample_ids:
                samples.append({"source_tokens": gc.canon(case), "expected_tree": case["tree"], "delta_layout0": obs["d"][0], "alpha_layout0": obs["a"][0]})
            if case["id"] in trace_ids or (case["focus"] == gc.CELLS and not (case["cell"]["fam"] == "deep" and case["cell"]["what"] in UNTRACEABLE_DEEP)):
                trace_pool.append(case)
            if case["focus"] == gc.CELLS:
                fam = case["cell"]["fam"]
                cells_seen[fam] = cells_seen.get(fam, 0) + 1
            if case["id"] % N_SPECIAL_LAYOUTS == 0 and case["tree"].get("decls"):
                # the systematic layout without an end of line: which production is the last thing in the file
                last = case["tree"]["decls"][-1]
                eof_kinds.add("opaque struct" if last.get("opaque") else last["k"])
            if swap_target is None and selftest and case["focus"] in ("exprs", "ops") and "bin" in ck \
                    and obs["d"][0].get("o") == "ok" and obs["d"][0]["tree"] == case["tree"]:
                t = json.loads(json.dumps(case["tree"]))
                if swap_first_bin(t):
                    swap_target = (case, obs, t)
    if n_obs != total:
        raise common.ToolError("replay returned %d observations for %d cases" % (n_obs, total))
    missing_eof = {"fn", "head", "const", "struct", "opaque struct", "word", "import"} - eof_kinds
    if missing_eof:
        raise common.ToolError("vacuity: no module in the layout without a final end of line ends with the declarations %s" % sorted(missing_eof))
    shallow = grammar_reps.missing(reps)
    if shallow:
        raise common.ToolError("vacuity: repetitions not reached by the exhaustive derivation (have, need): %s" % shallow)
    log("[replay] %d modules x %d layouts through both parsers: %d second-generation trees equal to the specification's, "
        "%d three-way equal, %d panics" % (total, k, stats["delta_tree_equal"], stats["three_way_equal"], stats["delta_panics"]))
    # ---- 2. corpus: first- vs second-generation tree ----------------------------------------------------------
    corpus_records, corpus_samples = check_corpus(rep, fnd, stats, "C16")
    # ---- 3. impl -> spec: Trace_Grammar re-parses what the real lexer and parser reported ------------------
    sim_cases = gc.simulate(SIM[tier], seed, "C16")
    take = TRACE_SAMPLE[tier]
    trace_cases = sim_cases[:take // 3] + trace_pool
    tc_path = os.path.join(common.WORK, "C16-trace-cases.ndjson")
    tr_path = os.path.join(common.WORK, "C16-trace-rec.ndjson")
    for i, c in enumerate(trace_cases):
        c["tid"] = i
    common.write_ndjson(tc_path, [{"id": c["tid"], "toks": c["toks"]} for c in trace_cases])
    killers += gc.pvh_cases("record", tc_path, tr_path, [4, seed])
    records = common.read_ndjson(tr_path)
    by_tid = {c["tid"]: c for c in trace_cases}
    sim_equal = 0
    for r in records:
        if "toolerror" in r:
            raise common.ToolError("renderer: %s" % r["toolerror"])
        c = by_tid[r["id"]]
        if r["o"] == "panic":
            fnd.add("delta-panic", gc.panic_signature(r.get("panic")), example(c, r.get("layout"), r, None, "the second-generation parser panicked on a valid module"))
            stats["delta_panics"] += 1
        elif r["o"] == "rejected" and c["focus"] not in gc.UNCONSTRAINED:
            fnd.add("delta-rejects-valid", "%s %s" % (sorted(set(r.get("codes") or [])), gc.shape_key(c)),
                    example(c, r.get("layout"), r, None, "a valid module is rejected"))
        elif r["o"] == "ok":
            for issue in r.get("wf", []):
                fnd.add("delta-xml", issue, example(c, r.get("layout"), {"wf": r["wf"]}, None, "the XML dump is not well formed"))
    all_records = [r for r in records if r["o"] == "ok"] + corpus_records
    untraceable = len([r for r in all_records if not gc.traceable(r)])
    all_records = [r for r in all_records if gc.traceable(r)]
    accepted, rejected = gc.validate_traces(all_records, "C16")
    for rj in rejected:
        r = rj["record"]
        c = by_tid.get(r["id"]) if not isinstance(r["id"], str) else None
        what = (gc.cell_label(c) or gc.canon(c)) if c else "corpus %s" % r["id"]
        node = r["pre"][rj["node_index"]] if rj["node_index"] < len(r["pre"]) else "<end of tree>"
        fnd.add("trace", "%s @node %d %s" % (what[:300], rj["node_index"], json.dumps(node, sort_keys=True)),
                {"message": "the tree the real parser reported is not a parse of the token stream the real lexer produced, "
                            "according to the grammar of the specification (Trace_Grammar.tla stops at this node)",
                 "node_index": rj["node_index"], "node": node, "tokens": r["toks"], "pre": r["pre"],
                 "case": ({"id": c["id"], "focus": c["focus"], "toks": c["toks"], "tree": c["tree"]} if c else None), "file": (r["id"] if not c else None),
                 "layout": r.get("layout")})
    log("[trace] %d recordings (%d random larger modules from TLC simulation, %d derived, %d corpus files) re-parsed by TLC: %d accepted, %d rejected" %
        (len(all_records), len([c for c in trace_cases if c["focus"] == "sim"]), len([c for c in trace_cases if c["focus"] != "sim"]),
         len(corpus_records), len(accepted), len(rejected)))
    # ---- 4. self-tests of the binding -----------------------------------------------------------------------
    selftests = {}
    if selftest:
        selftests = run_selftests(swap_target, k, all_records)
        log("[selftest] %s" % json.dumps(selftests))
        for name, ok in selftests.items():
            if not ok:
                raise common.ToolError("self-test %s failed: the binding does not detect a corrupted observation" % name)
    fnd.report(rep, seed)
    coverage = {
        "states": d["states"],
        "transitions": d["transitions"],
        "traces_validated_against_impl": stats["evaluations"] + len(accepted),
        "samples": samples + [{"corpus": corpus_samples}],
        "evaluations": stats["evaluations"] + stats["corpus_both_accept"] + len(all_records),
        "distinct_nontrivial": nontriv,
        "rule": "R: Parse(Toks(ast)) = ast. TLC derives, per focus of the grammar (declarations, types, statement sequences, nesting, "
                "expressions/precedence, operator spellings, lists, long argument lists, conditions, literal atoms, undocumented-but-accepted forms), "
                "every module up to MaxNodes syntax nodes together with its own tree (one action per production; invariants TreeOK, ToksAgree); "
                "each is rendered in %d seeded random layouts (spaces, tabs, newlines, comments) and parsed by the real second-generation "
                "lexer+parser (as_xml -> tree, well-formedness of the dump) and by the first generation; all three trees must be equal "
                "(names, flags, types, statement order, operators and operand order, nesting, literal values and suffixes). Corpus files accepted by "
                "both parsers: first- vs second-generation tree (the specification side is their re-parse by Trace_Grammar). impl->spec: random "
                "larger modules from TLC simulation, a sample of the derived ones and the corpus files are lexed and parsed by the real code and the "
                "recorded token stream is re-parsed by TLC along the recorded tree. Non-trivial = derived modules with at least 4 syntax nodes." % k,
        "exhaustive": True,
        "modules_derived": total,
        "layouts_per_module": k + 1,
        "systematic_layouts": "one per module after the %d random ones, in turn by module number: no white space and no end of line at the end of the file / "
                              "a comment in every gap, the file ends inside a comment / an end of line in every gap" % k,
        "modules_that_killed_the_harness_process": len(killers),
        "cells_replayed_per_family": cells_seen,
        "declarations_that_end_a_file_without_end_of_line": sorted(eof_kinds),
        "cell_sizes": grammar_cfgs.CELLS[tier],
        "per_focus": d["per_focus"],
        "production_coverage": d["coverage"],
        "productions_never_applied": missing,
        "node_kinds_derived": kinds,
        "repetitions_reached": reps,
        "repetitions_required": grammar_reps.REQUIRED,
        "second_generation_trees_equal_to_spec": stats["delta_tree_equal"],
        "three_way_equal": stats["three_way_equal"],
        "second_generation_panics": stats["delta_panics"],
        "undocumented_forms_rejected_by_generation_2": stats["unconstrained_rejected"],
        "derived_modules_rejected_by_generation_1": stats["alpha_rejects"],
        "corpus_files": stats["corpus_files"],
        "corpus_accepted_by_both": stats["corpus_both_accept"],
        "corpus_equal_trees": stats["corpus_equal"],
        "corpus_rejected_by_generation_1": stats["corpus_alpha_rejects"],
        "trace_recordings": len(all_records),
        "trace_accepted": len(accepted),
        "trace_rejected": len(rejected),
        "recordings_with_an_unreadable_dump_not_walked": untraceable,
        "distinct_findings": len(fnd.by_key),
        "tlc_derivation_reused_from_cache": bool(d.get("cached")),
        "selftests": selftests,
    }
    assumptions = [
        "Norm (justified by `same abstract syntax`): a negative literal folded by generation 1 (`-128`) is compared as unary minus applied to the literal, which is what the source says and what generation 2 keeps; "
        "the `return:` label that introduces the result expression is not a statement of its own; `x` in a structure literal stands for `x: x` (both parsers expand it); "
        "adjacent string pieces denote one string (their bytes concatenated); locations and inferred types are ignored",
        "literal values are compared as values: integers from the `value` attribute of the dump vs. the value TLC computes from the digits (Wide.tla), strings by decoding the spelling shown in the dump",
        "precedence/associativity are not documented; the grammar's levels follow what src/alpha/parser.rs accepts (DESIGN.md section 5 C16) -- a module the first generation rejects is reported as MODEL-DRIFT, not as a violation",
        "focus `undoc` derives a form the documents do not show but generation 1 accepts (|&x|): rejection by generation 2 is accepted there, a panic or a different tree is reported",
        "corpus: the specification side is absent for hand-written files; first- and second-generation trees are compared with each other and the second-generation recording is re-parsed by TLC",
        "the XML reader repairs what it reports (mismatched closing tag, element self-closed and closed again) so that the rest of the tree is still compared",
    ]
    # the recogniser of the documented grammar (spec/SyntaxRules.tla, docs/notes-syntax.md): this check receives the kinds of
    # discrepancy that belong to its property (syntax_part.PROPERTY_KINDS); one computation is shared by C02, C13, C15, C16
    from . import syntax_part
    syn = syntax_part.run_part(rep, tier, seed, selftest)
    coverage["syntax_part"] = syn
    coverage["states"] = coverage.get("states", 0) + syn["states"]
    coverage["transitions"] = coverage.get("transitions", 0) + syn["transitions"]
    coverage["traces_validated_against_impl"] = coverage.get("traces_validated_against_impl", 0) + syn["cases_replayed"] + syn["traces_accepted"]
    coverage["evaluations"] = coverage.get("evaluations", 0) + syn["evaluations"]
    return rep.finish("model_checking", coverage, assumptions)


def run_selftests(target, k, records):
    """corrupt observations / recordings; every corruption must be detected"""
    out = {}
    # (a) operand swap in the expected tree of a module with a binary operator whose operands differ
    if target:
        c, o, t = target
        fake = dict(c)
        fake["tree"] = t
        f2 = Findings()
        st = {key: 0 for key in ("evaluations", "alpha_rejects", "delta_panics", "unconstrained_rejected", "delta_tree_equal", "three_way_equal")}
        compare_case(fake, o, k, f2, st, DummyRep())
        out["swapped_operands_detected"] = any(kind == "delta-tree" for kind, _ in f2.by_key)
    else:
        out["swapped_operands_detected"] = False
    # (c) a module that kills the harness process is isolated and reported for that module only
    if target:
        c = target[0]
        tin = os.path.join(common.WORK, "C16-selftest-crash-cases.ndjson")
        tout = os.path.join(common.WORK, "C16-selftest-crash-obs.ndjson")
        cs = [dict(c, id=1000 + i) for i in range(9)]
        common.write_ndjson(tin, cs)
        dead = gc.pvh_cases("replay", tin, tout, [1, 1], layouts=2, env={"PVH_GRAMMAR_TEST_CRASH_ID": "1004"})
        obs = common.read_ndjson(tout)
        out["process_death_isolated"] = dead == [1004] and [o["id"] for o in obs] == [x["id"] for x in cs] \
            and [("crash" in o) for o in obs] == [x["id"] == 1004 for x in cs]
    # (b) a recording with two tokens exchanged / an operator changed must be rejected by Trace_Grammar
    good = [r for r in records if r.get("o") == "ok" and len(r["toks"]) >= 8][:1]
    if good:
        r = good[0]
        bad1 = dict(r, id="selftest-swap", toks=list(r["toks"]))
        i = next(x for x in range(len(bad1["toks"]) - 1) if bad1["toks"][x] != bad1["toks"][x + 1])
        bad1["toks"][i], bad1["toks"][i + 1] = bad1["toks"][i + 1], bad1["toks"][i]
        bad2 = dict(r, id="selftest-drop", pre=r["pre"][:-1])
        acc, rej = gc.validate_traces([dict(r, id="selftest-good"), bad1], "C16-selftest-a", chunks=1)
        out["exchanged_tokens_rejected"] = "selftest-good" in acc and any(x["record"]["id"] == "selftest-swap" for x in rej)
        acc, rej = gc.validate_traces([bad2], "C16-selftest-b", chunks=1)
        out["dropped_node_rejected"] = len(rej) == 1
    return out


class DummyRep:
    def note_drift(self, msg):
        pass


def swap_first_bin(t):
    if isinstance(t, dict):
        if t.get("k") == "bin" and t["l"] != t["r"]:
            t["l"], t["r"] = t["r"], t["l"]
            return True
        return any(swap_first_bin(v) for v in t.values())
    if isinstance(t, list):
        return any(swap_first_bin(v) for v in t)
    return False


def replay(path):
    if json.load(open(path)).get("detail", {}).get("part") == "syntax":
        from . import syntax_part
        return syntax_part.replay(path)
    d = json.load(open(path))
    det = d["detail"]
    print("property C16   kind=%s\nkey=%s\ninputs affected in that run: %s" % (d["kind"], d["key"], det.get("inputs_affected_this_run")))
    seed = det.get("seed", 1)
    for ex in det.get("examples", [det]):
        print("=" * 100)
        print(ex.get("message", ""))
        if ex.get("case"):
            tmp = os.path.join(common.WORK, "C16-replay-case.json")
            json.dump(ex["case"], open(tmp, "w"))
            p = common.pvh(["show", tmp, ex.get("layout") or 0, seed], exe_name=gc.EXE)
            print(p.stdout)
            print("--- the module's own syntax tree (specification) ---")
            print(json.dumps(ex["case"]["tree"]))
        elif ex.get("file"):
            f = os.path.join(common.REPO, ex["file"])
            print("corpus file", f)
            print(common.pvh(["project-delta", f], exe_name=gc.EXE).stdout[:3000])
            print(common.pvh(["project-alpha", f], exe_name=gc.EXE).stdout[:3000])
        else:
            print(json.dumps(ex, indent=1)[:4000])
    return 0

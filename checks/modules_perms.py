"""C11 part (c): generated valid programs under random permutations of their top-level declarations.
The rule (Trace_Containers.tla, action TPerms): a module is a SET of declarations -- every order is
accepted and all orders print the same and exit alike."""
import json
import os

from . import common
from . import modules_util as mu
from .common import log

COUNT = {"quick": (400, 6, 8), "thorough": (5000, 8, 12)}   # programs, orders per program, files


def run(rep, tier, seed, selftest, st):
    count, nperms, chunks = COUNT[tier]
    prefix = os.path.join(common.WORK, "C11-ptrace")
    mu.pvh(["record-perms", count, seed, prefix, chunks, nperms], timeout=3000)
    files = [f for f in ("%s.%d.ndjson" % (prefix, c) for c in range(chunks)) if os.path.exists(f)]
    programs = 0
    executions = 0
    nonidentity = 0
    shared = 0
    for f in files:
        for line in open(f):
            if '"ev":"toolerror"' in line:
                raise common.ToolError("generator/projection: " + line[:400])
            r = json.loads(line)
            programs += 1
            shared += 1 if r.get("shared", 0) >= 2 else 0
            executions += len(r["runs"])
            nonidentity += sum(1 for x in r["runs"] if x["order"] != sorted(x["order"]))
    before = len(rep.violations)

    def on_stuck(lines, unmatched):
        r = json.loads(lines[0])
        runs = r.get("runs", [])
        summary = [{"order": x["order"], "ok": x["ok"], "diags": x.get("diags"), "panic": x.get("panic"),
                    "exit": x["exit"], "out": x["out"][:200]} for x in runs]
        if r.get("died"):
            problem = "crash"
        elif not all(x["ok"] for x in runs):
            problem = "rejected-in-some-order" if any(x["ok"] for x in runs) else "rejected-valid"
        else:
            problem = "behaviour-differs"
        rep.violation("perms/" + problem, "seed=%s prog=%s" % (r.get("seed"), r.get("prog")),
                      {"part": "perms", "seed": r.get("seed"), "prog": r.get("prog"), "nperms": nperms, "problem": problem,
                       "runs": summary, "died": r.get("died"),
                       "message": "TLC (Trace_Containers.TPerms) rejects this record: the orders of the declarations of "
                                  "one generated program are not accepted alike / do not behave identically",
                       "how": "bin/check C11 --replay <this file>"})

    ok_runs, events, outputs = mu.validate_traces("Trace_Containers", "Trace_Containers_rule.cfg", files, on_stuck,
                                                  max_rounds=10)
    log("[trace] perms: %d generated programs (%d with one name shared by a constant / structure / function) x %d orders "
        "(%d compilations + executions) validated by TLC: %d programs accepted, %d violations"
        % (programs, shared, nperms, executions, ok_runs, len(rep.violations) - before))
    if programs >= 20 and shared == 0:
        raise common.ToolError("perms: no generated program shares a name between namespaces (vacuous)")
    if selftest and files:
        lines = open(files[0]).read().splitlines()
        r = json.loads(lines[0])
        r["runs"][-1]["out"] += "x"
        p1 = os.path.join(common.WORK, "selftest-C11-perms-output.ndjson")
        open(p1, "w").write(json.dumps(r, separators=(",", ":")) + "\n")
        r = json.loads(lines[0])
        r["runs"][1]["ok"] = False
        p2 = os.path.join(common.WORK, "selftest-C11-perms-verdict.ndjson")
        open(p2, "w").write(json.dumps(r, separators=(",", ":")) + "\n")
        res = {x["file"]: x for x in common.tlc_traces("Trace_Containers", "Trace_Containers_rule.cfg", [p1, p2], extra_env=mu.probe_fixes())}
        st["selftests"]["perms_different_output_rejected"] = not res[p1]["accepted"]
        st["selftests"]["perms_different_verdict_rejected"] = not res[p2]["accepted"]
    st["traces_ok"] += ok_runs
    st["recorded"] += executions
    st["nontrivial"] += nonidentity
    if files:
        r = json.loads(open(files[0]).readline())
        r["runs"] = [dict(x, out=x["out"][:120]) for x in r["runs"][:2]]
        st["samples"].append({"part": "perms", "record": r})
    st["detail"]["perms"] = {"programs": programs, "programs_with_shared_names": shared, "orders_per_program": nperms, "executions": executions,
                             "programs_accepted_by_tlc": ok_runs}


def replay(detail):
    print("program seed=%s index=%s" % (detail["seed"], detail["prog"]))
    p = mu.pvh(["perm-one", detail["seed"], detail["prog"], detail.get("nperms", 6), "verbose"])
    print(p.stdout)
    print("problem:", detail.get("problem"), "-", detail.get("message"))
    return 0

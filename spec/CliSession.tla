----------------------------- MODULE CliSession -----------------------------
(***************************************************************************)
(* C18, sessions: SEVERAL invocations of `penne emit --out-dir outd` that  *)
(* share one output directory.  Cli.tla describes one invocation in a      *)
(* fresh directory; nothing there says what an invocation may take from    *)
(* the directory it finds.  The property: "a successful `penne emit        *)
(* --out-dir D` leaves a `.pn.ll` file with the module's IR for every      *)
(* module" -- the IR of the sources AS THEY ARE NOW for the target asked    *)
(* for NOW, whatever D held before (an earlier emission of older sources,  *)
(* of another target, a file of that name written by something else).      *)
(*                                                                         *)
(* State: the version of each source text (a.pn imports b.pn and uses its  *)
(* public constant, so the IR of `a` depends on BOTH texts; the IR of `b`  *)
(* on its own), and the content of outd/<m>.pn.ll as an abstract value:    *)
(* none | foreign | the record of what the IR was computed from.         *)
(* Actions: Emit(sub, listed, wasm) with sub = emit | build (`penne build  *)
(* --out-dir outd` writes the same files and feeds the backend with the    *)
(* IR of the whole compilation), Edit(m) (the other file is NOT touched),  *)
(* Plant(m) (a foreign file at the path of the IR), Remove(m).             *)
(* R = the Emit action itself: fs'[m] = IR(m, ver, wasm) for listed m, and *)
(* fed' = what the backend of a build is given: the IR of the listed       *)
(* modules as they are now (the exit status is 0 in every case).           *)
(* TLC checks that this rule makes an emission a function of the sources   *)
(* and the target alone (FreshEqualsReused) and prints every behaviour     *)
(* that ends with an emission as one CASE; each is replayed against the    *)
(* real binary, the content of every IR file compared after EVERY          *)
(* emission with what the same binary writes into an empty directory.      *)
(***************************************************************************)
EXTENDS Naturals, Sequences, FiniteSets, TLC, Json

CONSTANTS MaxSteps,
          Subs        \* the subcommands of the model: a subset of {"emit", "build"}
Mods == {"a", "b"}
Lists == { {"a", "b"}, {"b"} }          \* `a` alone cannot be compiled: its import would be missing

VARIABLES ver, fs, hist, last, fed
vars == <<ver, fs, hist, last, fed>>

None == [kind |-> "none"]
Foreign == [kind |-> "foreign"]
IR(m, v, w) == IF m = "a" THEN [kind |-> "ir", m |-> "a", a |-> v["a"], b |-> v["b"], wasm |-> w]
                          ELSE [kind |-> "ir", m |-> "b", a |-> 0, b |-> v["b"], wasm |-> w]
Show(f) == [a |-> f["a"], b |-> f["b"]]

Init == /\ ver = [m \in Mods |-> 1]
        /\ fs = [m \in Mods |-> None]
        /\ hist = <<>>
        /\ last = [listed |-> {}]
        /\ fed = None

\* what a backend is fed with: the IR of the compilation of the listed modules
Linked(listed, v, w) == [kind |-> "linked", a |-> (IF "a" \in listed THEN v["a"] ELSE 0), b |-> v["b"], wasm |-> w]
Emit(sub, listed, w) ==
    /\ fs' = [m \in Mods |-> IF m \in listed THEN IR(m, ver, w) ELSE fs[m]]
    /\ fed' = IF sub = "build" THEN Linked(listed, ver, w) ELSE fed
    /\ hist' = Append(hist, [op |-> sub, listed |-> listed, wasm |-> w, fs |-> Show(fs')]
                             @@ (IF sub = "build" THEN [fed |-> fed'] ELSE <<>>))
    /\ last' = [listed |-> listed, ver |-> ver, wasm |-> w, sub |-> sub]
    /\ UNCHANGED ver
Edit(m) ==
    /\ ver' = [ver EXCEPT ![m] = 3 - @]
    /\ hist' = Append(hist, [op |-> "edit", m |-> m, v |-> ver'[m]])
    /\ UNCHANGED <<fs, last, fed>>
Plant(m) ==
    /\ fs[m] # Foreign
    /\ fs' = [fs EXCEPT ![m] = Foreign]
    /\ hist' = Append(hist, [op |-> "plant", m |-> m])
    /\ last' = [last EXCEPT !.listed = @ \ {m}]
    /\ UNCHANGED <<ver, fed>>
Remove(m) ==
    /\ fs[m] # None
    /\ fs' = [fs EXCEPT ![m] = None]
    /\ hist' = Append(hist, [op |-> "remove", m |-> m])
    /\ last' = [last EXCEPT !.listed = @ \ {m}]
    /\ UNCHANGED <<ver, fed>>

Next == /\ Len(hist) < MaxSteps
        /\ \/ \E sb \in Subs, l \in Lists, w \in BOOLEAN : Emit(sb, l, w)
           \/ \E m \in Mods : Edit(m) \/ Plant(m) \/ Remove(m)
Spec == Init /\ [][Next]_vars

\* what the files of the last emission hold is a function of the sources and the target of THAT emission alone
FreshEqualsReused == \A m \in last.listed : fs[m] = IR(m, last.ver, last.wasm)
\* the IR of `a` tells the versions of both texts apart, the IR of `b` does not depend on `a`
Dependencies == /\ \A v1, v2 \in [Mods -> 1..2], w \in BOOLEAN : (IR("a", v1, w) = IR("a", v2, w)) <=> (v1 = v2)
                /\ \A v1, v2 \in [Mods -> 1..2], w \in BOOLEAN : (IR("b", v1, w) = IR("b", v2, w)) <=> (v1["b"] = v2["b"])

\* the backend of the last build was fed with the IR of the sources of THAT build, whatever the directory held
FedIsCurrent == ("sub" \in DOMAIN last /\ last.sub = "build" /\ hist[Len(hist)].op = "build") => fed = Linked(hist[Len(hist)].listed, last.ver, last.wasm)

EmitCase == (Len(hist) > 0 /\ hist[Len(hist)].op \in Subs) =>
                PrintT(<<"CASE", ToJson([steps |-> hist])>>)
=============================================================================

SPECIFICATION Spec
CONSTANTS
  CapFactor = 4
  TokMin = 6
  TokMax = 16777216
  ErrCap = 2
  MaxToks = 12
  MaxAborts = 2
  MaxBad = 2
  Densities = {1, 2, 3}
  DeclAlts = {"import", "const", "opaque", "struct", "word", "fn", "extern"}
  StmtAlts = {"loop", "goto", "label", "call", "bcall", "assign", "aassign", "var", "block", "if"}
  PrimAlts = {"lit", "suf", "str", "addr", "fcall", "bcall", "structural", "id", "array", "paren", "index", "member"}
  UnaryAlts = {"neg", "sizeof", "lenof"}
  TypeAlts = {"kw", "named", "ptr", "arr"}
  ExprAlts = {"add", "bit", "shift", "mul", "cast", "as"}
  ExpectationTextComplete = TRUE
INVARIANTS NoCrash SetLenArg CursorOK OutcomeOK Verdict ResourceLimit
VIEW CounterView
CHECK_DEADLOCK FALSE

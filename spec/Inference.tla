----------------------------- MODULE Inference -----------------------------
(***************************************************************************)
(* Type INFERENCE of Penne (C01 "is accepted / behaves as documented",     *)
(* C07 "identical types, no implicit conversions") for function bodies in  *)
(* which some declarations have no annotation (`var x = e;`) and some      *)
(* integer literals have no suffix.                                        *)
(*                                                                         *)
(*   R    the rule, from the property statements and docs/ only            *)
(*        (features.md: `var x = 0;`, `var total = sum(data);`,            *)
(*        `if i == |x|`, `x[i]`; errors.md E500, E503, E504, E551,         *)
(*        E580-E585, E331-E333: "type inference does not cross function    *)
(*        borders", "a primitive cast does not tell the type of its        *)
(*        operand", "an integer literal without suffix does not have a     *)
(*        type of its own", "variables used to store pointers must have    *)
(*        an explicit type").                                              *)
(*                                                                         *)
(* A program in the exchange format of Machine.tla (docs/notes-machine.md) *)
(* in which a `V` item may lack `ty` and a `lit` may lack `t` (it then     *)
(* carries a string `id`, unique in its function) induces, per function,   *)
(* a constraint system over NODES (one per unannotated declaration, named  *)
(* by the variable; one per naked literal, named by its id):               *)
(*    both operands of a binary operator / comparison identical;           *)
(*    assignment and initialisation identical; argument = parameter;       *)
(*    `return:` value = declared return type; index = usize; `|x|` and     *)
(*    `|:T|` are usize; `e as T` is T and says nothing about e; elements   *)
(*    of an array literal identical; member value = member type;           *)
(*    a naked literal is an integer.                                       *)
(* The solution is computed by PROPAGATION (connected components of the    *)
(* node-node equalities, constants attached to a component), never by      *)
(* enumerating assignments.  Per node the class is                         *)
(*    a type name   exactly one constant reaches the component;            *)
(*    "conflict"    two different constants, or a non-integer constant     *)
(*                  reaches a literal;                                     *)
(*    "undet"       no constant reaches it (errors.md E581/E582: rejected);*)
(*    "unc"         the component touches something this rule does not     *)
(*                  model (opaque): nothing is demanded.                   *)
(* and the distance `d` to the nearest constant (1 = used directly against *)
(* something typed).                                                       *)
(*                                                                         *)
(* Verdict of a function / program (FVerdict, PVerdict):                   *)
(*    "reject"   R1: some class conflicts, or the solved program breaks an *)
(*               operator class rule of TypeRules.tla: must be rejected;   *)
(*    "undet"    some class is undetermined and carries no cast hint:      *)
(*               documented rejection (E580/E581/E582);                    *)
(*    "unc"      undetermined but for a cast hint / opaque: unconstrained; *)
(*    "accept"   R3: uniquely solvable and every node within the           *)
(*               documented propagation distance: must be accepted;        *)
(*    "free"     uniquely solvable, beyond that distance: acceptance is    *)
(*               unconstrained.                                            *)
(* In every case R2 holds: IF the compiler accepts, every node whose class *)
(* is a type name has exactly that type.                                   *)
(***************************************************************************)
EXTENDS Naturals, Sequences, FiniteSets, TLC

TR == INSTANCE TypeRules

Prim(t)   == [k |-> "prim", t |-> t]
Node(n)   == [k |-> "node", n |-> n]
Opaque    == [k |-> "opaque"]
VoidT     == [k |-> "void"]
Usize     == Prim("usize")
LitTypes  == TR!Ints \cup {"char8"}

SeqToSet(s) == {s[i] : i \in 1..Len(s)}

(* ---------------------------------------------------------------------- *)
(* environment of a function: parameters, all declarations, constants      *)
(* ---------------------------------------------------------------------- *)
DeclTy(it)  == IF "ty" \in DOMAIN it THEN it.ty
               ELSE IF "t" \in DOMAIN it THEN Prim(it.t)
               ELSE Node(it.x)
ParamTy(p)  == IF "ty" \in DOMAIN p THEN p.ty ELSE Prim(p.t)

Env(P, f) ==
    [i \in 1..Len(f.params) |-> [x |-> f.params[i].x, ty |-> ParamTy(f.params[i])]]
    \o LET vs == SelectSeq(f.body, LAMBDA it : it.k = "V")
       IN [i \in 1..Len(vs) |-> [x |-> vs[i].x, ty |-> DeclTy(vs[i])]]
    \o [i \in 1..Len(P.consts) |-> [x |-> P.consts[i].x, ty |-> ParamTy(P.consts[i])]]

Lookup(env, x) == LET s == SelectSeq(env, LAMBDA r : r.x = x)
                  IN IF s = <<>> THEN Opaque ELSE s[1].ty

FnOf(P, name)  == LET s == SelectSeq(P.fns, LAMBDA g : g.name = name)
                  IN IF s = <<>> THEN [name |-> name, params |-> <<>>, ret |-> Opaque, opaque |-> TRUE] ELSE s[1]
StructOf(P, n) == LET s == SelectSeq(P.structs, LAMBDA d : d.name = n)
                  IN IF s = <<>> THEN [name |-> n, ms |-> <<>>] ELSE s[1]
MemberTy(P, n, m) == LET s == SelectSeq(StructOf(P, n).ms, LAMBDA r : r.x = m)
                     IN IF s = <<>> THEN Opaque ELSE s[1].ty

RECURSIVE StripPtr(_), AddrN(_, _), HasNode(_)
StripPtr(t) == IF t.k = "ptr" THEN StripPtr(t.e) ELSE t
AddrN(d, t) == IF d = 0 THEN t ELSE [k |-> "ptr", e |-> AddrN(d - 1, t)]
HasNode(t)  == t.k = "node" \/ (t.k \in {"ptr", "view", "array"} /\ HasNode(t.e))

ElemOf(t) == LET b == StripPtr(t)
             IN IF b.k \in {"array", "view"} THEN b.e ELSE Opaque

(* ---------------------------------------------------------------------- *)
(* the type of an expression (possibly a node)                             *)
(* ---------------------------------------------------------------------- *)
RECURSIVE TyOf(_, _, _), StepsTy(_, _, _, _)

\* features.md "Reference pointers": steps apply after full dereference
StepsTy(P, t, steps, i) ==
    IF i > Len(steps) THEN t
    ELSE LET b == StripPtr(t)
             st == steps[i]
         IN IF st.k = "i" THEN StepsTy(P, ElemOf(b), steps, i + 1)
            ELSE IF st.k = "m" /\ b.k = "named" THEN StepsTy(P, MemberTy(P, b.n, st.m), steps, i + 1)
            ELSE Opaque

\* `&^d x steps` has type &^d base (a pointer dereferences to its base type)
RefTy(P, env, r) ==
    LET t == StepsTy(P, Lookup(env, r.x), r.steps, 1)
        b == StripPtr(t)
    IN IF b.k = "opaque" THEN Opaque
       ELSE IF b.k = "view" /\ r.addr > 0 THEN Opaque      \* `&sp` of a slice pointer: not modelled
       ELSE AddrN(r.addr, b)

TyOf(P, env, e) ==
    CASE e.k = "lit"    -> IF "t" \in DOMAIN e THEN Prim(e.t) ELSE Node(e.id)
      [] e.k = "var"    -> StripPtr(Lookup(env, e.x))
      [] e.k = "ref"    -> RefTy(P, env, e)
      [] e.k = "paren"  -> TyOf(P, env, e.e)
      [] e.k = "bin"    -> TyOf(P, env, e.l)
      [] e.k = "un"     -> TyOf(P, env, e.e)
      [] e.k = "as"     -> Prim(e.t)
      [] e.k = "call"   -> FnOf(P, e.f).ret
      [] e.k = "len"    -> Usize
      [] e.k = "sizeof" -> Usize
      [] e.k = "idx"    -> ElemOf(Lookup(env, e.x))
      [] e.k = "arr"    -> IF e.es = <<>> THEN Opaque
                           ELSE [k |-> "array", n |-> Len(e.es), e |-> TyOf(P, env, e.es[1])]
      [] e.k = "st"     -> [k |-> "named", n |-> e.n]
      [] OTHER          -> Opaque

(* ---------------------------------------------------------------------- *)
(* constraints: pairs <<node name, term>>, term = [node, s]                *)
(* ---------------------------------------------------------------------- *)
TN(n) == [node |-> TRUE, s |-> n]
TC(c) == [node |-> FALSE, s |-> c]

RECURSIVE NodesIn(_)
NodesIn(t) == IF t.k = "node" THEN {t.n}
              ELSE IF t.k \in {"ptr", "view", "array"} THEN NodesIn(t.e) ELSE {}

TermOf(t) == IF t.k = "node" THEN TN(t.n)
             ELSE IF t.k = "prim" THEN TC(t.t)
             ELSE IF t.k \in {"named", "void"} THEN TC("#" \o t.k)     \* not a primitive: conflicts with anything scalar
             ELSE TC("?")

RECURSIVE Unify(_, _)
Unify(a, b) ==
    IF ~HasNode(a) /\ ~HasNode(b)
    THEN (IF a.k = "prim" /\ b.k = "prim" /\ a.t # b.t THEN {<<"!", TC(a.t)>>} ELSE {})   \* annotated on both sides: no inference;
                                                                  \* two different primitives are a plain type error (pseudo node "!")
    ELSE IF a.k = "node" THEN {<<a.n, TermOf(b)>>}
    ELSE IF b.k = "node" THEN {<<b.n, TermOf(a)>>}
    ELSE IF a.k = "ptr" /\ b.k = "ptr" THEN Unify(a.e, b.e)
    ELSE IF a.k \in {"array", "view"} /\ b.k \in {"array", "view"} THEN Unify(a.e, b.e)   \* array -> view coercion (features.md "Views")
    ELSE {<<n, TC("?")>> : n \in NodesIn(a) \cup NodesIn(b)}

RECURSIVE CsOf(_, _, _), CsSeq(_, _, _, _), CsSteps(_, _, _, _), CsArgs(_, _, _, _, _)

CsSeq(P, env, es, i) == IF i > Len(es) THEN {} ELSE CsOf(P, env, es[i]) \cup CsSeq(P, env, es, i + 1)

CsSteps(P, env, steps, i) ==
    IF i > Len(steps) THEN {}
    ELSE (IF steps[i].k = "i"
          THEN Unify(TyOf(P, env, steps[i].e), Usize) \cup CsOf(P, env, steps[i].e)
          ELSE {}) \cup CsSteps(P, env, steps, i + 1)

CsArgs(P, env, g, args, i) ==
    IF i > Len(args) THEN {}
    ELSE (IF "opaque" \in DOMAIN g \/ i > Len(g.params)
          THEN {<<n, TC("?")>> : n \in NodesIn(TyOf(P, env, args[i]))}
          ELSE Unify(TyOf(P, env, args[i]), ParamTy(g.params[i])))
         \cup CsOf(P, env, args[i]) \cup CsArgs(P, env, g, args, i + 1)

CsOf(P, env, e) ==
    CASE e.k = "bin"   -> Unify(TyOf(P, env, e.l), TyOf(P, env, e.r)) \cup CsOf(P, env, e.l) \cup CsOf(P, env, e.r)
      [] e.k = "un"    -> CsOf(P, env, e.e)
      [] e.k = "paren" -> CsOf(P, env, e.e)
      [] e.k = "as"    -> CsOf(P, env, e.e)                       \* no constraint on the operand (errors.md E583)
      [] e.k = "call"  -> CsArgs(P, env, FnOf(P, e.f), e.args, 1)
      [] e.k = "ref"   -> CsSteps(P, env, e.steps, 1)
      [] e.k = "len"   -> IF "r" \in DOMAIN e THEN CsSteps(P, env, e.r.steps, 1) ELSE {}
      [] e.k = "idx"   -> Unify(TyOf(P, env, e.i), Usize) \cup CsOf(P, env, e.i)
      [] e.k = "arr"   -> CsSeq(P, env, e.es, 1)
                          \cup UNION {Unify(TyOf(P, env, e.es[1]), TyOf(P, env, e.es[i])) : i \in 2..Len(e.es)}
      [] e.k = "st"    -> UNION {Unify(TyOf(P, env, e.fs[i].e), MemberTy(P, e.n, e.fs[i].m)) \cup CsOf(P, env, e.fs[i].e)
                                 : i \in 1..Len(e.fs)}
      [] OTHER         -> {}

CsCond(P, env, c) == Unify(TyOf(P, env, c.l), TyOf(P, env, c.r)) \cup CsOf(P, env, c.l) \cup CsOf(P, env, c.r)

CsItem(P, env, it) ==
    CASE it.k = "V"  -> IF "e" \in DOMAIN it
                        THEN Unify(DeclTy(it), TyOf(P, env, it.e)) \cup CsOf(P, env, it.e) ELSE {}
      [] it.k = "A"  -> Unify(RefTy(P, env, it.r), TyOf(P, env, it.e)) \cup CsSteps(P, env, it.r.steps, 1) \cup CsOf(P, env, it.e)
      [] it.k = "S"  -> Unify(StripPtr(Lookup(env, it.x)), TyOf(P, env, it.e)) \cup CsOf(P, env, it.e)
      [] it.k = "SI" -> Unify(ElemOf(Lookup(env, it.x)), TyOf(P, env, it.e)) \cup Unify(TyOf(P, env, it.i), Usize)
                        \cup CsOf(P, env, it.i) \cup CsOf(P, env, it.e)
      [] it.k = "P"  -> CsOf(P, env, it.e)
      [] it.k = "PP" -> CsSeq(P, env, it.es, 1)
      [] it.k \in {"IG", "IO", "EIG", "EIO"} -> CsCond(P, env, it.c)
      [] it.k = "CALL" -> CsArgs(P, env, FnOf(P, it.f), it.args, 1)
                          \cup (IF it.d = "" THEN {} ELSE Unify(StripPtr(Lookup(env, it.d)), FnOf(P, it.f).ret))
      [] OTHER       -> {}

RECURSIVE CsBody(_, _, _, _)
CsBody(P, env, body, i) == IF i > Len(body) THEN {} ELSE CsItem(P, env, body[i]) \cup CsBody(P, env, body, i + 1)

HasRes(f) == "res" \in DOMAIN f /\ f.ret.k # "void"
CsFn(P, f) == LET env == Env(P, f)
              IN CsBody(P, env, f.body, 1)
                 \cup (IF HasRes(f) THEN Unify(f.ret, TyOf(P, env, f.res)) \cup CsOf(P, env, f.res) ELSE {})

(* ---------------------------------------------------------------------- *)
(* nodes, literal nodes, cast hints of a function                          *)
(* ---------------------------------------------------------------------- *)
RECURSIVE LitsOf(_), LitsSeq(_, _), HintsOf(_, _, _), HintsSeq(_, _, _, _)
LitsSeq(es, i) == IF i > Len(es) THEN {} ELSE LitsOf(es[i]) \cup LitsSeq(es, i + 1)
StepExprs(steps) == LET s == SelectSeq(steps, LAMBDA st : st.k = "i") IN [i \in 1..Len(s) |-> s[i].e]
LitsOf(e) ==
    CASE e.k = "lit"   -> IF "t" \in DOMAIN e THEN {} ELSE {e.id}
      [] e.k = "bin"   -> LitsOf(e.l) \cup LitsOf(e.r)
      [] e.k \in {"un", "paren", "as"} -> LitsOf(e.e)
      [] e.k = "call"  -> LitsSeq(e.args, 1)
      [] e.k = "ref"   -> LitsSeq(StepExprs(e.steps), 1)
      [] e.k = "len"   -> IF "r" \in DOMAIN e THEN LitsSeq(StepExprs(e.r.steps), 1) ELSE {}
      [] e.k = "idx"   -> LitsOf(e.i)
      [] e.k = "arr"   -> LitsSeq(e.es, 1)
      [] e.k = "st"    -> LitsSeq([i \in 1..Len(e.fs) |-> e.fs[i].e], 1)
      [] OTHER         -> {}

ItemExprs(it) ==
    CASE it.k = "V"  -> IF "e" \in DOMAIN it THEN <<it.e>> ELSE <<>>
      [] it.k = "A"  -> StepExprs(it.r.steps) \o <<it.e>>
      [] it.k = "S"  -> <<it.e>>
      [] it.k = "SI" -> <<it.i, it.e>>
      [] it.k = "P"  -> <<it.e>>
      [] it.k = "PP" -> it.es
      [] it.k \in {"IG", "IO", "EIG", "EIO"} -> <<it.c.l, it.c.r>>
      [] it.k = "CALL" -> it.args
      [] OTHER -> <<>>

RECURSIVE FnExprs(_, _)
FnExprs(body, i) == IF i > Len(body) THEN <<>> ELSE ItemExprs(body[i]) \o FnExprs(body, i + 1)
AllExprs(f) == FnExprs(f.body, 1) \o (IF HasRes(f) THEN <<f.res>> ELSE <<>>)

LitNodes(f)  == LitsSeq(AllExprs(f), 1)
VarNodes(f)  == {f.body[j].x : j \in {i \in 1..Len(f.body) : f.body[i].k = "V" /\ "ty" \notin DOMAIN f.body[i] /\ "t" \notin DOMAIN f.body[i]}}
Nodes(f)     == LitNodes(f) \cup VarNodes(f)

\* <<n, T>>: node n is (the type of) the operand of a primitive cast `e as T`.  errors.md E583 says the cast tells nothing
\* about its operand; the code hands T down as a hint and binds an unknown variable to it (the repository's own
\* tests/samples/invalid/ambiguous_identity_casting.pn expects exactly that) -- so whatever hangs on a hint is unconstrained
HintsSeq(P, env, es, i) == IF i > Len(es) THEN {} ELSE HintsOf(P, env, es[i]) \cup HintsSeq(P, env, es, i + 1)
HintsOf(P, env, e) ==
    CASE e.k = "as"    -> {<<n, e.t>> : n \in NodesIn(TyOf(P, env, e.e))} \cup HintsOf(P, env, e.e)
      [] e.k = "bin"   -> HintsOf(P, env, e.l) \cup HintsOf(P, env, e.r)
      [] e.k \in {"un", "paren"} -> HintsOf(P, env, e.e)
      [] e.k = "call"  -> HintsSeq(P, env, e.args, 1)
      [] e.k = "ref"   -> HintsSeq(P, env, StepExprs(e.steps), 1)
      [] e.k = "idx"   -> HintsOf(P, env, e.i)
      [] e.k = "arr"   -> HintsSeq(P, env, e.es, 1)
      [] e.k = "st"    -> HintsSeq(P, env, [i \in 1..Len(e.fs) |-> e.fs[i].e], 1)
      [] OTHER         -> {}
Hints(P, f) == HintsSeq(P, Env(P, f), AllExprs(f), 1)

(* ---------------------------------------------------------------------- *)
(* the solution: propagation over connected components                     *)
(* ---------------------------------------------------------------------- *)
NN(cs) == {p \in cs : p[2].node}
NC(cs) == {p \in cs : ~p[2].node}
Nbr(cs, S) == S \cup {p[2].s : p \in {q \in NN(cs) : q[1] \in S}} \cup {p[1] : p \in {q \in NN(cs) : q[2].s \in S}}
RECURSIVE Grow(_, _)
Grow(cs, S) == LET S2 == Nbr(cs, S) IN IF S2 = S THEN S ELSE Grow(cs, S2)
Comp(cs, n) == Grow(cs, {n})
ConstsOf(cs, comp) == {p[2].s : p \in {q \in NC(cs) : q[1] \in comp}}

RECURSIVE DistFrom(_, _, _, _)
DistFrom(cs, n, S, k) == IF n \in S THEN k
                         ELSE LET S2 == Nbr(cs, S) IN IF S2 = S THEN 99 ELSE DistFrom(cs, n, S2, k + 1)
Dist(cs, n) == DistFrom(cs, n, {p[1] : p \in NC(cs)}, 1)

Class(cs, n, lits) ==
    LET comp == Comp(cs, n)
        C    == ConstsOf(cs, comp)
    IN IF "?" \in C THEN "unc"
       ELSE IF Cardinality(C) >= 2 THEN "conflict"
       ELSE IF C = {} THEN "undet"
       ELSE LET t == CHOOSE t \in C : TRUE
            IN IF comp \cap lits # {} /\ t \notin LitTypes THEN "conflict" ELSE t

\* the solution of one function: a set of records, one per node
Solve(P, f, cs) ==
    LET lits == LitNodes(f)
        hs   == Hints(P, f)
    IN {LET c == Class(cs, n, lits)
            comp == Comp(cs, n)
        IN [n |-> n, lit |-> (n \in lits), c |-> c, d |-> Dist(cs, n),
            hint |-> (\E h \in hs : h[1] \in comp),
            \* a hint that disagrees with the class (or would decide an undetermined one)
            hbad |-> (\E h \in hs : h[1] \in comp /\ h[2] # c)] : n \in Nodes(f)}

TypeOfNode(sol, n) == LET s == {r \in sol : r.n = n} IN IF s = {} THEN "unc" ELSE (CHOOSE r \in s : TRUE).c
IsType(c) == c \notin {"unc", "conflict", "undet"}

(* ---------------------------------------------------------------------- *)
(* the judgement of TypeRules.tla on the solved program (operator classes) *)
(* ---------------------------------------------------------------------- *)
Solved(sol, t) == IF t.k = "node" THEN (LET c == TypeOfNode(sol, t.n) IN IF IsType(c) THEN Prim(c) ELSE Opaque) ELSE t

\* want = "no": some operator / cast of the solved program breaks its class rule (E550 / E552);
\* want = "unc": some operator / cast is a cell TypeRules leaves unconstrained (bitwise on usize, ...)
Hit(v, want) == IF want = "no" THEN (~v.ok /\ ~v.unc) ELSE v.unc
RECURSIVE OpBad(_, _, _, _, _), OpBadSeq(_, _, _, _, _, _)
OpBadSeq(P, env, sol, es, i, want) == IF i > Len(es) THEN FALSE ELSE OpBad(P, env, sol, es[i], want) \/ OpBadSeq(P, env, sol, es, i + 1, want)
OpBad(P, env, sol, e, want) ==
    CASE e.k = "bin" ->
            (LET a == Solved(sol, TyOf(P, env, e.l))
                 b == Solved(sol, TyOf(P, env, e.r))
             IN a.k = "prim" /\ b.k = "prim" /\ (HasNode(TyOf(P, env, e.l)) \/ HasNode(TyOf(P, env, e.r)))
                /\ Hit(TR!BinResult(e.op, <<a.t>>, <<b.t>>), want))
            \/ OpBad(P, env, sol, e.l, want) \/ OpBad(P, env, sol, e.r, want)
      [] e.k = "as" ->
            (LET a == Solved(sol, TyOf(P, env, e.e))
             IN a.k = "prim" /\ HasNode(TyOf(P, env, e.e)) /\ Hit(TR!CastOK(<<a.t>>, <<e.t>>), want))
            \/ OpBad(P, env, sol, e.e, want)
      [] e.k \in {"un", "paren"} -> OpBad(P, env, sol, e.e, want)
      [] e.k = "call" -> OpBadSeq(P, env, sol, e.args, 1, want)
      [] e.k = "idx"  -> OpBad(P, env, sol, e.i, want)
      [] OTHER -> FALSE
OpViolation(P, f, sol) == OpBadSeq(P, Env(P, f), sol, AllExprs(f), 1, "no")
OpUnconstrained(P, f, sol) == OpBadSeq(P, Env(P, f), sol, AllExprs(f), 1, "unc")

(* ---------------------------------------------------------------------- *)
(* verdicts                                                                *)
(* ---------------------------------------------------------------------- *)
\* documented propagation distance: a variable used against something typed (1) or against a variable
\* that is (2: features.md `result = result + a; ... return: result`); a literal one step further
DemandVar == 2
DemandLit == 3

\* static: the body contains a type error that involves no node at all (only decided for generated bodies)
FVerdict(P, f, sol, static) ==
    IF static \/ \E r \in sol : r.c = "conflict" THEN "reject"
    ELSE IF \E r \in sol : r.c = "undet" /\ ~r.hint THEN "undet"
    ELSE IF \E r \in sol : r.c \in {"unc", "undet"} \/ r.hbad THEN "unc"
    ELSE IF OpViolation(P, f, sol) THEN "reject"
    ELSE IF OpUnconstrained(P, f, sol) THEN "unc"
    ELSE IF \A r \in sol : r.d <= (IF r.lit THEN DemandLit ELSE DemandVar) THEN "accept"
    ELSE "free"

Rank(v) == CASE v = "reject" -> 5 [] v = "undet" -> 4 [] v = "unc" -> 3 [] v = "free" -> 2 [] OTHER -> 1
PVerdictOf(vs) == IF vs = {} THEN "accept" ELSE CHOOSE v \in vs : \A w \in vs : Rank(v) >= Rank(w)

\* the result for a program: per function the solution and the verdict, and the combined verdict
FnResult(P, f, useStatic) ==
    LET cs  == CsFn(P, f)
        sol == Solve(P, f, cs)
    IN [f |-> f.name, sol |-> sol, v |-> FVerdict(P, f, sol, useStatic /\ \E p \in cs : p[1] = "!")]
=============================================================================

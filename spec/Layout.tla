------------------------------- MODULE Layout -------------------------------
(***************************************************************************)
(* C10: storage layout of Penne types -- the rule behind `|:T|`.           *)
(* From the property: `|:[N]T|` = N * `|:T|`, structure sizes follow       *)
(* member sizes and alignment; from tests/samples/valid/size_of_struct.pn  *)
(* and docs: members are laid out in order, each aligned to its own        *)
(* alignment (a power of two, at most 8 bytes: i128 is 8-aligned), the     *)
(* total is padded to the largest member alignment; a word occupies its    *)
(* declared size.                                                          *)
(* A type term is a record:                                                *)
(*   [k |-> "prim", t]  [k |-> "ptr"]  [k |-> "array", n, e]               *)
(*   [k |-> "struct", ms (sequence of type terms)]  [k |-> "word", bytes]  *)
(***************************************************************************)
EXTENDS Naturals, Sequences, FiniteSets, TLC

PrimSize(t) == CASE t \in {"i8", "u8", "bool", "char8"} -> 1
                 [] t \in {"i16", "u16"} -> 2
                 [] t \in {"i32", "u32"} -> 4
                 [] t \in {"i64", "u64", "usize"} -> 8
                 [] t \in {"i128", "u128"} -> 16
MaxAlign == 8
Min(a, b) == IF a < b THEN a ELSE b
Max(a, b) == IF a > b THEN a ELSE b
AlignUp(n, a) == a * ((n + a - 1) \div a)

(* The alignment of a word used as a member is not documented: it may be that of its declared size
   (mode "declared": a word16 is 2-aligned) or that of its own members (mode "members").  Both are
   accepted (unconstrained cell); a word's own size is its declared size in either mode. *)
RECURSIVE SizeOfM(_, _), AlignOfM(_, _), StructEnd(_, _, _, _), StructAlign(_, _, _, _)
AlignOfM(ty, mode) == CASE ty.k = "prim" -> Min(PrimSize(ty.t), MaxAlign)
                        [] ty.k = "ptr" -> 8
                        [] ty.k = "array" -> AlignOfM(ty.e, mode)
                        [] ty.k = "struct" -> StructAlign(ty.ms, 1, 1, mode)
                        [] ty.k = "word" -> IF mode = "declared" THEN Min(ty.bytes, MaxAlign) ELSE ty.malign
\* offset after laying out members i.. starting at offset off
StructEnd(ms, i, off, mode) == IF i > Len(ms) THEN off
                               ELSE StructEnd(ms, i + 1, AlignUp(off, AlignOfM(ms[i], mode)) + SizeOfM(ms[i], mode), mode)
StructAlign(ms, i, a, mode) == IF i > Len(ms) THEN a ELSE StructAlign(ms, i + 1, Max(a, AlignOfM(ms[i], mode)), mode)
SizeOfM(ty, mode) == CASE ty.k = "prim" -> PrimSize(ty.t)
                       [] ty.k = "ptr" -> 8
                       [] ty.k = "array" -> ty.n * SizeOfM(ty.e, mode)
                       [] ty.k = "struct" -> AlignUp(StructEnd(ty.ms, 1, 0, mode), StructAlign(ty.ms, 1, 1, mode))
                       [] ty.k = "word" -> ty.bytes
\* The same layout for a target whose pointers and `usize` are pw bytes wide (`--wasm`: wasm32, pw = 4; the README's WASM4
\* example): only the size and alignment of pointers and of usize change, every other rule is the same.
RECURSIVE SizeOfT(_, _, _), AlignOfT(_, _, _), StructEndT(_, _, _, _, _), StructAlignT(_, _, _, _, _)
PrimSizeT(t, pw) == IF t = "usize" THEN pw ELSE PrimSize(t)
AlignOfT(ty, mode, pw) == CASE ty.k = "prim" -> Min(PrimSizeT(ty.t, pw), MaxAlign)
                            [] ty.k = "ptr" -> pw
                            [] ty.k = "array" -> AlignOfT(ty.e, mode, pw)
                            [] ty.k = "struct" -> StructAlignT(ty.ms, 1, 1, mode, pw)
                            [] ty.k = "word" -> IF mode = "declared" THEN Min(ty.bytes, MaxAlign) ELSE ty.malign
StructEndT(ms, i, off, mode, pw) == IF i > Len(ms) THEN off
                                    ELSE StructEndT(ms, i + 1, AlignUp(off, AlignOfT(ms[i], mode, pw)) + SizeOfT(ms[i], mode, pw), mode, pw)
StructAlignT(ms, i, a, mode, pw) == IF i > Len(ms) THEN a ELSE StructAlignT(ms, i + 1, Max(a, AlignOfT(ms[i], mode, pw)), mode, pw)
SizeOfT(ty, mode, pw) == CASE ty.k = "prim" -> PrimSizeT(ty.t, pw)
                           [] ty.k = "ptr" -> pw
                           [] ty.k = "array" -> ty.n * SizeOfT(ty.e, mode, pw)
                           [] ty.k = "struct" -> AlignUp(StructEndT(ty.ms, 1, 0, mode, pw), StructAlignT(ty.ms, 1, 1, mode, pw))
                           [] ty.k = "word" -> ty.bytes
SizeOf(ty) == SizeOfM(ty, "declared")
AlignOf(ty) == AlignOfM(ty, "declared")
\* the length `|x|` of an array with n elements, however it is passed and wherever it is stored (a variable, a
\* constant, a member, an element of a longer or shorter outer array)
LenOf(n, mode) == n
=============================================================================

------------------------------- MODULE Layout -------------------------------
(***************************************************************************)
(* C10: storage layout of Penne types -- the rule behind `|:T|`.           *)
(* From the property: `|:[N]T|` = N * `|:T|`, structure sizes follow       *)
(* member sizes and alignment; from tests/samples/valid/size_of_struct.pn  *)
(* and docs: members are laid out in order, each aligned to its own        *)
(* alignment (a power of two, at most 8 bytes: i128 is 8-aligned), the     *)
(* total is padded to the largest member alignment; a word occupies its    *)
(* declared size.                                                          *)
(* A type term is a record:                                                *)
(*   [k |-> "prim", t]  [k |-> "ptr"]  [k |-> "array", n, e]               *)
(*   [k |-> "struct", ms (sequence of type terms)]  [k |-> "word", bytes]  *)
(***************************************************************************)
EXTENDS Naturals, Sequences, FiniteSets, TLC

PrimSize(t) == CASE t \in {"i8", "u8", "bool", "char8"} -> 1
                 [] t \in {"i16", "u16"} -> 2
                 [] t \in {"i32", "u32"} -> 4
                 [] t \in {"i64", "u64", "usize"} -> 8
                 [] t \in {"i128", "u128"} -> 16
MaxAlign == 8
Min(a, b) == IF a < b THEN a ELSE b
Max(a, b) == IF a > b THEN a ELSE b
AlignUp(n, a) == a * ((n + a - 1) \div a)

RECURSIVE SizeOf(_), AlignOf(_), StructEnd(_, _, _), StructAlign(_, _, _)
AlignOf(ty) == CASE ty.k = "prim" -> Min(PrimSize(ty.t), MaxAlign)
                 [] ty.k = "ptr" -> 8
                 [] ty.k = "array" -> AlignOf(ty.e)
                 [] ty.k = "struct" -> StructAlign(ty.ms, 1, 1)
                 [] ty.k = "word" -> Min(ty.bytes, MaxAlign)
\* offset after laying out members i.. starting at offset off
StructEnd(ms, i, off) == IF i > Len(ms) THEN off
                         ELSE StructEnd(ms, i + 1, AlignUp(off, AlignOf(ms[i])) + SizeOf(ms[i]))
StructAlign(ms, i, a) == IF i > Len(ms) THEN a ELSE StructAlign(ms, i + 1, Max(a, AlignOf(ms[i])))
SizeOf(ty) == CASE ty.k = "prim" -> PrimSize(ty.t)
                [] ty.k = "ptr" -> 8
                [] ty.k = "array" -> ty.n * SizeOf(ty.e)
                [] ty.k = "struct" -> AlignUp(StructEnd(ty.ms, 1, 0), StructAlign(ty.ms, 1, 1))
                [] ty.k = "word" -> ty.bytes
\* the length `|x|` of an array with n elements, however it is passed
LenOf(n, mode) == n
=============================================================================

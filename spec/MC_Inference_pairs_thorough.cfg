SPECIFICATION Spec
CONSTANTS
  TypeSeq <- TS3
  MaxVars = 2
  MaxStmts = 2
  Forms = {"sfx", "tv", "bin", "band", "as", "asbin", "call", "idx", "len", "cmp", "cmpbin", "declt", "asgu", "asgt", "chain"}
  Rets = {"void", "i32", "u8"}
INVARIANTS ASound AUndet ASolution EmitCase
CHECK_DEADLOCK FALSE

SPECIFICATION Spec
CONSTANTS
  MaxLen = 0
INVARIANT TilesOK
CHECK_DEADLOCK FALSE

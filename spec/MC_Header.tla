----------------------------- MODULE MC_Header -----------------------------
(* Model-checking / case-emitting wrapper of Header (TLC only). *)
EXTENDS Header, Json, TLCExt, SequencesExt

MCNames == <<"d1", "d2", "d3", "d4", "d5", "d6", "d7">>
I32 == <<"i32">>
PI32 == <<"&", "i32">>

(* "wide": few shapes per position, so that every pub/private interleaving of every kind
   fits for 5 (6) declarations: 9 shapes *)
WideShapes(name) ==
    LET d == D0(name) IN
    UNION { { [d EXCEPT !.k = "fn", !.pub = p, !.body = <<"loop">>],
              [d EXCEPT !.k = "head", !.pub = p],
              [d EXCEPT !.k = "const", !.pub = p, !.ty = I32, !.val = <<"1">>],
              [d EXCEPT !.k = "struct", !.pub = p, !.mem = <<<<"m", I32>>>>] } : p \in BOOLEAN }
    \cup { [d EXCEPT !.k = "import"] }

(* "rich": every part of a declaration varies (parameters, composite types, references inside
   values, extern, opaque, words, bodies of 0..2 statements with and without result) *)
Sigs == { [params |-> <<>>, ret |-> <<>>, res |-> <<>>],
          [params |-> <<<<"a", I32>>>>, ret |-> I32, res |-> <<"x">>],
          [params |-> <<<<"a", PI32>>, <<"b", <<"S">>>>>>, ret |-> PI32, res |-> <<"+", "1", "2">>] }
Bodies == { <<>>, <<"loop">>, <<"var", "call">>, <<"goto", "loop">> }
RichShapes(name) ==
    LET d == D0(name) IN
    { [d EXCEPT !.k = "fn", !.pub = p, !.params = s.params, !.ret = s.ret, !.res = s.res, !.body = b]
        : p \in BOOLEAN, s \in Sigs, b \in Bodies }
    \cup { [d EXCEPT !.k = "fn", !.pub = p, !.ext = TRUE, !.body = <<"call">>] : p \in BOOLEAN }
    \cup { [d EXCEPT !.k = "head", !.pub = p, !.ext = e, !.params = s.params, !.ret = s.ret]
        : p \in BOOLEAN, e \in BOOLEAN, s \in Sigs }
    \cup { [d EXCEPT !.k = "const", !.pub = p, !.ty = tv[1], !.val = tv[2]]
        : p \in BOOLEAN, tv \in { <<I32, <<"1">>>>, <<<<"[4]", "i32">>, <<"x">>>>, <<I32, <<"+", "+", "1", "2", "3">>>>,
                                  <<I32, <<"neg", "1">>>>, <<<<"u8">>, <<"*", "x", "2">>>> } }
    \cup { [d EXCEPT !.k = "struct", !.pub = p, !.mem = m]
        : p \in BOOLEAN, m \in { <<>>, <<<<"m", I32>>>>, <<<<"m", <<"[]", "u8">>>>, <<"n", PI32>>>> } }
    \cup { [d EXCEPT !.k = "struct", !.pub = p, !.opq = TRUE] : p \in BOOLEAN }
    \cup { [d EXCEPT !.k = "word", !.pub = p, !.size = sm[1], !.mem = sm[2]]
        : p \in BOOLEAN, sm \in { <<4, <<<<"m", I32>>>>>>, <<16, <<<<"m", <<"u64">>>>, <<"n", <<"u64">>>>>>>> } }
    \* values whose text needs escaping in a dump; a named array length
    \cup { [d EXCEPT !.k = "const", !.pub = p, !.ty = tv[1], !.val = tv[2]]
        : p \in BOOLEAN, tv \in { <<<<"[]", "u8">>, <<"\"a<b&c>d\"">>>>, <<<<"[]", "u8">>, <<"\"q\\\"q\"">>>>, <<<<"char8">>, <<"'<'">>>>,
                                  <<<<"char8">>, <<"'\\''">>>>, <<<<"char8">>, <<"'\"'">>>>, <<<<"[N]", "i32">>, <<"+", "'&'", "x">>>> } }
    \* "Structures and constants can also be declared `extern`" (docs/features.md): the flag is part of the declaration
    \cup { [d EXCEPT !.k = "const", !.pub = p, !.ext = TRUE, !.ty = I32, !.val = <<"1">>] : p \in BOOLEAN }
    \cup { [d EXCEPT !.k = "struct", !.pub = p, !.ext = TRUE, !.mem = <<<<"m", I32>>>>] : p \in BOOLEAN }
    \cup { [d EXCEPT !.k = "struct", !.pub = p, !.ext = TRUE, !.opq = TRUE] : p \in BOOLEAN }
    \cup { [d EXCEPT !.k = "word", !.pub = p, !.ext = TRUE, !.size = 4, !.mem = <<<<"m", I32>>>>] : p \in BOOLEAN }
    \cup { [d EXCEPT !.k = "import"] }

(* "narrow": 5 shapes, for longer modules (zone patterns over 7 declarations) *)
NarrowShapes(name) ==
    LET d == D0(name) IN
    UNION { { [d EXCEPT !.k = "fn", !.pub = p, !.body = <<"loop">>],
              [d EXCEPT !.k = "const", !.pub = p, !.ty = I32, !.val = <<"x">>] } : p \in BOOLEAN }
    \cup { [d EXCEPT !.k = "import"] }

(* "mid": 30 shapes, for modules of three declarations *)
MidShapes(name) ==
    LET d == D0(name) IN
    { [d EXCEPT !.k = "fn", !.pub = p, !.params = s.params, !.ret = s.ret, !.res = s.res, !.body = b]
        : p \in BOOLEAN, s \in Sigs, b \in { <<>>, <<"var", "call">> } }
    \cup { [d EXCEPT !.k = "head", !.pub = p, !.params = s.params, !.ret = s.ret]
        : p \in BOOLEAN, s \in { x \in Sigs : x.params # <<<<"a", I32>>>> } }
    \cup { [d EXCEPT !.k = "head", !.pub = TRUE, !.ext = TRUE] }
    \cup { [d EXCEPT !.k = "const", !.pub = p, !.ty = tv[1], !.val = tv[2]]
        : p \in BOOLEAN, tv \in { <<I32, <<"1">>>>, <<<<"[4]", "i32">>, <<"x">>>>, <<I32, <<"+", "+", "1", "2", "3">>>> } }
    \cup { [d EXCEPT !.k = "struct", !.pub = p, !.mem = <<<<"m", <<"[]", "u8">>>>, <<"n", PI32>>>>] : p \in BOOLEAN }
    \cup { [d EXCEPT !.k = "struct", !.pub = p, !.opq = TRUE] : p \in BOOLEAN }
    \cup { [d EXCEPT !.k = "word", !.pub = p, !.size = 4, !.mem = <<<<"m", I32>>>>] : p \in BOOLEAN }
    \cup { [d EXCEPT !.k = "const", !.pub = TRUE, !.ext = TRUE, !.ty = I32, !.val = <<"1">>],
           [d EXCEPT !.k = "struct", !.pub = TRUE, !.ext = TRUE, !.mem = <<<<"m", I32>>>>],
           [d EXCEPT !.k = "word", !.pub = TRUE, !.ext = TRUE, !.size = 4, !.mem = <<<<"m", I32>>>>] }
    \cup { [d EXCEPT !.k = "import"] }

\* one line per finished module: the input, the rule's header, and what the model predicts for the hooks
EmitCase == phase = "end" =>
    PrintT(<<"CASE", ToJson([m |-> mod,
                             h |-> RHeader(mod),
                             nn |-> Len(st.n),
                             hn |-> Len(hdr.out),
                             zones |-> st.zones,
                             open |-> st.z])>>)
=============================================================================

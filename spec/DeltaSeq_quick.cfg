SPECIFICATION Spec
CONSTANTS
  MaxSeq = 2
INVARIANTS EmitSeq EmitContexts
CHECK_DEADLOCK FALSE

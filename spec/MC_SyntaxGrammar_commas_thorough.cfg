SPECIFICATION Spec
CONSTANTS
  RepAll = TRUE
  Mode = "mc"
  MaxNodes = 5
  Enabled = {"Module", "Fn", "FCall", "Array", "Structural", "FieldFull", "FieldShort", "Deref", "Idx", "Mem", "Len", "Int", "Call"}
  FlagSets <- FlagSets_none
  VarForms <- VarForms_init
  FnNames = {"f"}
  ParamNames = {"p"}
  VarNames = {"x"}
  LabelNames = {"l"}
  GotoNames = {"l"}
  MemberNames = {"m"}
  TypeNames = {"S"}
  ConstNames = {"N"}
  Builtins = {"print"}
  PrimTypes = {"u8"}
  WordSizes = {8}
  Files <- Files_one
  IntLits <- IntLits_one
  CharLits <- CharLits_one
  StrLits <- StrLits_one
  ArrayLens <- ArrayLens_one
  AddOps = {"+"}
  MulOps = {"*"}
  BitOps = {"&"}
  ShiftOps = {"<<"}
  UnOps = {"-"}
  CmpOps = {"=="}
  MaxDecls = 1
  MaxParams = 0
  MaxMembers = 0
  MaxStmts = 1
  MaxBlock = 0
  MaxArgs = 2
  MaxElems = 2
  MaxFields = 1
  MaxSteps = 1
  Addrs = {0}
  SetAddrs = {0}
  LenAddrs = {0}
  TrailingCommas = {TRUE, FALSE}
  LooseMembers = FALSE
INVARIANTS ClassesKnown EmitFaults Accepted
CHECK_DEADLOCK FALSE

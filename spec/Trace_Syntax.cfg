SPECIFICATION TSpec
CHECK_DEADLOCK FALSE
POSTCONDITION Accepted

SPECIFICATION Spec
CONSTANTS
  MaxLen = 3
INVARIANT TilesOK
CHECK_DEADLOCK FALSE

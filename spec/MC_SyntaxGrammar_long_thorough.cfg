SPECIFICATION Spec
CONSTANTS
  RepAll = TRUE
  Mode = "mc"
  MaxNodes = 9
  Enabled = {"Module", "Head", "Param", "Struct", "Word", "Member", "TyPrim", "Fn", "Structural", "FieldFull", "FieldShort", "Int"}
  FlagSets <- FlagSets_none
  VarForms <- VarForms_init
  FnNames = {"f"}
  ParamNames = {"p", "q"}
  VarNames = {"x"}
  LabelNames = {"l"}
  GotoNames = {"l"}
  MemberNames = {"m", "n"}
  TypeNames = {"S"}
  ConstNames = {"N"}
  Builtins = {"print"}
  PrimTypes = {"u8"}
  WordSizes = {8}
  Files <- Files_one
  IntLits <- IntLits_one
  CharLits <- CharLits_one
  StrLits <- StrLits_one
  ArrayLens <- ArrayLens_one
  AddOps = {"+"}
  MulOps = {"*"}
  BitOps = {"&"}
  ShiftOps = {"<<"}
  UnOps = {"-"}
  CmpOps = {"=="}
  MaxDecls = 1
  MaxParams = 4
  MaxMembers = 4
  MaxStmts = 0
  MaxBlock = 0
  MaxArgs = 0
  MaxElems = 0
  MaxFields = 4
  MaxSteps = 0
  Addrs = {0}
  SetAddrs = {0}
  LenAddrs = {0}
  TrailingCommas = {FALSE}
  LooseMembers = FALSE
INVARIANTS ClassesKnown EmitFaults Accepted
CHECK_DEADLOCK FALSE
